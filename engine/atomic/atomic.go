// Package atomic replaces sync/atomic inside instrumented code: each operation is one scheduling
// point and one sequentially consistent step.
package atomic

import (
	"reflect"
	"unsafe"

	"github.com/TeaEntityLab/fpGo/v2/zzverif/vsched"
)

func pt[T any](p *T, what string) { vsched.AtomicPoint(uintptr(unsafe.Pointer(p)), what) }

func LoadInt32(p *int32) int32                     { pt(p, "atomic.Load"); return *p }
func LoadInt64(p *int64) int64                     { pt(p, "atomic.Load"); return *p }
func LoadUint32(p *uint32) uint32                  { pt(p, "atomic.Load"); return *p }
func LoadUint64(p *uint64) uint64                  { pt(p, "atomic.Load"); return *p }
func LoadUintptr(p *uintptr) uintptr               { pt(p, "atomic.Load"); return *p }
func LoadPointer(p *unsafe.Pointer) unsafe.Pointer { pt(p, "atomic.Load"); return *p }

func StoreInt32(p *int32, v int32)                     { pt(p, "atomic.Store"); *p = v }
func StoreInt64(p *int64, v int64)                     { pt(p, "atomic.Store"); *p = v }
func StoreUint32(p *uint32, v uint32)                  { pt(p, "atomic.Store"); *p = v }
func StoreUint64(p *uint64, v uint64)                  { pt(p, "atomic.Store"); *p = v }
func StoreUintptr(p *uintptr, v uintptr)               { pt(p, "atomic.Store"); *p = v }
func StorePointer(p *unsafe.Pointer, v unsafe.Pointer) { pt(p, "atomic.Store"); *p = v }

func AddInt32(p *int32, d int32) int32         { pt(p, "atomic.Add"); *p += d; return *p }
func AddInt64(p *int64, d int64) int64         { pt(p, "atomic.Add"); *p += d; return *p }
func AddUint32(p *uint32, d uint32) uint32     { pt(p, "atomic.Add"); *p += d; return *p }
func AddUint64(p *uint64, d uint64) uint64     { pt(p, "atomic.Add"); *p += d; return *p }
func AddUintptr(p *uintptr, d uintptr) uintptr { pt(p, "atomic.Add"); *p += d; return *p }

func SwapInt32(p *int32, v int32) int32     { pt(p, "atomic.Swap"); o := *p; *p = v; return o }
func SwapInt64(p *int64, v int64) int64     { pt(p, "atomic.Swap"); o := *p; *p = v; return o }
func SwapUint32(p *uint32, v uint32) uint32 { pt(p, "atomic.Swap"); o := *p; *p = v; return o }
func SwapUint64(p *uint64, v uint64) uint64 { pt(p, "atomic.Swap"); o := *p; *p = v; return o }
func SwapPointer(p *unsafe.Pointer, v unsafe.Pointer) unsafe.Pointer {
	pt(p, "atomic.Swap")
	o := *p
	*p = v
	return o
}

func cas[T comparable](p *T, old, new T) bool {
	pt(p, "atomic.CAS")
	if *p == old {
		*p = new
		return true
	}
	return false
}

func CompareAndSwapInt32(p *int32, old, new int32) bool                     { return cas(p, old, new) }
func CompareAndSwapInt64(p *int64, old, new int64) bool                     { return cas(p, old, new) }
func CompareAndSwapUint32(p *uint32, old, new uint32) bool                  { return cas(p, old, new) }
func CompareAndSwapUint64(p *uint64, old, new uint64) bool                  { return cas(p, old, new) }
func CompareAndSwapUintptr(p *uintptr, old, new uintptr) bool               { return cas(p, old, new) }
func CompareAndSwapPointer(p *unsafe.Pointer, old, new unsafe.Pointer) bool { return cas(p, old, new) }

type Int32 struct{ v int32 }

func (a *Int32) Load() int32                    { return LoadInt32(&a.v) }
func (a *Int32) Store(v int32)                  { StoreInt32(&a.v, v) }
func (a *Int32) Add(d int32) int32              { return AddInt32(&a.v, d) }
func (a *Int32) Swap(v int32) int32             { return SwapInt32(&a.v, v) }
func (a *Int32) CompareAndSwap(o, n int32) bool { return CompareAndSwapInt32(&a.v, o, n) }

type Int64 struct{ v int64 }

func (a *Int64) Load() int64                    { return LoadInt64(&a.v) }
func (a *Int64) Store(v int64)                  { StoreInt64(&a.v, v) }
func (a *Int64) Add(d int64) int64              { return AddInt64(&a.v, d) }
func (a *Int64) Swap(v int64) int64             { return SwapInt64(&a.v, v) }
func (a *Int64) CompareAndSwap(o, n int64) bool { return CompareAndSwapInt64(&a.v, o, n) }

type Uint32 struct{ v uint32 }

func (a *Uint32) Load() uint32                    { return LoadUint32(&a.v) }
func (a *Uint32) Store(v uint32)                  { StoreUint32(&a.v, v) }
func (a *Uint32) Add(d uint32) uint32             { return AddUint32(&a.v, d) }
func (a *Uint32) CompareAndSwap(o, n uint32) bool { return CompareAndSwapUint32(&a.v, o, n) }

type Uint64 struct{ v uint64 }

func (a *Uint64) Load() uint64                    { return LoadUint64(&a.v) }
func (a *Uint64) Store(v uint64)                  { StoreUint64(&a.v, v) }
func (a *Uint64) Add(d uint64) uint64             { return AddUint64(&a.v, d) }
func (a *Uint64) CompareAndSwap(o, n uint64) bool { return CompareAndSwapUint64(&a.v, o, n) }

type Bool struct{ v int32 }

func b2i(b bool) int32 {
	if b {
		return 1
	}
	return 0
}
func (a *Bool) Load() bool                    { return LoadInt32(&a.v) != 0 }
func (a *Bool) Store(v bool)                  { StoreInt32(&a.v, b2i(v)) }
func (a *Bool) Swap(v bool) bool              { return SwapInt32(&a.v, b2i(v)) != 0 }
func (a *Bool) CompareAndSwap(o, n bool) bool { return CompareAndSwapInt32(&a.v, b2i(o), b2i(n)) }

// Value mirrors sync/atomic.Value, including its panics: a nil value cannot be stored, and every value stored
// must have the concrete type of the first one.
type Value struct{ v interface{} }

func (a *Value) check(op string, v interface{}) {
	if v == nil {
		panic("sync/atomic: " + op + " of nil value into Value")
	}
	if a.v != nil && reflect.TypeOf(a.v) != reflect.TypeOf(v) {
		panic("sync/atomic: " + op + " of inconsistently typed value into Value")
	}
}

func (a *Value) Load() interface{} { pt(a, "atomic.Load"); return a.v }
func (a *Value) Store(v interface{}) {
	pt(a, "atomic.Store")
	a.check("store", v)
	a.v = v
}
func (a *Value) Swap(v interface{}) interface{} {
	pt(a, "atomic.Swap")
	a.check("swap", v)
	o := a.v
	a.v = v
	return o
}
func (a *Value) CompareAndSwap(o, n interface{}) bool {
	pt(a, "atomic.CAS")
	if n == nil {
		panic("sync/atomic: compare and swap of nil value into Value")
	}
	if o != nil && reflect.TypeOf(o) != reflect.TypeOf(n) {
		panic("sync/atomic: compare and swap of inconsistently typed values")
	}
	if a.v != nil && reflect.TypeOf(a.v) != reflect.TypeOf(n) {
		panic("sync/atomic: compare and swap of inconsistently typed value into Value")
	}
	if a.v != o {
		return false
	}
	a.v = n
	return true
}

type Pointer[T any] struct{ p *T }

func (a *Pointer[T]) Load() *T     { pt(a, "atomic.Load"); return a.p }
func (a *Pointer[T]) Store(v *T)   { pt(a, "atomic.Store"); a.p = v }
func (a *Pointer[T]) Swap(v *T) *T { pt(a, "atomic.Swap"); o := a.p; a.p = v; return o }
func (a *Pointer[T]) CompareAndSwap(o, n *T) bool {
	pt(a, "atomic.CAS")
	if a.p == o {
		a.p = n
		return true
	}
	return false
}

// the remaining sync/atomic surface: the Uintptr type, SwapUintptr and the And / Or operations (go 1.23)
func SwapUintptr(p *uintptr, v uintptr) uintptr { pt(p, "atomic.Swap"); o := *p; *p = v; return o }

type Uintptr struct{ v uintptr }

func (a *Uintptr) Load() uintptr                    { return LoadUintptr(&a.v) }
func (a *Uintptr) Store(v uintptr)                  { StoreUintptr(&a.v, v) }
func (a *Uintptr) Add(d uintptr) uintptr            { return AddUintptr(&a.v, d) }
func (a *Uintptr) Swap(v uintptr) uintptr           { return SwapUintptr(&a.v, v) }
func (a *Uintptr) CompareAndSwap(o, n uintptr) bool { return CompareAndSwapUintptr(&a.v, o, n) }

func AndInt32(p *int32, m int32) int32         { pt(p, "atomic.And"); o := *p; *p &= m; return o }
func OrInt32(p *int32, m int32) int32          { pt(p, "atomic.Or"); o := *p; *p |= m; return o }
func AndUint32(p *uint32, m uint32) uint32     { pt(p, "atomic.And"); o := *p; *p &= m; return o }
func OrUint32(p *uint32, m uint32) uint32      { pt(p, "atomic.Or"); o := *p; *p |= m; return o }
func AndInt64(p *int64, m int64) int64         { pt(p, "atomic.And"); o := *p; *p &= m; return o }
func OrInt64(p *int64, m int64) int64          { pt(p, "atomic.Or"); o := *p; *p |= m; return o }
func AndUint64(p *uint64, m uint64) uint64     { pt(p, "atomic.And"); o := *p; *p &= m; return o }
func OrUint64(p *uint64, m uint64) uint64      { pt(p, "atomic.Or"); o := *p; *p |= m; return o }
func AndUintptr(p *uintptr, m uintptr) uintptr { pt(p, "atomic.And"); o := *p; *p &= m; return o }
func OrUintptr(p *uintptr, m uintptr) uintptr  { pt(p, "atomic.Or"); o := *p; *p |= m; return o }

func (a *Int32) And(m int32) int32    { return AndInt32(&a.v, m) }
func (a *Int32) Or(m int32) int32     { return OrInt32(&a.v, m) }
func (a *Uint32) And(m uint32) uint32 { return AndUint32(&a.v, m) }
func (a *Uint32) Or(m uint32) uint32  { return OrUint32(&a.v, m) }
func (a *Int64) And(m int64) int64    { return AndInt64(&a.v, m) }
func (a *Int64) Or(m int64) int64     { return OrInt64(&a.v, m) }
func (a *Uint64) And(m uint64) uint64 { return AndUint64(&a.v, m) }
func (a *Uint64) Or(m uint64) uint64  { return OrUint64(&a.v, m) }
