// Package context replaces the standard context package inside instrumented (scheduled) code: cancellation
// channels are channels the scheduler knows, deadlines are timers on the virtual clock. The Context
// interface and the error values are the standard library's, so values interoperate with code that is
// not instrumented.
package context

import (
	stdctx "context"
	"time"

	"github.com/TeaEntityLab/fpGo/v2/zzverif/vsched"
)

type Context = stdctx.Context
type CancelFunc = stdctx.CancelFunc
type CancelCauseFunc = stdctx.CancelCauseFunc

var Canceled = stdctx.Canceled
var DeadlineExceeded = stdctx.DeadlineExceeded

func Background() Context { return stdctx.Background() }
func TODO() Context       { return stdctx.TODO() }

func WithValue(parent Context, key, val interface{}) Context { return stdctx.WithValue(parent, key, val) }
func Cause(c Context) error                                  { return stdctx.Cause(c) }

// cancelCtx is a cancellable context whose Done channel is closed through the scheduler.
type cancelCtx struct {
	parent   Context
	done     chan struct{}
	err      error
	cause    error
	children []*cancelCtx
	deadline time.Time
	hasDl    bool
	timer    *vsched.Timer
}

func (c *cancelCtx) Deadline() (time.Time, bool) {
	if c.hasDl {
		return c.deadline, true
	}
	return c.parent.Deadline()
}
func (c *cancelCtx) Done() <-chan struct{} { return c.done }
func (c *cancelCtx) Err() error {
	vsched.Yield()
	return c.err
}
func (c *cancelCtx) Value(key interface{}) interface{} { return c.parent.Value(key) }

func (c *cancelCtx) cancel(err, cause error) {
	if c.err != nil {
		return
	}
	c.err = err
	if cause == nil {
		cause = err
	}
	c.cause = cause
	vsched.C(c.done).Close()
	if c.timer != nil {
		c.timer.Stop()
	}
	for _, ch := range c.children {
		ch.cancel(err, cause)
	}
	c.children = nil
}

// find the nearest modelled ancestor (through WithValue wrappers this is not attempted: a foreign parent
// that can be cancelled is watched by a model thread instead).
func newCancelCtx(parent Context) *cancelCtx {
	if parent == nil {
		panic("cannot create context from nil parent")
	}
	c := &cancelCtx{parent: parent, done: make(chan struct{})}
	if p, ok := parent.(*cancelCtx); ok {
		if p.err != nil {
			c.cancel(p.err, p.cause)
		} else {
			p.children = append(p.children, c)
		}
	} else if pd := parent.Done(); pd != nil {
		vsched.Go(func() {
			vsched.Select(false, vsched.CR(pd).RecvCase(), vsched.CR(c.Done()).RecvCase())
			c.cancel(parent.Err(), stdctx.Cause(parent))
		})
	}
	return c
}

func WithCancel(parent Context) (Context, CancelFunc) {
	c := newCancelCtx(parent)
	return c, func() { c.cancel(Canceled, nil) }
}

func WithCancelCause(parent Context) (Context, CancelCauseFunc) {
	c := newCancelCtx(parent)
	return c, func(cause error) { c.cancel(Canceled, cause) }
}

func WithDeadline(parent Context, d time.Time) (Context, CancelFunc) {
	return WithDeadlineCause(parent, d, nil)
}

func WithDeadlineCause(parent Context, d time.Time, cause error) (Context, CancelFunc) {
	c := newCancelCtx(parent)
	if cur, ok := parent.Deadline(); ok && cur.Before(d) {
		return c, func() { c.cancel(Canceled, nil) } // the parent's deadline is sooner
	}
	c.deadline, c.hasDl = d, true
	dur := vsched.Until(d)
	if dur <= 0 {
		c.cancel(DeadlineExceeded, cause)
		return c, func() {}
	}
	if c.err == nil {
		c.timer = vsched.AfterFunc(dur, func() { c.cancel(DeadlineExceeded, cause) })
	}
	return c, func() { c.cancel(Canceled, nil) }
}

func WithTimeout(parent Context, timeout time.Duration) (Context, CancelFunc) {
	return WithDeadline(parent, vsched.Now().Add(timeout))
}

func WithTimeoutCause(parent Context, timeout time.Duration, cause error) (Context, CancelFunc) {
	return WithDeadlineCause(parent, vsched.Now().Add(timeout), cause)
}

func WithoutCancel(parent Context) Context { return stdctx.WithoutCancel(parent) }

// AfterFunc runs f on its own model thread after ctx is done; stop reports whether it prevented the run.
func AfterFunc(ctx Context, f func()) (stop func() bool) {
	stopped, ran := false, false
	quit := make(chan struct{})
	vsched.Go(func() {
		if vsched.Select(false, vsched.CR(ctx.Done()).RecvCase(), vsched.CR((<-chan struct{})(quit)).RecvCase()) == 0 && !stopped {
			ran = true
			f()
		}
	})
	return func() bool {
		if ran || stopped {
			return false
		}
		stopped = true
		vsched.C(quit).Close()
		return true
	}
}
