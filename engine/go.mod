module github.com/TeaEntityLab/fpGo/v2/zzverif

go 1.18
