// Package sync is the drop-in replacement of the standard sync package inside instrumented code:
// same names, but every operation is a scheduling point on modelled state.
package sync

import (
	"github.com/TeaEntityLab/fpGo/v2/zzverif/vsched"
)

type Locker interface {
	Lock()
	Unlock()
}

type Mutex struct{ s vsched.MutexState }

func (m *Mutex) Lock()         { m.s.Lock() }
func (m *Mutex) Unlock()       { m.s.Unlock() }
func (m *Mutex) TryLock() bool { return m.s.TryLock() }

// VerifLocked exposes the model state to oracles.
func (m *Mutex) VerifLocked() bool { return m.s.Locked() }

type RWMutex struct{ s vsched.RWMutexState }

func (m *RWMutex) Lock()          { m.s.Lock() }
func (m *RWMutex) Unlock()        { m.s.Unlock() }
func (m *RWMutex) RLock()         { m.s.RLock() }
func (m *RWMutex) RUnlock()       { m.s.RUnlock() }
func (m *RWMutex) TryLock() bool  { return m.s.TryLock() }
func (m *RWMutex) TryRLock() bool { return m.s.TryRLock() }

// VerifFree exposes the model state to oracles.
func (m *RWMutex) VerifFree() bool { return m.s.Free() }

type rlocker RWMutex

func (r *rlocker) Lock()   { (*RWMutex)(r).RLock() }
func (r *rlocker) Unlock() { (*RWMutex)(r).RUnlock() }

func (m *RWMutex) RLocker() Locker { return (*rlocker)(m) }

type WaitGroup struct{ s vsched.WaitGroupState }

func (w *WaitGroup) Add(d int) { w.s.Add(d) }
func (w *WaitGroup) Done()     { w.s.Add(-1) }
func (w *WaitGroup) Wait()     { w.s.Wait() }

type Once struct{ s vsched.OnceState }

func (o *Once) Do(f func()) { o.s.Do(f) }

// Pool: sync.Pool may hand back any object put earlier, or a fresh one. That is an environment
// answer; the two extreme policies are selectable (vsched.PoolRetain): retain nothing (always New)
// or retain everything (LIFO or FIFO). Checks that depend on it run under all three.
type Pool struct {
	New   func() interface{}
	items []interface{}
}

func (p *Pool) Get() interface{} {
	if vsched.PoolRetain == 1 && len(p.items) > 0 {
		it := p.items[len(p.items)-1]
		p.items = p.items[:len(p.items)-1]
		return it
	}
	if vsched.PoolRetain == 2 && len(p.items) > 0 {
		it := p.items[0]
		p.items = p.items[1:]
		return it
	}
	if p.New != nil {
		return p.New()
	}
	return nil
}

func (p *Pool) Put(x interface{}) {
	if vsched.PoolRetain != 0 {
		p.items = append(p.items, x)
	}
}

// Map: a plain map behind a modelled mutex.
type Map struct {
	mu Mutex
	m  map[interface{}]interface{}
	ks []interface{}
}

func (m *Map) Load(k interface{}) (interface{}, bool) {
	m.mu.Lock()
	defer m.mu.Unlock()
	v, ok := m.m[k]
	return v, ok
}

func (m *Map) Store(k, v interface{}) {
	m.mu.Lock()
	defer m.mu.Unlock()
	if m.m == nil {
		m.m = map[interface{}]interface{}{}
	}
	if _, ok := m.m[k]; !ok {
		m.ks = append(m.ks, k)
	}
	m.m[k] = v
}

func (m *Map) LoadOrStore(k, v interface{}) (interface{}, bool) {
	m.mu.Lock()
	defer m.mu.Unlock()
	if old, ok := m.m[k]; ok {
		return old, true
	}
	if m.m == nil {
		m.m = map[interface{}]interface{}{}
	}
	m.ks = append(m.ks, k)
	m.m[k] = v
	return v, false
}

func (m *Map) Delete(k interface{}) {
	m.mu.Lock()
	defer m.mu.Unlock()
	if _, ok := m.m[k]; ok {
		delete(m.m, k)
		for i, e := range m.ks {
			if e == k {
				m.ks = append(m.ks[:i:i], m.ks[i+1:]...)
				break
			}
		}
	}
}

func (m *Map) Range(f func(k, v interface{}) bool) {
	m.mu.Lock()
	ks := append([]interface{}{}, m.ks...)
	m.mu.Unlock()
	for _, k := range ks {
		v, ok := m.Load(k)
		if ok && !f(k, v) {
			return
		}
	}
}

// LoadAndDelete / Swap / CompareAndSwap / CompareAndDelete / Clear complete the sync.Map surface.
func (m *Map) LoadAndDelete(k interface{}) (interface{}, bool) {
	v, ok := m.Load(k)
	if ok {
		m.Delete(k)
	}
	return v, ok
}

func (m *Map) Swap(k, v interface{}) (interface{}, bool) {
	old, ok := m.Load(k)
	m.Store(k, v)
	return old, ok
}

func (m *Map) CompareAndSwap(k, old, new interface{}) bool {
	m.mu.Lock()
	cur, ok := m.m[k]
	m.mu.Unlock()
	if !ok || cur != old {
		return false
	}
	m.Store(k, new)
	return true
}

func (m *Map) CompareAndDelete(k, old interface{}) bool {
	m.mu.Lock()
	cur, ok := m.m[k]
	m.mu.Unlock()
	if !ok || cur != old {
		return false
	}
	m.Delete(k)
	return true
}

func (m *Map) Clear() {
	m.mu.Lock()
	m.m, m.ks = nil, nil
	m.mu.Unlock()
}

// Cond: waiters queue in arrival order; Signal wakes the oldest, Broadcast all of them.
type Cond struct {
	L       Locker
	waiters []chan struct{}
}

func NewCond(l Locker) *Cond { return &Cond{L: l} }

func (c *Cond) Wait() {
	ch := make(chan struct{}, 1)
	c.waiters = append(c.waiters, ch)
	c.L.Unlock()
	vsched.C(ch).Recv()
	c.L.Lock()
}

func (c *Cond) Signal() {
	if len(c.waiters) > 0 {
		ch := c.waiters[0]
		c.waiters = c.waiters[1:]
		vsched.C(ch).Send(struct{}{})
	}
}

func (c *Cond) Broadcast() {
	ws := c.waiters
	c.waiters = nil
	for _, ch := range ws {
		vsched.C(ch).Send(struct{}{})
	}
}

// OnceFunc / OnceValue / OnceValues (go 1.21), built on the modelled Once.
func OnceFunc(f func()) func() {
	var o Once
	var p interface{}
	failed := false
	return func() {
		o.Do(func() {
			defer func() {
				if p = recover(); p != nil {
					failed = true
					panic(p)
				}
			}()
			f()
		})
		if failed {
			panic(p)
		}
	}
}

func OnceValue[T any](f func() T) func() T {
	var v T
	g := OnceFunc(func() { v = f() })
	return func() T { g(); return v }
}

func OnceValues[T1, T2 any](f func() (T1, T2)) func() (T1, T2) {
	var v1 T1
	var v2 T2
	g := OnceFunc(func() { v1, v2 = f() })
	return func() (T1, T2) { g(); return v1, v2 }
}
