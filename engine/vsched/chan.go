package vsched

import (
	"fmt"
	"reflect"
	"unsafe"
)

// runtimeError mimics the runtime's panics for channel misuse (implements runtime.Error).
type runtimeError string

func (e runtimeError) Error() string { return string(e) }
func (e runtimeError) RuntimeError() {}

type msg struct {
	v  interface{} // *T box
	vc VC
}

type waiter struct {
	t   *Thread
	op  *pend
	box interface{} // sender: *T holding the value; receiver: *T to fill
	got *bool       // receiver: set to ok
	sel *selState   // non-nil: part of a select
	idx int         // case index in the select
}

type chanState struct {
	hb      hbObj
	id      int
	cap     int
	buf     []msg
	closed  bool
	closeVC VC
	sendq   []*waiter
	recvq   []*waiter
	isTimer bool
	due     int64
	taken   bool
	syncVC  VC // unbuffered: clock exchanged at rendezvous
}

func chanKey[T any](c chan T) unsafe.Pointer { return *(*unsafe.Pointer)(unsafe.Pointer(&c)) }

func (x *Exec) chanOf(p unsafe.Pointer, capacity int) *chanState {
	if p == nil {
		return nil
	}
	cs := x.chans[p]
	if cs == nil {
		x.nextObj++
		cs = &chanState{id: x.nextObj, cap: capacity}
		x.chans[p] = cs
	}
	return cs
}

func (cs *chanState) String() string {
	if cs == nil {
		return "chan(nil)"
	}
	return fmt.Sprintf("chan#%d", cs.id)
}

func removeWaiter(q []*waiter, w *waiter) []*waiter {
	for i, e := range q {
		if e == w {
			return append(q[:i:i], q[i+1:]...)
		}
	}
	return q
}

func (cs *chanState) canSend() bool {
	if cs == nil {
		return false
	}
	if cs.closed {
		return true // will panic
	}
	if cs.cap > 0 {
		return len(cs.buf) < cs.cap
	}
	return len(cs.recvq) > 0
}

func (cs *chanState) canRecv(x *Exec) bool {
	if cs == nil {
		return false
	}
	if cs.isTimer {
		return !cs.taken && x.clock >= cs.due
	}
	if len(cs.buf) > 0 || cs.closed {
		return true
	}
	return cs.cap == 0 && len(cs.sendq) > 0
}

// doSend applies a send that is known to be possible. box is a *T.
func (x *Exec) doSend(cs *chanState, box interface{}, copyTo func(dst, src interface{})) {
	if cs.closed {
		panic(runtimeError("send on closed channel"))
	}
	if cs.cap > 0 {
		m := msg{v: box}
		x.release(&m.vc)
		cs.buf = append(cs.buf, m)
		x.hbEvent(&cs.hb, kSend, 0)
		return
	}
	// rendezvous with the first parked receiver
	w := cs.recvq[0]
	x.completeWaiter(cs, w)
	copyTo(w.box, box)
	if w.got != nil {
		*w.got = true
	}
	// synchronous: clocks flow both ways
	x.release(&cs.syncVC)
	w.t.vc.join(cs.syncVC)
	x.cur.vc.join(w.t.vc)
	w.t.vc.tick(w.t.id)
	x.hbPartner(w.t, x.hbEvent(&cs.hb, kSend, 1))
}

// completeWaiter marks a parked partner's operation as done (it becomes enabled and just returns).
func (x *Exec) completeWaiter(cs *chanState, w *waiter) {
	if w.sel != nil {
		w.sel.fired = w.idx
		w.sel.unregister(x)
	} else {
		cs.sendq = removeWaiter(cs.sendq, w)
		cs.recvq = removeWaiter(cs.recvq, w)
	}
	w.op.done = true
}

// doRecv applies a receive that is known to be possible; returns ok.
func (x *Exec) doRecv(cs *chanState, box interface{}, copyTo func(dst, src interface{}), zero func(dst interface{})) bool {
	if cs.isTimer {
		cs.taken = true
		zero(box)
		x.hbEvent(&cs.hb, kRecv, 3)
		return true
	}
	if len(cs.buf) > 0 {
		m := cs.buf[0]
		cs.buf = cs.buf[1:]
		copyTo(box, m.v)
		x.acquire(m.vc)
		x.hbEvent(&cs.hb, kRecv, 0)
		return true
	}
	if cs.cap == 0 && len(cs.sendq) > 0 {
		w := cs.sendq[0]
		x.completeWaiter(cs, w)
		copyTo(box, w.box)
		x.release(&cs.syncVC)
		w.t.vc.join(cs.syncVC)
		x.cur.vc.join(w.t.vc)
		w.t.vc.tick(w.t.id)
		x.hbPartner(w.t, x.hbEvent(&cs.hb, kRecv, 1))
		return true
	}
	if cs.closed {
		zero(box)
		x.acquire(cs.closeVC)
		x.hbEvent(&cs.hb, kRecv, 2)
		return false
	}
	panic("vsched: doRecv on a channel that is not ready")
}

// ---- typed front end (what the instrumenter emits) ----

// ChanOps wraps a channel for a hooked operation: vsched.C(ch).Send(v), .Recv(), .Recv2(), .Close().
type ChanOps[T any] struct{ c chan T }

// C accepts bidirectional channels (and named channel types).
func C[T any](c chan T) ChanOps[T] { return ChanOps[T]{c} }

// CR accepts receive-only channels.
func CR[T any](c <-chan T) ChanOps[T] { return ChanOps[T]{*(*chan T)(unsafe.Pointer(&c))} }

// CS accepts send-only channels.
func CS[T any](c chan<- T) ChanOps[T] { return ChanOps[T]{*(*chan T)(unsafe.Pointer(&c))} }

func copyT[T any](dst, src interface{}) { *(dst.(*T)) = *(src.(*T)) }
func zeroT[T any](dst interface{})      { var z T; *(dst.(*T)) = z }

func (o ChanOps[T]) state(x *Exec) *chanState {
	if o.c == nil {
		return nil
	}
	return x.chanOf(chanKey(o.c), cap(o.c))
}

// Send is `c <- v`.
func (o ChanOps[T]) Send(v T) {
	x := active()
	if x == nil {
		if inAbort() {
			return
		}
		if X != nil && X.frozen {
			panic("vsched: channel send from an oracle")
		}
		o.c <- v
		return
	}
	cs := o.state(x)
	if cs == nil {
		x.point(&pend{desc: "send chan(nil)", ready: func() bool { return false }})
		return
	}
	if cs.cap > 0 {
		x.point(&pend{desc: "send " + cs.String(), ready: cs.canSend})
		x.tracef("send %s", cs)
		x.doSend(cs, &v, copyT[T])
		return
	}
	// unbuffered: phase 1, the send arrives; it completes at once if a receiver is already waiting
	x.point(&pend{desc: "send " + cs.String()})
	if cs.closed || len(cs.recvq) > 0 {
		x.tracef("send %s (receiver waiting)", cs)
		x.doSend(cs, &v, copyT[T])
		return
	}
	// phase 2: wait for a receiver (which completes this operation) or for close
	op := &pend{desc: "send(wait) " + cs.String()}
	op.ready = func() bool { return cs.closed }
	w := &waiter{t: x.cur, op: op, box: &v}
	cs.sendq = append(cs.sendq, w)
	x.hbEvent(&cs.hb, kArrive, 1)
	x.point(op)
	if op.done {
		x.tracef("send %s (completed by receiver)", cs)
		return
	}
	cs.sendq = removeWaiter(cs.sendq, w)
	x.doSend(cs, &v, copyT[T]) // closed: panics
}

func (o ChanOps[T]) recv() (T, bool) {
	var v T
	x := active()
	if x == nil {
		if inAbort() {
			return v, false
		}
		if X != nil && X.frozen {
			panic("vsched: channel receive from an oracle")
		}
		r, ok := <-o.c
		return r, ok
	}
	cs := o.state(x)
	if cs == nil {
		x.point(&pend{desc: "recv chan(nil)", ready: func() bool { return false }})
		return v, false
	}
	if cs.cap > 0 || cs.isTimer {
		op := &pend{desc: "recv " + cs.String(), ready: func() bool { return cs.canRecv(x) }}
		if cs.isTimer {
			op.due = cs.due
			op.desc = "recv timer"
		}
		x.point(op)
		ok := x.doRecv(cs, &v, copyT[T], zeroT[T])
		x.tracef("recv %s ok=%v", cs, ok)
		return v, ok
	}
	// unbuffered: phase 1, the receive arrives
	x.point(&pend{desc: "recv " + cs.String()})
	if len(cs.sendq) > 0 || cs.closed {
		ok := x.doRecv(cs, &v, copyT[T], zeroT[T])
		x.tracef("recv %s ok=%v (sender waiting / closed)", cs, ok)
		return v, ok
	}
	// phase 2: wait for a sender (which completes this operation) or for close
	ok := false
	op := &pend{desc: "recv(wait) " + cs.String()}
	op.ready = func() bool { return cs.closed }
	w := &waiter{t: x.cur, op: op, box: &v, got: &ok}
	cs.recvq = append(cs.recvq, w)
	x.hbEvent(&cs.hb, kArrive, 2)
	x.point(op)
	if op.done {
		x.tracef("recv %s (completed by sender)", cs)
		return v, ok
	}
	cs.recvq = removeWaiter(cs.recvq, w)
	ok = x.doRecv(cs, &v, copyT[T], zeroT[T])
	x.tracef("recv %s ok=%v", cs, ok)
	return v, ok
}

// Recv is `<-c`.
func (o ChanOps[T]) Recv() T {
	v, _ := o.recv()
	return v
}

// Recv2 is `v, ok := <-c`.
func (o ChanOps[T]) Recv2() (T, bool) { return o.recv() }

// Close is `close(c)`.
func (o ChanOps[T]) Close() {
	x := active()
	if x == nil {
		if inAbort() {
			return
		}
		close(o.c)
		return
	}
	cs := o.state(x)
	x.point(&pend{desc: "close " + cs.String()})
	if cs == nil {
		panic(runtimeError("close of nil channel"))
	}
	if cs.closed {
		panic(runtimeError("close of closed channel"))
	}
	x.tracef("close %s", cs)
	cs.closed = true
	// close() detaches every parked sender at once (each of them will panic when it runs again): a receive that
	// comes after the close can no longer take a parked sender's value
	cs.sendq = nil
	x.release(&cs.closeVC)
	x.hbEvent(&cs.hb, kClose, 0)
}

// Len is `len(c)`.
func (o ChanOps[T]) Len() int {
	x := X
	if x == nil || x.aborting {
		return len(o.c)
	}
	if o.c == nil {
		return 0
	}
	cs := x.chanOf(chanKey(o.c), cap(o.c))
	if a := active(); a != nil {
		a.point(&pend{desc: "len " + cs.String()})
		a.hbEvent(&cs.hb, kLen, uint64(len(cs.buf)))
	}
	return len(cs.buf)
}

// ---- select ----

type selCase struct {
	cs     *chanState
	send   bool
	box    interface{} // send: *T value; recv: *T destination
	copyTo func(dst, src interface{})
	zero   func(dst interface{})
	ok     bool
	w      *waiter
	rch    reflect.Value // the real channel, only outside executions
}

// realSelect performs the select on the real channels (code running outside any execution).
func realSelect(hasDefault bool, cases []SelCase) int {
	var rc []reflect.SelectCase
	for _, c := range cases {
		sc := c.sel()
		if sc.send {
			rc = append(rc, reflect.SelectCase{Dir: reflect.SelectSend, Chan: sc.rch, Send: reflect.ValueOf(sc.box).Elem()})
		} else {
			rc = append(rc, reflect.SelectCase{Dir: reflect.SelectRecv, Chan: sc.rch})
		}
	}
	if hasDefault {
		rc = append(rc, reflect.SelectCase{Dir: reflect.SelectDefault})
	}
	i, v, ok := reflect.Select(rc)
	if hasDefault && i == len(cases) {
		return -1
	}
	sc := cases[i].sel()
	if !sc.send {
		if ok {
			reflect.ValueOf(sc.box).Elem().Set(v)
		}
		*sc.w.got = ok
	}
	return i
}

// SelCase is one communication clause prepared by the rewritten select statement.
type SelCase interface{ sel() *selCase }

// RCase is a receive clause; Val/Ok hold the result when it fired.
type RCase[T any] struct {
	c   selCase
	Val T
	Ok  bool
}

func (r *RCase[T]) sel() *selCase { return &r.c }

// SCase is a send clause.
type SCase[T any] struct {
	c selCase
	v T
}

func (s *SCase[T]) sel() *selCase { return &s.c }

// RecvCase prepares `case v := <-c`.
func (o ChanOps[T]) RecvCase() *RCase[T] {
	r := &RCase[T]{}
	r.c.copyTo, r.c.zero = copyT[T], zeroT[T]
	r.c.box = &r.Val
	if x := active(); x != nil {
		r.c.cs = o.state(x)
	}
	r.c.w = &waiter{box: &r.Val, got: &r.Ok}
	if X == nil {
		r.c.rch = reflect.ValueOf(o.c)
	}
	return r
}

// SendCase prepares `case c <- v`.
func (o ChanOps[T]) SendCase(v T) *SCase[T] {
	s := &SCase[T]{v: v}
	s.c.send = true
	s.c.copyTo = copyT[T]
	s.c.box = &s.v
	if x := active(); x != nil {
		s.c.cs = o.state(x)
	}
	s.c.w = &waiter{box: &s.v}
	if X == nil {
		s.c.rch = reflect.ValueOf(o.c)
	}
	return s
}

type selState struct {
	cases []*selCase
	fired int
}

func (s *selState) unregister(x *Exec) {
	for _, c := range s.cases {
		if c.cs == nil || c.cs.cap != 0 || c.cs.isTimer {
			continue
		}
		if c.send {
			c.cs.sendq = removeWaiter(c.cs.sendq, c.w)
		} else {
			c.cs.recvq = removeWaiter(c.cs.recvq, c.w)
		}
	}
}

// Select runs the rewritten select; returns the index of the clause that fired, -1 for default.
func Select(hasDefault bool, cases ...SelCase) int {
	x := active()
	if x == nil {
		if inAbort() {
			if hasDefault {
				return -1
			}
			// unwinding: pretend the first clause fired with a zero value
			return 0
		}
		return realSelect(hasDefault, cases)
	}
	st := &selState{fired: -2}
	for _, c := range cases {
		st.cases = append(st.cases, c.sel())
	}
	readyCase := func(sc *selCase) bool {
		if sc.cs == nil {
			return false
		}
		if sc.send {
			return sc.cs.canSend()
		}
		return sc.cs.canRecv(x)
	}
	anyReady := func() bool {
		for _, sc := range st.cases {
			if readyCase(sc) {
				return true
			}
		}
		return false
	}
	fire := func() int {
		var ready []int
		for i, sc := range st.cases {
			if readyCase(sc) {
				ready = append(ready, i)
			}
		}
		if len(ready) == 0 {
			return -1
		}
		k := ready[x.chooseFree(len(ready))]
		sc := st.cases[k]
		if sc.send {
			x.doSend(sc.cs, sc.box, sc.copyTo)
		} else {
			*sc.w.got = x.doRecv(sc.cs, sc.box, sc.copyTo, sc.zero)
		}
		x.tracef("select: clause %d of %d ready", k, len(ready))
		return k
	}
	// phase 1: the select arrives (always enabled); ready clauses are those whose partner is
	// already waiting (or whose buffer / timer / closed state allows it)
	x.point(&pend{desc: "select"})
	if k := fire(); k >= 0 {
		return k
	}
	if hasDefault {
		x.tracef("select: default")
		x.hbEvent(nil, kSelDefault, 0)
		return -1
	}
	// phase 2: register on the unbuffered channels and wait
	op := &pend{desc: "select(wait)"}
	registered := false
	for i, sc := range st.cases {
		sc.w.t, sc.w.op, sc.w.sel, sc.w.idx = x.cur, op, st, i
		if sc.cs == nil {
			continue
		}
		if sc.cs.isTimer && !sc.cs.taken && sc.cs.due > x.clock && (op.due == 0 || sc.cs.due < op.due) {
			op.due = sc.cs.due
		}
		if sc.cs.cap == 0 && !sc.cs.isTimer {
			if sc.send {
				sc.cs.sendq = append(sc.cs.sendq, sc.w)
			} else {
				sc.cs.recvq = append(sc.cs.recvq, sc.w)
			}
			x.hbEvent(&sc.cs.hb, kArrive, 3)
			registered = true
		}
	}
	_ = registered
	op.ready = func() bool {
		// woken by: a partner completing a clause (op.done), or a buffered / timer / closed clause
		// becoming ready. Other selects' or threads' waiters on the same unbuffered channel do not
		// make this one ready: they are waiting too.
		for _, sc := range st.cases {
			if sc.cs == nil {
				continue
			}
			if sc.cs.cap == 0 && !sc.cs.isTimer {
				if sc.cs.closed {
					return true
				}
				continue
			}
			if readyCase(sc) {
				return true
			}
		}
		return false
	}
	x.point(op)
	if op.done {
		x.tracef("select: clause %d completed by partner", st.fired)
		return st.fired
	}
	st.unregister(x)
	// only non-rendezvous clauses (or closed channels) can have woken us
	var ready []int
	for i, sc := range st.cases {
		if sc.cs == nil {
			continue
		}
		if sc.cs.cap == 0 && !sc.cs.isTimer && !sc.cs.closed {
			continue
		}
		if readyCase(sc) {
			ready = append(ready, i)
		}
	}
	if len(ready) == 0 {
		panic("vsched: select woken without a ready clause")
	}
	k := ready[x.chooseFree(len(ready))]
	sc := st.cases[k]
	if sc.send {
		x.doSend(sc.cs, sc.box, sc.copyTo)
	} else {
		*sc.w.got = x.doRecv(sc.cs, sc.box, sc.copyTo, sc.zero)
	}
	x.tracef("select: clause %d (after waiting)", k)
	_ = anyReady
	return k
}
