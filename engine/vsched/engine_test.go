package vsched

import (
	"fmt"
	"testing"
)

// lost update: two threads do tmp := c; yield; c = tmp+1
func TestLostUpdate(t *testing.T) {
	var c int
	sc := &Scenario{Name: "lost", Bound: 2,
		Body: func() {
			c = 0
			done := make(chan int, 2)
			for i := 0; i < 2; i++ {
				GoNamed(fmt.Sprintf("w%d", i), func() {
					tmp := c
					Yield()
					c = tmp + 1
					C(done).Send(1)
				})
			}
			C(done).Recv()
			C(done).Recv()
			Event("final", c)
		},
		Check: func(r *Result) []Failure {
			if c != 2 {
				return []Failure{{Key: "lost", Text: fmt.Sprint("c=", c)}}
			}
			return nil
		}}
	st, found := Explore(sc, Options{})
	t.Logf("%+v", *st)
	if len(found) != 1 || found[0].Bound != 1 {
		t.Fatalf("expected lost update at bound 1, got %+v", found)
	}
	t.Logf("trace: %v", found[0].Trace)
}

func TestUnbufferedRendezvousAndDeadlock(t *testing.T) {
	sc := &Scenario{Name: "rv", Bound: 2,
		Body: func() {
			ch := make(chan int)
			GoNamed("s", func() { C(ch).Send(7) })
			v := C(ch).Recv()
			Event("got", v)
			C(ch).Recv() // deadlock: parked forever
			Event("never")
		},
		Check: func(r *Result) []Failure {
			var fs []Failure
			if len(r.Events) != 1 || r.Events[0].Args[0].(int) != 7 {
				fs = append(fs, Failure{Key: "ev", Text: fmt.Sprint(r.Events)})
			}
			if len(r.Parked) != 1 || r.Parked[0].Thread != "main" {
				fs = append(fs, Failure{Key: "parked", Text: fmt.Sprint(r.Parked)})
			}
			return fs
		}}
	st, found := Explore(sc, Options{})
	t.Logf("%+v", *st)
	if len(found) != 0 {
		t.Fatalf("%+v", found)
	}
}

func TestSelectTimeoutAndMutex(t *testing.T) {
	var mu MutexState
	outcomes := map[string]bool{}
	sc := &Scenario{Name: "sel", Bound: 2, TimerDev: true,
		Body: func() {
			mu = MutexState{}
			ch := make(chan int, 1)
			GoNamed("p", func() {
				mu.Lock()
				Yield()
				mu.Unlock()
				Sleep(5)
				C(ch).Send(1)
			})
			r := C(ch).RecvCase()
			tm := CR(After(10)).RecvCase()
			switch Select(false, r, tm) {
			case 0:
				Event("data", r.Val)
			case 1:
				Event("timeout")
			}
			mu.Lock()
			mu.Unlock()
		},
		Check: func(r *Result) []Failure {
			outcomes[r.Events[0].Kind] = true
			if len(r.Parked) > 0 || len(r.Panics) > 0 {
				return []Failure{{Key: "bad", Text: fmt.Sprint(r.Parked, r.Panics)}}
			}
			return nil
		}}
	st, found := Explore(sc, Options{})
	t.Logf("%+v outcomes=%v", *st, outcomes)
	if len(found) != 0 || !outcomes["data"] || !outcomes["timeout"] {
		t.Fatalf("found=%v outcomes=%v", found, outcomes)
	}
}

func TestSendOnClosedPanics(t *testing.T) {
	sc := &Scenario{Name: "closed", Bound: 1,
		Body: func() {
			ch := make(chan int, 1)
			closed := false
			GoNamed("closer", func() { closed = true; C(ch).Close() })
			if !closed {
				C(ch).Send(1)
			}
		},
		Check: func(r *Result) []Failure {
			if len(r.Panics) > 0 {
				return []Failure{{Key: "panic:" + r.Panics[0].Value, Text: r.Panics[0].Site}}
			}
			return nil
		}}
	_, found := Explore(sc, Options{})
	if len(found) != 1 || found[0].Key != "panic:send on closed channel" {
		t.Fatalf("%+v", found)
	}
	t.Log(found[0].Trace, found[0].Events)
}

// a loop that spins on Gosched terminates: the goroutine it waits for is preferred at every yield, the state
// cache cuts the re-visited spin states, and a ticker nobody reads does not keep the clock running
func TestGoschedSpinAndAbandonedTicker(t *testing.T) {
	sc := &Scenario{Name: "spin", Bound: 2,
		Body: func() {
			flag := false
			GoNamed("setter", func() { Yield(); flag = true })
			tk := NewTicker(1000)
			_ = tk
			n := 0
			for !flag {
				Gosched()
				n++
			}
			Event("spins", n > 0)
		},
		Check: func(r *Result) []Failure {
			if r.Cap != "" || len(r.Events) != 1 {
				return []Failure{{Key: "spin", Text: fmt.Sprint(r.Cap, r.Events)}}
			}
			return nil
		}}
	st, found := Explore(sc, Options{})
	t.Logf("%+v", *st)
	if len(found) != 0 {
		t.Fatalf("unexpected failures: %+v", found)
	}
	if st.Execs > 2000 {
		t.Fatalf("spin loop not cut: %d executions", st.Execs)
	}
}
