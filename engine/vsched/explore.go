package vsched

import (
	"fmt"
	"hash/fnv"
	"runtime"
	"sort"
	"strings"
	"time"
)

// Found is a violation together with the schedule that produces it.
type Found struct {
	Failure
	Choices []int32
	Bound   int
	Trace   []string
	Events  []string
}

// Stats is what one exploration covered.
type Stats struct {
	Scenario     string
	Execs        int64 // executions of the final pass (all bounds of that pass)
	Steps        int64
	Nodes        int64 // distinct schedule-tree nodes (new scheduling decisions beyond replayed prefixes)
	MaxDepth     int
	MaxThreads   int
	Outcomes     int // distinct harness-visible outcomes (event log + terminal state)
	BoundKind    string
	BoundDone    int // largest bound completed
	BoundAsked   int
	Passes       int // racy-set fixpoint passes
	Racy         []string
	RacePairs    []string
	Caps         []string
	Deadline     bool
	SampleSched  [][]int32
	SampleEvents []string
	WallS        float64
	FailureExecs int64
	Pruned       int64 // executions cut short at an already fully explored happens-before state
	States       int64 // distinct happens-before states at choice points (state cache, final pass)
}

// Options steer one exploration.
type Options struct {
	Deadline          time.Time // zero: none. When reached the exploration stops, reports exhaustive:false
	Shard             int       // this worker explores the level-1 subtrees i with i%Shards == Shard
	Shards            int
	MaxFailuresPerKey int
}

// Explore runs the deviation-bounded DFS for bounds 0..sc.Bound, repeated until the racy-field set
// is stable; only the final pass counts.
func Explore(sc *Scenario, opt Options) (*Stats, []Found) {
	runtime.GOMAXPROCS(1)
	if opt.Shards == 0 {
		opt.Shards = 1
	}
	start := time.Now()
	var st *Stats
	var found []Found
	for pass := 1; ; pass++ {
		racyNew = map[string]bool{}
		st, found = explorePass(sc, opt)
		st.Passes = pass
		if len(racyNew) == 0 || st.Deadline {
			break
		}
		for k := range racyNew {
			racy[k] = true
		}
		if pass > 20 {
			st.Caps = append(st.Caps, "racy-set fixpoint not reached in 20 passes")
			break
		}
	}
	st.Racy = RacyFields()
	for k := range racyPairs {
		st.RacePairs = append(st.RacePairs, k)
	}
	sort.Strings(st.RacePairs)
	if len(st.RacePairs) > 12 {
		st.RacePairs = st.RacePairs[:12]
	}
	st.WallS = time.Since(start).Seconds()
	return st, found
}

func explorePass(sc *Scenario, opt Options) (*Stats, []Found) {
	st := &Stats{Scenario: sc.Name, BoundAsked: sc.Bound, BoundKind: "preemption", BoundDone: -1}
	if sc.Delay {
		st.BoundKind = "delay"
	}
	outcomes := map[uint64]bool{}
	byKey := map[string]*Found{}
	var order []string
	capSeen := map[string]bool{}
	for b := 0; b <= sc.Bound; b++ {
		complete := exploreBound(sc, b, opt, st, outcomes, byKey, &order, capSeen)
		if !complete {
			st.Deadline = true
			break
		}
		st.BoundDone = b
	}
	st.Outcomes = len(outcomes)
	for k := range capSeen {
		st.Caps = append(st.Caps, k)
	}
	sort.Strings(st.Caps)
	var found []Found
	for _, k := range order {
		found = append(found, *byKey[k])
	}
	return st, found
}

// exploreBound: stateless DFS over choice sequences with total cost <= b. For b > 0 executions whose
// cost is below b were covered by the previous bound; they are re-run only as interior nodes.
func exploreBound(sc *Scenario, b int, opt Options, st *Stats, outcomes map[uint64]bool, byKey map[string]*Found, order *[]string, capSeen map[string]bool) bool {
	var stack []frame
	var cache map[uint64]int8
	if !sc.NoCache {
		cache = map[uint64]int8{}
	}
	record := func(f frame) {
		if cache != nil {
			if v, ok := cache[f.key]; !ok || int32(v) < f.rem {
				cache[f.key] = int8(f.rem)
			}
		}
	}
	defer func() { st.States += int64(len(cache)) }()
	prefix := []int32{}
	first := true
	for {
		if !opt.Deadline.IsZero() && st.Execs%64 == 0 && time.Now().After(opt.Deadline) {
			return false
		}
		x, res, fails := runOne(sc, prefix, false, b, cache)
		if x.divergence != "" {
			panic("ENGINE: divergence while replaying a prefix: " + x.divergence)
		}
		if x.pruned {
			st.Pruned++
		}
		st.Execs++
		st.Steps += int64(x.steps)
		newNodes := len(x.trace) - len(prefix)
		if first {
			newNodes = len(x.trace)
			first = false
		}
		if newNodes > 0 {
			st.Nodes += int64(newNodes)
		}
		if len(x.trace) > st.MaxDepth {
			st.MaxDepth = len(x.trace)
		}
		if len(x.threads) > st.MaxThreads {
			st.MaxThreads = len(x.threads)
		}
		if res.Cap != "" {
			capSeen[res.Cap] = true
		}
		if !x.pruned {
			outcomes[outcomeHash(res)] = true
		}
		if len(st.SampleSched) < 3 && len(x.trace) > 0 && (len(prefix) > 0 || len(st.SampleSched) == 0) {
			st.SampleSched = append(st.SampleSched, chosenOf(x.trace))
			if len(st.SampleEvents) == 0 {
				for _, e := range res.Events {
					st.SampleEvents = append(st.SampleEvents, e.String())
				}
			}
		}
		if len(fails) > 0 {
			st.FailureExecs++
			for _, f := range fails {
				if byKey[f.Key] == nil {
					fd := &Found{Failure: f, Choices: chosenOf(x.trace), Bound: b}
					confirm(sc, fd)
					byKey[f.Key] = fd
					*order = append(*order, f.Key)
				}
			}
		}
		if sc.FirstOnly {
			capSeen["default schedule only (FirstOnly)"] = true
			return true
		}
		// rebuild the stack for the part beyond the prefix
		stack = stack[:len(prefix)]
		for i := len(prefix); i < len(x.trace); i++ {
			stack = append(stack, frame{costs: x.trace[i].costs, chosen: x.trace[i].chosen, key: x.trace[i].key, rem: x.trace[i].rem})
		}
		for i := 0; i < len(prefix) && i < len(x.trace); i++ {
			stack[i].costs = x.trace[i].costs
		}
		// backtrack: deepest point with an untried alternative within budget
		used := make([]int32, len(stack)+1)
		for i := range stack {
			used[i+1] = used[i] + stack[i].costs[stack[i].chosen]
		}
		next := -1
		var alt int32
		for i := len(stack) - 1; i >= 0 && next < 0; i-- {
			for a := stack[i].chosen + 1; int(a) < len(stack[i].costs); a++ {
				if int(used[i]+stack[i].costs[a]) <= b {
					if i == firstDeviation(stack[:i+1], a) && opt.Shards > 1 && i%opt.Shards != opt.Shard {
						continue
					}
					next, alt = i, a
					break
				}
			}
		}
		for i := len(stack) - 1; i > next; i-- {
			record(stack[i])
		}
		if next < 0 {
			return true
		}
		stack = stack[:next+1]
		stack[next].chosen = alt
		prefix = prefix[:0]
		for _, f := range stack {
			prefix = append(prefix, f.chosen)
		}
	}
}

type frame struct {
	costs  []int32
	chosen int32
	key    uint64
	rem    int32
}

// firstDeviation returns the index of the first non-default choice if the stack is [defaults..., a].
func firstDeviation(stack []frame, a int32) int {
	for i := 0; i < len(stack)-1; i++ {
		if stack[i].chosen != 0 {
			return i
		}
	}
	return len(stack) - 1
}

func chosenOf(tr []cp) []int32 {
	c := make([]int32, len(tr))
	for i := range tr {
		c[i] = tr[i].chosen
	}
	return c
}

func outcomeHash(r *Result) uint64 {
	h := fnv.New64a()
	for _, e := range r.Events {
		fmt.Fprintf(h, "%s|%s|%v;", e.Thread, e.Kind, e.Args)
	}
	for _, p := range r.Panics {
		fmt.Fprintf(h, "P%s|%s;", p.Thread, p.Value)
	}
	for _, p := range r.Parked {
		fmt.Fprintf(h, "K%s|%s;", p.Thread, p.Op)
	}
	return h.Sum64()
}

// confirm replays a failing schedule twice with tracing and requires identical observations.
func confirm(sc *Scenario, fd *Found) {
	if len(fd.Choices) > 2000000 {
		// a runaway execution (millions of choice points: a livelock that ran into MaxSteps): reported without the double
		// replay and with the head of its schedule only - the full artefact would take gigabytes
		fd.Trace = []string{fmt.Sprintf("(schedule of %d choices: not replayed, only its first 100000 choices are kept)", len(fd.Choices))}
		fd.Choices = fd.Choices[:100000]
		return
	}
	var evs [2]string
	for k := 0; k < 2; k++ {
		x, res, fails := runOne(sc, fd.Choices, true, 1<<20, nil)
		if x.divergence != "" {
			panic("ENGINE: failing schedule does not replay: " + x.divergence)
		}
		var b strings.Builder
		for _, e := range res.Events {
			b.WriteString(e.String() + ";")
		}
		for _, f := range fails {
			b.WriteString("F:" + f.Key + ";")
		}
		evs[k] = b.String()
		if k == 1 {
			fd.Trace = x.tlog
			if n := len(fd.Trace); n > 6000 {
				fd.Trace = append(append(append([]string{}, fd.Trace[:1000]...), fmt.Sprintf("... (%d trace lines omitted)", n-6000)), fd.Trace[n-5000:]...)
			}
			for _, e := range res.Events {
				fd.Events = append(fd.Events, e.String())
			}
			for _, p := range res.Panics {
				fd.Events = append(fd.Events, fmt.Sprintf("PANIC in %s at %s: %s", p.Thread, p.Site, p.Value))
			}
			for _, p := range res.Parked {
				fd.Events = append(fd.Events, fmt.Sprintf("PARKED %s at %s", p.Thread, p.Op))
			}
		}
		ok := false
		for _, f := range fails {
			if f.Key == fd.Key {
				ok = true
			}
		}
		if !ok {
			panic("ENGINE: failing schedule did not reproduce its failure on replay (nondeterminism not under control): " + fd.Key)
		}
	}
	if evs[0] != evs[1] {
		panic("ENGINE: two replays of one schedule observed different events (nondeterminism not under control)")
	}
}

// Replay runs one recorded schedule with tracing.
func Replay(sc *Scenario, choices []int32) (*Result, []Failure, []string) {
	x, res, fails := runOne(sc, choices, true, 1<<20, nil)
	if x.divergence != "" {
		panic("ENGINE: schedule does not replay: " + x.divergence)
	}
	return res, fails, x.tlog
}
