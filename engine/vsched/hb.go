package vsched

// Happens-before state hashing (DESIGN §2.5). Every executed event is hashed together with its
// thread predecessor and its object predecessor; the order-independent sum of the event hashes
// identifies the happens-before DAG of the prefix, hence the program state. Objects are named by
// (first-accessing thread, its local event index), which is a function of the DAG.

type hbObj struct {
	name uint64
	last uint64
}

func mix(a, b uint64) uint64 {
	a ^= b + 0x9e3779b97f4a7c15 + (a << 6) + (a >> 2)
	a *= 0xff51afd7ed558ccd
	a ^= a >> 33
	return a
}

func strHash(s string) uint64 {
	h := uint64(14695981039346656037)
	for i := 0; i < len(s); i++ {
		h ^= uint64(s[i])
		h *= 1099511628211
	}
	return h
}

const (
	kLock = iota + 1
	kUnlock
	kRLock
	kRUnlock
	kTryLock
	kWgAdd
	kWgWait
	kAtomic
	kSend
	kRecv
	kClose
	kLen
	kSelDefault
	kSleep
	kYield
	kField
	kLog
	kSpawn
	kEnd
	kStart
	kPend
	kArrive
	kTimer
)

// hbEvent records one event of the running thread on object o (nil: thread-local event).
func (x *Exec) hbEvent(o *hbObj, kind uint64, extra uint64) uint64 {
	t := x.cur
	t.nev++
	h := mix(t.nameHash, uint64(t.nev))
	h = mix(h, kind)
	h = mix(h, t.lastH)
	if o != nil {
		if o.name == 0 {
			o.name = mix(mix(t.nameHash, uint64(t.nev)), 0x0b1ec7)
		}
		h = mix(h, o.name)
		h = mix(h, o.last)
		o.last = h
	}
	h = mix(h, extra)
	t.lastH = h
	x.hb += h
	return h
}

// hbPartner folds a rendezvous into the partner thread's history as well.
func (x *Exec) hbPartner(p *Thread, h uint64) {
	p.nev++
	p.lastH = mix(mix(p.lastH, h), uint64(p.nev))
	x.hb += p.lastH
}

// stateKey identifies the current state at a choice point.
func (x *Exec) stateKey(marker uint64) uint64 {
	k := mix(x.hb, uint64(x.clock))
	if x.cur != nil && x.isReady(x.cur) {
		k = mix(k, x.cur.nameHash)
	}
	return mix(k, marker)
}
