package vsched

import (
	"fmt"
	"sort"
	"unsafe"
)

// VC is a vector clock indexed by thread id.
type VC []int32

func newVC(id int) VC {
	v := make(VC, id+1)
	v[id] = 1
	return v
}

func (v VC) fork(child int) VC {
	n := len(v)
	if child+1 > n {
		n = child + 1
	}
	c := make(VC, n)
	copy(c, v)
	c[child] = 1
	return c
}

func (v *VC) tick(id int) {
	for len(*v) <= id {
		*v = append(*v, 0)
	}
	(*v)[id]++
}

func (v *VC) join(o VC) {
	for len(*v) < len(o) {
		*v = append(*v, 0)
	}
	for i, c := range o {
		if c > (*v)[i] {
			(*v)[i] = c
		}
	}
}

func (v VC) copyVC() VC {
	c := make(VC, len(v))
	copy(c, v)
	return c
}

func (v VC) get(i int) int32 {
	if i < len(v) {
		return v[i]
	}
	return 0
}

// HB edges: release publishes the running thread's clock into a sync object's clock, acquire joins it.
func (x *Exec) release(obj *VC) {
	t := x.cur
	obj.join(t.vc)
	t.vc.tick(t.id)
}

func (x *Exec) acquire(obj VC) {
	x.cur.vc.join(obj)
}

// Site describes one instrumented field access in the source.
type Site struct {
	Pos   string // file:line
	Field string // Type.field
}

var sites []Site

// RegisterSites is called from generated init code; returns the base index of the block.
func RegisterSites(s []Site) int32 {
	base := int32(len(sites))
	sites = append(sites, s...)
	return base
}

type shadowVar struct {
	hb   hbObj
	wT   int   // last writer thread
	wC   int32 // its clock at the write
	rVC  VC    // reads since
	site int32
}

// racy is the set of fields (Type.field) on which a data race was observed in some explored
// execution; accesses to them are scheduling points (CHESS-style race-directed refinement).
var racy = map[string]bool{}
var racyNew = map[string]bool{}
var racyPairs = map[string]bool{}

// RacyFields returns the current racy set, sorted.
func RacyFields() []string {
	var s []string
	for k := range racy {
		s = append(s, k)
	}
	sort.Strings(s)
	return s
}

func (x *Exec) access(p unsafe.Pointer, site int32, write bool) {
	st := &sites[site]
	isRacy := racy[st.Field]
	if isRacy {
		d := "read "
		if write {
			d = "write "
		}
		x.point(&pend{desc: d + st.Field + " @" + st.Pos})
	}
	t := x.cur
	sv := x.shadow[p]
	if sv == nil {
		sv = &shadowVar{wT: -1}
		x.shadow[p] = sv
	}
	if isRacy {
		k := uint64(0)
		if write {
			k = 1
		}
		x.hbEvent(&sv.hb, kField, k)
	}
	// conflict with the last write?
	if sv.wT >= 0 && sv.wT != t.id && sv.wC > t.vc.get(sv.wT) {
		x.noteRace(st, sv.site)
	}
	if write {
		for i, c := range sv.rVC {
			if i != t.id && c > t.vc.get(i) {
				x.noteRace(st, sv.site)
				break
			}
		}
		sv.wT, sv.wC = t.id, t.vc.get(t.id)
		sv.rVC = sv.rVC[:0]
		sv.site = site
	} else {
		for len(sv.rVC) <= t.id {
			sv.rVC = append(sv.rVC, 0)
		}
		sv.rVC[t.id] = t.vc.get(t.id)
		if sv.wT < 0 {
			sv.site = site
		}
	}
}

func (x *Exec) noteRace(st *Site, other int32) {
	if !racy[st.Field] {
		racyNew[st.Field] = true
	}
	k := fmt.Sprintf("%s: %s <-> %s", st.Field, st.Pos, sites[other].Pos)
	racyPairs[k] = true
}

// R / W are inserted by the instrumenter around reads / writes of struct fields reached through a
// pointer: *vsched.R(&p.f, site).
func R[T any](p *T, site int32) *T {
	if x := active(); x != nil {
		x.access(unsafe.Pointer(p), site, false)
	}
	return p
}

func W[T any](p *T, site int32) *T {
	if x := active(); x != nil {
		x.access(unsafe.Pointer(p), site, true)
	}
	return p
}
