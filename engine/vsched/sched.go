// Package vsched is the controlled scheduler of engine E1: every synchronisation operation of the
// instrumented code (channel, select, mutex, wait-group, atomic, timer, racy field access) announces
// itself here; exactly one model thread runs at a time and the explorer decides who runs next.
package vsched

import (
	"fmt"
	"runtime"
	"sort"
	"strings"
	gosync "sync"
	"unsafe"
)

// pend is the operation a parked thread has announced.
type pend struct {
	desc  string
	ready func() bool // nil: always enabled
	due   int64       // >0: the op becomes ready once the virtual clock reaches due (ready tests it)
	done  bool        // completed by a rendezvous partner while parked
}

// Thread is a model thread (a real goroutine that runs only while it holds the baton).
type Thread struct {
	id       int
	Name     string
	User     bool // created by the scenario (Main / GoNamed): must not be parked forever
	wake     chan struct{}
	exited   chan struct{}
	op       *pend
	done     bool
	spawns   int
	vc       VC
	started  bool
	nameHash uint64
	lastH    uint64
	nev      int
	daemon   bool // model-internal thread (a timer's firing): never reported as parked
	gosched  bool // set by Gosched for the next scheduling decision
}

// Ev is a harness-visible event (call/return/observation marker) in the global log.
type Ev struct {
	Thread string
	Kind   string
	Args   []interface{}
	Step   int
}

func (e Ev) String() string {
	return fmt.Sprintf("%s:%s%v", e.Thread, e.Kind, e.Args)
}

type PanicInfo struct {
	Thread string
	Value  string
	Site   string
}

type ParkedInfo struct {
	Thread string
	Op     string
	User   bool
}

// Result is what the oracle sees of one finished execution.
type Result struct {
	Events  []Ev
	Panics  []PanicInfo
	Parked  []ParkedInfo
	Clock   int64
	Steps   int
	Cap     string // non-empty: MaxSteps reached
	InvFail string // non-empty: the scenario invariant failed at some scheduling step
}

type cp struct {
	n      int32
	chosen int32
	cost   int32 // cost of the chosen alternative
	costs  []int32
	key    uint64 // HB state key at this choice point
	rem    int32  // budget remaining before the choice
}

// Exec is one execution.
type Exec struct {
	sc         *Scenario
	threads    []*Thread // creation order
	order      []*Thread // name order (canonical)
	cur        *Thread
	clock      int64
	nowCtr     int64
	steps      int
	prefix     []int32
	trace      []cp
	aborting   bool
	frozen     bool
	finished   chan struct{}
	events     []Ev
	chans      map[unsafe.Pointer]*chanState
	shadow     map[unsafe.Pointer]*shadowVar
	panics     []PanicInfo
	capHit     string
	invFail    string
	divergence string
	nextObj    int
	budgetLeft int
	atomics    map[uintptr]*atomState
	tracing    bool
	tlog       []string
	hb         uint64
	logObj     hbObj
	bound      int32
	used       int32
	cache      map[uint64]int8
	pruned     bool
	nowSeen    map[int64]bool
}

// X is the execution in progress (nil outside executions).
var X *Exec

// Scenario is a closed little program plus its oracle.
type Scenario struct {
	Name       string
	Body       func()                    // the main thread; spawns the others
	Check      func(r *Result) []Failure // oracle on one finished execution (threads still parked)
	Invariant  func() string             // optional; evaluated at every scheduling step
	Bound      int                       // deviation bound
	Delay      bool                      // delay bounding instead of pre-emption bounding
	TimerDev   bool                      // early timer firing allowed as a deviation (cost 1)
	MaxSteps   int                       // default 4000
	MaxThreads int                       // default 150000: more goroutines than that in one execution is reported as a failure
	NoCache    bool                      // disable the happens-before state cache (self-check)
	IdleGap    int64                     // ns; quiescent timers further away than this end the run (default 30 min)
	FirstOnly  bool                      // run the default schedule only (very long executions: a smoke run, reported as such)
	Horizon    int64                     // ns; 0 = none. At quiescence the clock is not advanced beyond this (polling loops never go quiet)
}

// Failure is one violated clause of the oracle.
type Failure struct {
	Key  string // finding key (never contains addresses or counters)
	Text string
}

func (x *Exec) tracef(format string, a ...interface{}) {
	if x.tracing {
		x.tlog = append(x.tlog, fmt.Sprintf("[%d %s] ", x.steps, x.cur.Name)+fmt.Sprintf(format, a...))
	}
}

func (x *Exec) newThread(name string, user bool, fn func()) *Thread {
	t := &Thread{id: len(x.threads), Name: name, User: user, wake: make(chan struct{}, 1), exited: make(chan struct{})}
	t.op = &pend{desc: "start"}
	t.nameHash = strHash(name)
	if x.cur != nil {
		t.lastH = mix(x.hbEvent(nil, kSpawn, t.nameHash), 7)
	}
	x.threads = append(x.threads, t)
	i := sort.Search(len(x.order), func(i int) bool { return x.order[i].Name > name })
	x.order = append(x.order, nil)
	copy(x.order[i+1:], x.order[i:])
	x.order[i] = t
	if x.cur != nil {
		t.vc = x.cur.vc.fork(t.id)
		x.cur.vc.tick(x.cur.id)
	} else {
		t.vc = newVC(t.id)
	}
	go func() {
		defer close(t.exited)
		<-t.wake
		if x.aborting {
			return
		}
		t.op = nil
		t.started = true
		defer x.threadEnd(t)
		fn()
	}()
	return t
}

func (x *Exec) threadEnd(t *Thread) {
	r := recover()
	if x.aborting {
		return
	}
	if r != nil {
		buf := make([]byte, 8192)
		buf = buf[:runtime.Stack(buf, false)]
		x.panics = append(x.panics, PanicInfo{Thread: t.Name, Value: fmt.Sprint(r), Site: panicSite(string(buf))})
		x.tracef("PANIC %v", r)
		t.done = true
		x.signalFinish()
		return
	}
	t.done = true
	x.hbEvent(nil, kEnd, 0)
	x.tracef("thread end")
	next := x.pick()
	if next == nil {
		x.signalFinish()
		return
	}
	x.cur = next
	next.wake <- struct{}{}
}

// panicSite extracts the first frame below the panic machinery that is not in vsched/runtime.
func panicSite(stack string) string {
	lines := strings.Split(stack, "\n")
	for i := 0; i+1 < len(lines); i++ {
		l := lines[i]
		if strings.HasPrefix(l, "\t") || strings.HasPrefix(l, "goroutine") || l == "" {
			continue
		}
		if strings.HasPrefix(l, "runtime.") || strings.HasPrefix(l, "panic(") || strings.Contains(l, "/zzverif/") || strings.Contains(l, "runtime/debug") {
			continue
		}
		fn := l
		if j := strings.LastIndex(fn, "("); j > 0 {
			fn = fn[:j]
		}
		if j := strings.LastIndex(fn, "/"); j >= 0 {
			fn = fn[j+1:]
		}
		return fn
	}
	return "?"
}

func (x *Exec) signalFinish() {
	select {
	case x.finished <- struct{}{}:
	default:
	}
}

// point announces op, lets the scheduler decide who runs, and returns when this thread is chosen
// (op is then enabled, and stays so until the caller applies its effect: nobody else runs).
func (x *Exec) point(op *pend) {
	t := x.cur
	t.op = op
	next := x.pick()
	if next == t {
		t.op = nil
		return
	}
	if next == nil {
		x.signalFinish()
	} else {
		x.cur = next
		next.wake <- struct{}{}
	}
	<-t.wake
	if x.aborting {
		runtime.Goexit()
	}
	t.op = nil
}

type alt struct {
	t    *Thread
	cost int32
	adv  int64 // >0: advance the clock to this value first (early timer)
}

func (x *Exec) isReady(t *Thread) bool {
	if t.done || t.op == nil {
		return false
	}
	return t.op.done || t.op.ready == nil || t.op.ready()
}

// pick chooses the next thread to run; nil means the execution is over.
func (x *Exec) pick() *Thread {
	x.steps++
	max := x.sc.MaxSteps
	if max == 0 {
		max = 4000
	}
	if x.steps > max {
		x.capHit = fmt.Sprintf("MaxSteps %d", max)
		return nil
	}
	if x.sc.Invariant != nil && x.invFail == "" {
		x.frozen = true
		f := x.sc.Invariant()
		x.frozen = false
		if f != "" {
			x.invFail = f
			return nil
		}
	}
	idle := x.sc.IdleGap
	if idle == 0 {
		idle = 30 * 60 * 1e9
	}
	for {
		var alts []alt
		cur := x.cur
		curReady := cur != nil && x.isReady(cur)
		gosched := curReady && cur.gosched
		if cur != nil {
			cur.gosched = false
		}
		if gosched {
			// runtime.Gosched: the goroutine goes to the back of the run queue - switching away is voluntary (free),
			// another runnable goroutine goes first, and the caller continues at once only if there is none
			curReady = false
		}
		if curReady {
			alts = append(alts, alt{t: cur})
		}
		for _, t := range x.order {
			if t == cur && (curReady || gosched) {
				continue
			}
			if x.isReady(t) {
				c := int32(0)
				if x.sc.Delay {
					c = int32(len(alts))
				} else if curReady {
					c = 1
				}
				alts = append(alts, alt{t: t, cost: c})
			}
		}
		if gosched {
			// continuing the caller although others are runnable is a deviation (cost 1): a spin loop is then
			// unrolled at most `bound` times instead of without end
			c := int32(0)
			if len(alts) > 0 {
				c = 1
				if x.sc.Delay {
					c = int32(len(alts))
				}
			}
			alts = append(alts, alt{t: cur, cost: c})
		}
		if len(alts) == 0 {
			// quiescence: advance the clock to the earliest pending timer
			var min int64
			for _, t := range x.order {
				if !t.done && t.op != nil && t.op.due > x.clock && (min == 0 || t.op.due < min) {
					min = t.op.due
				}
			}
			if min == 0 || min-x.clock > idle || (x.sc.Horizon > 0 && min > x.sc.Horizon) {
				return nil
			}
			x.clock = min
			continue
		}
		if x.sc.TimerDev {
			// A time.Timer's firing is done by the runtime when it processes its timers, in due order: the
			// clock is never moved past the due time of an armed timer that has not fired yet (waking a
			// sleeping goroutine late is a scheduling matter, sending a timer's value late is not).
			var firstTimer int64
			for _, t := range x.order {
				if t.daemon && !t.done && t.op != nil && t.op.due > 0 && (firstTimer == 0 || t.op.due < firstTimer) {
					firstTimer = t.op.due
				}
			}
			for _, t := range x.order {
				if firstTimer > 0 && t.op != nil && t.op.due > firstTimer {
					continue
				}
				if !t.done && t.op != nil && t.op.due > x.clock && t.op.due-x.clock <= idle && (x.sc.Horizon == 0 || t.op.due <= x.sc.Horizon) && !x.isReady(t) {
					c := int32(1)
					if x.sc.Delay {
						c = int32(len(alts))
					}
					alts = append(alts, alt{t: t, cost: c, adv: t.op.due})
				}
			}
		}
		i := 0
		if len(alts) > 1 {
			costs := make([]int32, len(alts))
			for k := range alts {
				costs[k] = alts[k].cost
			}
			i = x.choose(costs, 1)
			if i < 0 {
				return nil
			}
		}
		if x.tracing && len(alts) > 1 {
			names := ""
			for k, al := range alts {
				names += fmt.Sprintf(" %d:%s(c%d)", k, al.t.Name, al.cost)
			}
			x.tlog = append(x.tlog, fmt.Sprintf("    choice#%d ->%d of%s", len(x.trace)-1, i, names))
		}
		a := alts[i]
		if a.adv > 0 {
			x.clock = a.adv
		}
		return a.t
	}
}

// choose records a choice point; replays the prefix, then takes alternative 0.
func (x *Exec) choose(costs []int32, marker uint64) int {
	idx := len(x.trace)
	c := int32(0)
	key := x.stateKey(marker)
	rem := x.bound - x.used
	if idx < len(x.prefix) {
		c = x.prefix[idx]
		if int(c) >= len(costs) {
			x.divergence = fmt.Sprintf("choice %d: prefix wants alternative %d of %d", idx, c, len(costs))
			return -1
		}
	} else if x.cache != nil {
		if v, ok := x.cache[key]; ok && int32(v) >= rem {
			x.pruned = true
			return -1
		}
	}
	x.trace = append(x.trace, cp{n: int32(len(costs)), chosen: c, cost: costs[c], costs: costs, key: key, rem: rem})
	x.used += costs[c]
	return int(c)
}

// chooseFree is a free (cost 0) choice among n alternatives (select with several ready cases).
func (x *Exec) chooseFree(n int) int {
	if n <= 1 {
		return 0
	}
	i := x.choose(make([]int32, n), 2)
	if i < 0 {
		// divergence: stop this thread here
		x.signalFinish()
		<-x.cur.wake
		runtime.Goexit()
	}
	return i
}

// active reports whether hooked operations are scheduled (inside an execution, not aborting/frozen).
func active() *Exec {
	x := X
	if x == nil || x.aborting || x.frozen || x.cur == nil {
		return nil
	}
	return x
}

// inAbort: hooked operations are no-ops while threads are being unwound.
func inAbort() bool {
	x := X
	return x != nil && x.aborting
}

// ---- scenario API ----

// Go starts a model thread (rewritten from the go statement). Outside an execution the spawn is
// dropped (package-level default instances start goroutines in init; scenarios never use them).
func Go(fn func()) {
	x := X
	if x == nil || x.aborting {
		return
	}
	if x.frozen || x.cur == nil {
		return
	}
	p := x.cur
	p.spawns++
	max := x.sc.MaxThreads
	if max == 0 {
		max = 150000
	}
	if len(x.threads) >= max {
		// a goroutine explosion (a pool sized by an unvalidated argument, say) ends the execution with a
		// failure instead of exhausting the machine's memory
		if x.invFail == "" {
			x.invFail = fmt.Sprintf("more than %d goroutines started in one execution (goroutine explosion)", max)
		}
		x.signalFinish()
		<-x.cur.wake
		runtime.Goexit()
	}
	x.newThread(fmt.Sprintf("%s.%d", p.Name, p.spawns), false, fn)
	x.tracef("go %s.%d", p.Name, p.spawns)
}

// GoNamed starts a scenario-owned thread; it must not be parked forever at the end of an execution
// unless the oracle allows it.
func GoNamed(name string, fn func()) {
	x := active()
	if x == nil {
		return
	}
	x.cur.spawns++
	x.newThread(name, true, fn)
	x.tracef("go %s", name)
}

// Yield is an explicit scheduling point (inside callbacks / jobs / probes).
func Yield() {
	x := active()
	if x == nil {
		return
	}
	x.point(&pend{desc: "yield"})
	x.hbEvent(nil, kYield, 0)
}

// Gosched is runtime.Gosched in instrumented code: a voluntary yield after which another runnable goroutine is
// preferred (a loop that spins on Gosched lets the goroutine it waits for run).
func Gosched() {
	x := active()
	if x == nil {
		return
	}
	x.cur.gosched = true
	x.point(&pend{desc: "gosched"})
	x.hbEvent(nil, kYield, 1)
}

// Event appends a marker to the global log (not a scheduling point).
func Event(kind string, args ...interface{}) {
	x := X
	if x == nil || x.aborting {
		return
	}
	name := "?"
	if x.cur != nil {
		name = x.cur.Name
	}
	x.events = append(x.events, Ev{Thread: name, Kind: kind, Args: args, Step: x.steps})
	if x.cur != nil && !x.frozen {
		x.hbEvent(&x.logObj, kLog, strHash(kind))
	}
	if x.tracing {
		x.tracef("EVENT %s %v", kind, args)
	}
}

// Note appends a marker like Event, but as a thread-local event: its position in the log relative to
// other threads' markers is not part of the state (use it when the oracle only reads per-thread order
// and counts; call/return markers whose real-time order matters must use Event).
func Note(kind string, args ...interface{}) {
	x := X
	if x == nil || x.aborting {
		return
	}
	name := "?"
	if x.cur != nil {
		name = x.cur.Name
	}
	x.events = append(x.events, Ev{Thread: name, Kind: kind, Args: args, Step: x.steps})
	if x.cur != nil && !x.frozen {
		x.hbEvent(nil, kLog, strHash(kind))
	}
	if x.tracing {
		x.tracef("NOTE %s %v", kind, args)
	}
}

// ThreadName returns the running model thread's name (goroutine identity for oracles).
func ThreadName() string {
	x := X
	if x == nil || x.cur == nil {
		return ""
	}
	return x.cur.Name
}

// Running reports whether an execution is in progress.
func Running() bool { return active() != nil }

var realWG gosync.WaitGroup

// runOne executes the scenario once under the given choice prefix.
func runOne(sc *Scenario, prefix []int32, tracing bool, bound int, cache map[uint64]int8) (*Exec, *Result, []Failure) {
	x := &Exec{sc: sc, prefix: prefix, bound: int32(bound), cache: cache, finished: make(chan struct{}, 1), chans: map[unsafe.Pointer]*chanState{}, shadow: map[unsafe.Pointer]*shadowVar{}, tracing: tracing}
	X = x
	main := x.newThread("main", true, sc.Body)
	x.cur = main
	main.wake <- struct{}{}
	<-x.finished
	res := &Result{Events: x.events, Panics: x.panics, Clock: x.clock, Steps: x.steps, Cap: x.capHit, InvFail: x.invFail}
	for _, t := range x.order {
		if !t.done && !t.daemon {
			d := "not started"
			if t.op != nil {
				d = t.op.desc
			}
			res.Parked = append(res.Parked, ParkedInfo{Thread: t.Name, Op: d, User: t.User})
		}
	}
	var fails []Failure
	if x.divergence == "" && !x.pruned && sc.Check != nil {
		x.frozen = true
		fails = sc.Check(res)
		x.frozen = false
	}
	// unwind all parked threads, one at a time
	x.aborting = true
	for _, t := range x.threads {
		select {
		case <-t.exited:
			continue
		default:
		}
		t.wake <- struct{}{}
		<-t.exited
	}
	X = nil
	return x, res, fails
}

// PoolRetain selects the sync.Pool policy of the shim (see zzverif/sync.Pool): 0 = never hands back a
// retained object (always New), 1 = retains everything, last in first out, 2 = first in first out.
var PoolRetain int
