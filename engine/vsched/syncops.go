package vsched

import "fmt"

// Model state of the sync primitives; the shim packages zzverif/sync and zzverif/atomic embed these.

// MutexState backs sync.Mutex.
type MutexState struct {
	hb     hbObj
	locked bool
	vc     VC
	id     int
	epoch  *Exec
}

func (m *MutexState) init(x *Exec) {
	if m.epoch != x {
		x.nextObj++
		*m = MutexState{id: x.nextObj, epoch: x}
	}
}

func (m *MutexState) Lock() {
	x := active()
	if x == nil {
		if X != nil && X.frozen && m.locked {
			panic("vsched: oracle would block on a mutex")
		}
		m.locked = true
		return
	}
	m.init(x)
	x.point(&pend{desc: fmt.Sprintf("Lock m#%d", m.id), ready: func() bool { return !m.locked }})
	m.locked = true
	x.acquire(m.vc)
	x.hbEvent(&m.hb, kLock, 0)
	x.tracef("Lock m#%d", m.id)
}

func (m *MutexState) TryLock() bool {
	x := active()
	if x == nil {
		if m.locked {
			return false
		}
		m.locked = true
		return true
	}
	m.init(x)
	x.point(&pend{desc: fmt.Sprintf("TryLock m#%d", m.id)})
	if m.locked {
		x.hbEvent(&m.hb, kTryLock, 0)
		return false
	}
	m.locked = true
	x.acquire(m.vc)
	x.hbEvent(&m.hb, kTryLock, 1)
	return true
}

func (m *MutexState) Unlock() {
	x := active()
	if x == nil {
		m.locked = false
		return
	}
	m.init(x)
	x.point(&pend{desc: fmt.Sprintf("Unlock m#%d", m.id)})
	if !m.locked {
		panic(fatalError("sync: unlock of unlocked mutex"))
	}
	m.locked = false
	x.release(&m.vc)
	x.hbEvent(&m.hb, kUnlock, 0)
	x.tracef("Unlock m#%d", m.id)
}

// Locked reports the model state (oracles / invariants).
func (m *MutexState) Locked() bool { return m.locked }

// fatalError marks misuse that the real runtime reports with an unrecoverable fatal error.
type fatalError string

func (e fatalError) Error() string { return "fatal error: " + string(e) }

// RWMutexState backs sync.RWMutex (writer preference as in Go: a parked Lock disables new RLocks).
type RWMutexState struct {
	hb       hbObj
	writer   bool
	readers  int
	pendingW int
	vc       VC // published by Unlock
	rvc      VC // published by RUnlock
	id       int
	epoch    *Exec
}

func (m *RWMutexState) init(x *Exec) {
	if m.epoch != x {
		x.nextObj++
		*m = RWMutexState{id: x.nextObj, epoch: x}
	}
}

func (m *RWMutexState) Lock() {
	x := active()
	if x == nil {
		if X != nil && X.frozen && (m.writer || m.readers > 0) {
			panic("vsched: oracle would block on a rwmutex")
		}
		m.writer = true
		return
	}
	m.init(x)
	// phase 1: the call arrives (always enabled). Only a writer that has really arrived and found
	// the lock held counts as pending (and blocks new readers).
	x.point(&pend{desc: fmt.Sprintf("Lock rw#%d", m.id)})
	if m.writer || m.readers > 0 {
		m.pendingW++
		x.hbEvent(&m.hb, kPend, 0)
		x.tracef("Lock rw#%d: waiting (pending writer)", m.id)
		x.point(&pend{desc: fmt.Sprintf("Lock(wait) rw#%d", m.id), ready: func() bool { return !m.writer && m.readers == 0 }})
		m.pendingW--
	}
	m.writer = true
	x.acquire(m.vc)
	x.acquire(m.rvc)
	x.hbEvent(&m.hb, kLock, 0)
	x.tracef("Lock rw#%d", m.id)
}

func (m *RWMutexState) Unlock() {
	x := active()
	if x == nil {
		m.writer = false
		return
	}
	m.init(x)
	x.point(&pend{desc: fmt.Sprintf("Unlock rw#%d", m.id)})
	if !m.writer {
		panic(fatalError("sync: Unlock of unlocked RWMutex"))
	}
	m.writer = false
	x.release(&m.vc)
	x.hbEvent(&m.hb, kUnlock, 0)
	x.tracef("Unlock rw#%d", m.id)
}

func (m *RWMutexState) RLock() {
	x := active()
	if x == nil {
		if X != nil && X.frozen && m.writer {
			panic("vsched: oracle would block on a rwmutex")
		}
		m.readers++
		return
	}
	m.init(x)
	x.point(&pend{desc: fmt.Sprintf("RLock rw#%d", m.id), ready: func() bool { return !m.writer && m.pendingW == 0 }})
	m.readers++
	x.acquire(m.vc)
	x.hbEvent(&m.hb, kRLock, 0)
	x.tracef("RLock rw#%d", m.id)
}

func (m *RWMutexState) RUnlock() {
	x := active()
	if x == nil {
		m.readers--
		return
	}
	m.init(x)
	x.point(&pend{desc: fmt.Sprintf("RUnlock rw#%d", m.id)})
	if m.readers <= 0 {
		panic(fatalError("sync: RUnlock of unlocked RWMutex"))
	}
	m.readers--
	x.release(&m.rvc)
	x.hbEvent(&m.hb, kRUnlock, 0)
	x.tracef("RUnlock rw#%d", m.id)
}

// TryLock / TryRLock never wait: they fail when the lock is held incompatibly (or, for TryRLock, when a writer is pending).
func (m *RWMutexState) TryLock() bool {
	x := active()
	if x == nil {
		if m.writer || m.readers > 0 {
			return false
		}
		m.writer = true
		return true
	}
	m.init(x)
	x.point(&pend{desc: fmt.Sprintf("TryLock rw#%d", m.id)})
	if m.writer || m.readers > 0 {
		x.hbEvent(&m.hb, kTryLock, 0)
		return false
	}
	m.writer = true
	x.acquire(m.vc)
	x.acquire(m.rvc)
	x.hbEvent(&m.hb, kTryLock, 1)
	return true
}

func (m *RWMutexState) TryRLock() bool {
	x := active()
	if x == nil {
		if m.writer {
			return false
		}
		m.readers++
		return true
	}
	m.init(x)
	x.point(&pend{desc: fmt.Sprintf("TryRLock rw#%d", m.id)})
	if m.writer || m.pendingW > 0 {
		x.hbEvent(&m.hb, kTryLock, 2)
		return false
	}
	m.readers++
	x.acquire(m.vc)
	x.hbEvent(&m.hb, kTryLock, 3)
	return true
}

// Free reports that nobody holds the lock (invariants are evaluated only then).
func (m *RWMutexState) Free() bool { return !m.writer && m.readers == 0 }

// WaitGroupState backs sync.WaitGroup.
type WaitGroupState struct {
	hb    hbObj
	n     int
	vc    VC
	id    int
	epoch *Exec
}

func (w *WaitGroupState) init(x *Exec) {
	if w.epoch != x {
		x.nextObj++
		*w = WaitGroupState{id: x.nextObj, epoch: x}
	}
}

func (w *WaitGroupState) Add(d int) {
	x := active()
	if x == nil {
		w.n += d
		return
	}
	w.init(x)
	x.point(&pend{desc: fmt.Sprintf("wg#%d.Add(%d)", w.id, d)})
	w.n += d
	if w.n < 0 {
		panic("sync: negative WaitGroup counter")
	}
	x.release(&w.vc)
	x.hbEvent(&w.hb, kWgAdd, uint64(int64(d)))
	x.tracef("wg#%d.Add(%d) -> %d", w.id, d, w.n)
}

func (w *WaitGroupState) Wait() {
	x := active()
	if x == nil {
		return
	}
	w.init(x)
	x.point(&pend{desc: fmt.Sprintf("wg#%d.Wait", w.id), ready: func() bool { return w.n == 0 }})
	x.acquire(w.vc)
	x.hbEvent(&w.hb, kWgWait, 0)
	x.tracef("wg#%d.Wait done", w.id)
}

// AtomicState is the happens-before clock of one atomic variable; every atomic operation is one
// sequentially consistent step (acquire + release).
type atomState struct {
	vc VC
	hb hbObj
}

// AtomicPoint is called by the atomic shim before each operation on the variable at addr.
func AtomicPoint(addr uintptr, what string) {
	x := active()
	if x == nil {
		return
	}
	x.point(&pend{desc: what})
	m := x.atomics
	if m == nil {
		m = map[uintptr]*atomState{}
		x.atomics = m
	}
	v := m[addr]
	if v == nil {
		v = &atomState{}
		m[addr] = v
	}
	x.acquire(v.vc)
	x.release(&v.vc)
	x.hbEvent(&v.hb, kAtomic, strHash(what))
}

// OnceState backs sync.Once.
type OnceState struct {
	done bool
	m    MutexState
}

func (o *OnceState) Do(f func()) {
	o.m.Lock()
	defer o.m.Unlock()
	if !o.done {
		defer func() { o.done = true }()
		f()
	}
}
