package vsched

import (
	"fmt"
	"time"
	"unsafe"
)

// Virtual time. The clock only moves when the scheduler says so: at quiescence (to the earliest
// pending timer) or, as a bounded deviation, early for one parked timer.

// ManualNow, when set by a checker that runs the library without the scheduler (sync-only instrumentation), answers
// the library's clock reads (time.Now / Since / Until): the checker decides how much time passes between two operations.
var ManualNow func() time.Time

var timeBase = time.Date(2024, 1, 1, 0, 0, 0, 0, time.UTC)

// Now is strictly increasing (clock + call counter), like a monotonic clock read.
func Now() time.Time {
	x := X
	if x == nil {
		if ManualNow != nil {
			return ManualNow()
		}
		return time.Now()
	}
	// A reading that is a function of the happens-before DAG (not of the interleaving): the clock plus
	// a Lamport-style component (sum of the thread's vector clock), made unique within the execution.
	var l int64
	if t := x.cur; t != nil {
		t.vc.tick(t.id)
		for _, c := range t.vc {
			l += int64(c)
		}
	} else {
		x.nowCtr++
		l = x.nowCtr
	}
	v := x.clock + l*64
	if x.nowSeen == nil {
		x.nowSeen = map[int64]bool{}
	}
	for x.nowSeen[v] {
		v++
	}
	x.nowSeen[v] = true
	return timeBase.Add(time.Duration(v))
}

func Since(t time.Time) time.Duration { return Now().Sub(t) }
func Until(t time.Time) time.Duration { return t.Sub(Now()) }

// Sleep parks the thread until the virtual clock reaches now+d.
func Sleep(d time.Duration) {
	x := active()
	if x == nil {
		if X == nil {
			time.Sleep(d)
		}
		return
	}
	if d <= 0 {
		x.point(&pend{desc: "sleep 0"})
		x.hbEvent(nil, kSleep, 0)
		return
	}
	due := x.clock + int64(d)
	x.point(&pend{desc: "sleep " + d.String(), due: due, ready: func() bool { return x.clock >= due }})
	x.hbEvent(nil, kSleep, uint64(due))
	x.tracef("woke from sleep %s (clock %s)", d, time.Duration(x.clock))
}

// After returns a timer channel owned by the model.
func After(d time.Duration) <-chan time.Time {
	x := active()
	if x == nil {
		if X == nil {
			return time.After(d)
		}
		return make(chan time.Time, 1)
	}
	c := make(chan time.Time, 1)
	cs := x.chanOf(*(*unsafe.Pointer)(unsafe.Pointer(&c)), 1)
	cs.isTimer = true
	cs.due = x.clock + int64(d)
	if d <= 0 {
		cs.due = x.clock
	}
	return c
}

// Timer mirrors time.Timer. The module under test declares `go 1.18`, so a timer has the channel
// semantics of Go < 1.23 (what the module's own tests run under): C is a channel with one buffer slot,
// the runtime does a non-blocking send into it when the timer fires, and neither Stop nor Reset removes
// a value that is already there. The firing is a model thread of its own (parked until the clock
// reaches the due time), so "fires between the select and the Stop" is one of the explored schedules.
type Timer struct {
	C  <-chan time.Time
	cs *chanState // AfterFunc only (lazy model)
	rt *time.Timer

	c     chan time.Time
	gen   int
	armed bool
	op    *pend
	th    *Thread
	hb    hbObj
}

func NewTimer(d time.Duration) *Timer {
	x := active()
	if x == nil {
		rt := time.NewTimer(d)
		return &Timer{C: rt.C, rt: rt}
	}
	c := make(chan time.Time, 1)
	t := &Timer{C: c, c: c}
	x.chanOf(chanKey(c), 1)
	x.point(&pend{desc: "NewTimer"})
	t.arm(x, d)
	return t
}

func (t *Timer) arm(x *Exec, d time.Duration) {
	t.gen++
	g := t.gen
	t.armed = true
	due := x.clock
	if d > 0 {
		due += int64(d)
	}
	x.hbEvent(&t.hb, kTimer, uint64(due)*4+1)
	p := x.cur
	p.spawns++
	th := x.newThread(fmt.Sprintf("%s.%d", p.Name, p.spawns), false, func() {
		if t.gen != g || !t.armed {
			return // stopped / re-armed before the runtime looked at it
		}
		op := &pend{desc: "timer due " + time.Duration(due).String(), due: due}
		op.ready = func() bool { return t.gen == g && t.armed && x.clock >= due }
		t.op = op
		x.point(op)
		t.armed = false
		t.op = nil
		x.hbEvent(&t.hb, kTimer, 2)
		cs := x.chanOf(chanKey(t.c), 1)
		if cs.canSend() {
			v := timeBase.Add(time.Duration(x.clock))
			x.doSend(cs, &v, copyT[time.Time])
			x.tracef("timer fired")
		} else {
			x.tracef("timer fired, channel already holds a value: dropped")
		}
	})
	th.daemon = true
	th.op.due = due // not started yet: already counts as an armed timer for the clock
	t.th = th
}

// disarm cancels the pending firing, if any; reports whether there was one.
func (t *Timer) disarm(x *Exec) bool {
	was := t.armed
	t.armed = false
	if t.op != nil {
		t.op.due = 0 // never becomes ready again; the clock is not advanced on its behalf
		t.op = nil
	}
	if t.th != nil && t.th.op != nil {
		t.th.op.due = 0
	}
	return was
}

// Stop prevents the timer from firing; reports whether it was still pending. A value already sent to
// C stays there.
func (t *Timer) Stop() bool {
	if t.rt != nil {
		return t.rt.Stop()
	}
	if t.c == nil { // AfterFunc
		x := X
		if x == nil || t.cs == nil {
			return false
		}
		pending := !t.cs.taken && x.clock < t.cs.due
		t.cs.taken = true
		return pending
	}
	x := active()
	if x == nil {
		return false
	}
	x.point(&pend{desc: "Timer.Stop"})
	was := t.disarm(x)
	var e uint64
	if was {
		e = 1
	}
	x.hbEvent(&t.hb, kTimer, 4+e)
	return was
}

// Reset re-arms the timer; reports whether it was still pending. A value already sent to C stays there.
func (t *Timer) Reset(d time.Duration) bool {
	if t.rt != nil {
		return t.rt.Reset(d)
	}
	if t.c == nil { // AfterFunc
		x := X
		if x == nil || t.cs == nil {
			return false
		}
		pending := !t.cs.taken && x.clock < t.cs.due
		t.cs.taken = false
		t.cs.due = x.clock + int64(d)
		return pending
	}
	x := active()
	if x == nil {
		return false
	}
	x.point(&pend{desc: "Timer.Reset"})
	was := t.disarm(x)
	t.arm(x, d)
	return was
}

// AfterFunc runs f on its own model thread once the clock reaches now+d.
func AfterFunc(d time.Duration, f func()) *Timer {
	x := active()
	if x == nil {
		rt := time.AfterFunc(d, f)
		return &Timer{rt: rt}
	}
	t := &Timer{}
	c := After(d)
	t.C = nil
	t.cs = x.chans[*(*unsafe.Pointer)(unsafe.Pointer(&c))]
	Go(func() {
		CR(c).Recv()
		f()
	})
	return t
}

// Ticker mirrors time.Ticker: C has one buffer slot, the runtime does a non-blocking send every d and drops
// the tick when the previous one has not been read. The ticking is a daemon model thread. A ticker nobody
// reads does not keep the virtual clock running: while its channel still holds an unread tick it is
// dormant (further ticks would be dropped and change nothing), and it re-arms when the channel is drained.
type Ticker struct {
	C  <-chan time.Time
	rt *time.Ticker

	c       chan time.Time
	d       time.Duration
	gen     int
	stopped bool
	op      *pend
	th      *Thread
	hb      hbObj
}

func Tick(d time.Duration) <-chan time.Time {
	if d <= 0 {
		return nil
	}
	return NewTicker(d).C
}

func NewTicker(d time.Duration) *Ticker {
	if d <= 0 {
		panic("non-positive interval for NewTicker")
	}
	x := active()
	if x == nil {
		rt := time.NewTicker(d)
		return &Ticker{C: rt.C, rt: rt}
	}
	c := make(chan time.Time, 1)
	t := &Ticker{C: c, c: c, d: d}
	x.chanOf(chanKey(c), 1)
	x.point(&pend{desc: "NewTicker"})
	t.arm(x)
	return t
}

func (t *Ticker) arm(x *Exec) {
	t.gen++
	g := t.gen
	t.stopped = false
	next := x.clock + int64(t.d)
	x.hbEvent(&t.hb, kTimer, uint64(next)*4+1)
	p := x.cur
	p.spawns++
	cs := x.chanOf(chanKey(t.c), 1)
	th := x.newThread(fmt.Sprintf("%s.%d", p.Name, p.spawns), false, func() {
		for {
			if t.gen != g || t.stopped {
				return
			}
			op := &pend{desc: "ticker due " + time.Duration(next).String(), due: next}
			op.ready = func() bool {
				if t.gen != g || t.stopped {
					op.due = 0
					return false
				}
				if len(cs.buf) > 0 { // dormant: the previous tick has not been read
					op.due = 0
					return false
				}
				if op.due == 0 { // drained: the next tick is the first multiple of d after now
					for next <= x.clock {
						next += int64(t.d)
					}
					op.due = next
				}
				return x.clock >= op.due
			}
			t.op = op
			x.point(op)
			t.op = nil
			if t.gen != g || t.stopped {
				return
			}
			x.hbEvent(&t.hb, kTimer, 2)
			if cs.canSend() {
				v := timeBase.Add(time.Duration(x.clock))
				x.doSend(cs, &v, copyT[time.Time])
				x.tracef("ticker fired")
			}
			next += int64(t.d)
		}
	})
	th.daemon = true
	th.op.due = next
	t.th = th
}

func (t *Ticker) halt() {
	t.stopped = true
	if t.op != nil {
		t.op.due = 0
	}
	if t.th != nil && t.th.op != nil {
		t.th.op.due = 0
	}
}

// Stop turns the ticker off; a tick already sent stays in C (which is not closed).
func (t *Ticker) Stop() {
	if t.rt != nil {
		t.rt.Stop()
		return
	}
	x := active()
	if x == nil {
		return
	}
	x.point(&pend{desc: "Ticker.Stop"})
	t.halt()
	x.hbEvent(&t.hb, kTimer, 4)
}

// Reset stops the ticker and restarts it with period d.
func (t *Ticker) Reset(d time.Duration) {
	if d <= 0 {
		panic("non-positive interval for Ticker.Reset")
	}
	if t.rt != nil {
		t.rt.Reset(d)
		return
	}
	x := active()
	if x == nil {
		return
	}
	x.point(&pend{desc: "Ticker.Reset"})
	t.halt()
	t.d = d
	t.arm(x)
}

// Clock returns the virtual clock in ns (oracles).
func Clock() int64 {
	if X == nil {
		return 0
	}
	return X.clock
}
