package vsched

import (
	"time"
	"unsafe"
)

// Virtual time. The clock only moves when the scheduler says so: at quiescence (to the earliest
// pending timer) or, as a bounded deviation, early for one parked timer.

var timeBase = time.Date(2024, 1, 1, 0, 0, 0, 0, time.UTC)

// Now is strictly increasing (clock + call counter), like a monotonic clock read.
func Now() time.Time {
	x := X
	if x == nil {
		return time.Now()
	}
	// A reading that is a function of the happens-before DAG (not of the interleaving): the clock plus
	// a Lamport-style component (sum of the thread's vector clock), made unique within the execution.
	var l int64
	if t := x.cur; t != nil {
		t.vc.tick(t.id)
		for _, c := range t.vc {
			l += int64(c)
		}
	} else {
		x.nowCtr++
		l = x.nowCtr
	}
	v := x.clock + l*64
	if x.nowSeen == nil {
		x.nowSeen = map[int64]bool{}
	}
	for x.nowSeen[v] {
		v++
	}
	x.nowSeen[v] = true
	return timeBase.Add(time.Duration(v))
}

func Since(t time.Time) time.Duration { return Now().Sub(t) }
func Until(t time.Time) time.Duration { return t.Sub(Now()) }

// Sleep parks the thread until the virtual clock reaches now+d.
func Sleep(d time.Duration) {
	x := active()
	if x == nil {
		if X == nil {
			time.Sleep(d)
		}
		return
	}
	if d <= 0 {
		x.point(&pend{desc: "sleep 0"})
		x.hbEvent(nil, kSleep, 0)
		return
	}
	due := x.clock + int64(d)
	x.point(&pend{desc: "sleep " + d.String(), due: due, ready: func() bool { return x.clock >= due }})
	x.hbEvent(nil, kSleep, uint64(due))
	x.tracef("woke from sleep %s (clock %s)", d, time.Duration(x.clock))
}

// After returns a timer channel owned by the model.
func After(d time.Duration) <-chan time.Time {
	x := active()
	if x == nil {
		if X == nil {
			return time.After(d)
		}
		return make(chan time.Time, 1)
	}
	c := make(chan time.Time, 1)
	cs := x.chanOf(*(*unsafe.Pointer)(unsafe.Pointer(&c)), 1)
	cs.isTimer = true
	cs.due = x.clock + int64(d)
	if d <= 0 {
		cs.due = x.clock
	}
	return c
}

// Timer mirrors time.Timer for the subset fpGo-style code uses.
type Timer struct {
	C  <-chan time.Time
	cs *chanState
	rt *time.Timer
}

func NewTimer(d time.Duration) *Timer {
	x := active()
	if x == nil {
		rt := time.NewTimer(d)
		return &Timer{C: rt.C, rt: rt}
	}
	c := After(d)
	return &Timer{C: c, cs: x.chans[*(*unsafe.Pointer)(unsafe.Pointer(&c))]}
}

// Stop prevents the timer from firing; reports whether it was still pending.
func (t *Timer) Stop() bool {
	if t.rt != nil {
		return t.rt.Stop()
	}
	x := X
	if x == nil || t.cs == nil {
		return false
	}
	pending := !t.cs.taken && x.clock < t.cs.due
	t.cs.taken = true
	return pending
}

// Reset re-arms the timer.
func (t *Timer) Reset(d time.Duration) bool {
	if t.rt != nil {
		return t.rt.Reset(d)
	}
	x := X
	if x == nil || t.cs == nil {
		return false
	}
	pending := !t.cs.taken && x.clock < t.cs.due
	t.cs.taken = false
	t.cs.due = x.clock + int64(d)
	return pending
}

// AfterFunc runs f on its own model thread once the clock reaches now+d.
func AfterFunc(d time.Duration, f func()) *Timer {
	x := active()
	if x == nil {
		rt := time.AfterFunc(d, f)
		return &Timer{rt: rt}
	}
	t := &Timer{}
	c := After(d)
	t.C = nil
	t.cs = x.chans[*(*unsafe.Pointer)(unsafe.Pointer(&c))]
	Go(func() {
		CR(c).Recv()
		f()
	})
	return t
}

// Tick / NewTicker are not modelled: fail loudly rather than explore wrongly.
func Tick(d time.Duration) <-chan time.Time { panic("vsched: time.Tick is not modelled") }

type Ticker struct{ C <-chan time.Time }

func NewTicker(d time.Duration) *Ticker { panic("vsched: time.NewTicker is not modelled") }
func (t *Ticker) Stop()                 {}
func (t *Ticker) Reset(d time.Duration) {}

// Clock returns the virtual clock in ns (oracles).
func Clock() int64 {
	if X == nil {
		return 0
	}
	return X.clock
}
