// C01: Maybe — one consistent notion of absence, monad laws, total (never panics).
// Engine E3: the complete product value alphabet x constructors x observers, against the definition
// "absent iff untyped nil or nil pointer".
package main

import (
	"fmt"
	"math"
	"reflect"
	"strings"
	"time"

	fpgo "github.com/TeaEntityLab/fpGo/v2"
	"verifharness/lib"
)

type S struct{ A int }

// values whose own Error() / String() methods panic (promoted from a nil embedded field): rendering a
// Maybe of them must still not panic
type wrappedErr struct{ error }
type label struct{ name string }

func (l *label) String() string { return l.name }

type wrappedStringer struct{ *label }

// tag: a Stringer whose method tolerates a nil receiver (like *time.Location): a typed nil *tag is absent
// all the same.
type tag struct{ name string }

func (t *tag) String() string {
	if t == nil {
		return "untagged"
	}
	return t.name
}

type E struct{}

type val struct {
	name string
	v    interface{}
}

func absentRef(v interface{}) bool {
	if v == nil {
		return true
	}
	rv := reflect.ValueOf(v)
	return rv.Kind() == reflect.Ptr && rv.IsNil()
}

// ident renders a value so that "the same value" (same pointer for reference kinds) compares equal.
func ident(v interface{}) string {
	if v == nil {
		return "<untyped nil>"
	}
	rv := reflect.ValueOf(v)
	switch rv.Kind() {
	case reflect.Ptr, reflect.Func, reflect.Chan, reflect.UnsafePointer:
		return fmt.Sprintf("%T@%x", v, rv.Pointer())
	case reflect.Map, reflect.Slice:
		return fmt.Sprintf("%T@%x%v", v, rv.Pointer(), v)
	case reflect.Float32, reflect.Float64:
		return fmt.Sprintf("%T=%x", v, math.Float64bits(rv.Float()))
	}
	if m, ok := v.(fpgo.MaybeDef[interface{}]); ok {
		return "Maybe(" + obsVector(m, false) + ")"
	}
	return fmt.Sprintf("%T=%#v", v, v)
}

func errClass(err error) string {
	switch err {
	case nil:
		return "ok"
	case fpgo.ErrConversionNil:
		return "nil"
	case fpgo.ErrConversionUnsupported:
		return "unsupported"
	case fpgo.ErrConversionSizeOverflow:
		return "overflow"
	}
	return "other"
}

type conv struct {
	name string
	f    func(m interface{}) (interface{}, error, bool) // value, error, available
}

func convs() []conv {
	mk := func(name string, f func(m interface{}) (interface{}, error, bool)) conv { return conv{name, f} }
	return []conv{
		mk("ToInt", func(m interface{}) (interface{}, error, bool) {
			if x, ok := m.(interface{ ToInt() (int, error) }); ok {
				v, e := x.ToInt()
				return v, e, true
			}
			return nil, nil, false
		}),
		mk("ToInt8", func(m interface{}) (interface{}, error, bool) {
			if x, ok := m.(interface{ ToInt8() (int8, error) }); ok {
				v, e := x.ToInt8()
				return v, e, true
			}
			return nil, nil, false
		}),
		mk("ToInt16", func(m interface{}) (interface{}, error, bool) {
			if x, ok := m.(interface{ ToInt16() (int16, error) }); ok {
				v, e := x.ToInt16()
				return v, e, true
			}
			return nil, nil, false
		}),
		mk("ToInt32", func(m interface{}) (interface{}, error, bool) {
			if x, ok := m.(interface{ ToInt32() (int32, error) }); ok {
				v, e := x.ToInt32()
				return v, e, true
			}
			return nil, nil, false
		}),
		mk("ToInt64", func(m interface{}) (interface{}, error, bool) {
			if x, ok := m.(interface{ ToInt64() (int64, error) }); ok {
				v, e := x.ToInt64()
				return v, e, true
			}
			return nil, nil, false
		}),
		mk("ToByte", func(m interface{}) (interface{}, error, bool) {
			if x, ok := m.(interface{ ToByte() (byte, error) }); ok {
				v, e := x.ToByte()
				return v, e, true
			}
			return nil, nil, false
		}),
		mk("ToUint", func(m interface{}) (interface{}, error, bool) {
			if x, ok := m.(interface{ ToUint() (uint, error) }); ok {
				v, e := x.ToUint()
				return v, e, true
			}
			return nil, nil, false
		}),
		mk("ToUint8", func(m interface{}) (interface{}, error, bool) {
			if x, ok := m.(interface{ ToUint8() (uint8, error) }); ok {
				v, e := x.ToUint8()
				return v, e, true
			}
			return nil, nil, false
		}),
		mk("ToUint16", func(m interface{}) (interface{}, error, bool) {
			if x, ok := m.(interface{ ToUint16() (uint16, error) }); ok {
				v, e := x.ToUint16()
				return v, e, true
			}
			return nil, nil, false
		}),
		mk("ToUint32", func(m interface{}) (interface{}, error, bool) {
			if x, ok := m.(interface{ ToUint32() (uint32, error) }); ok {
				v, e := x.ToUint32()
				return v, e, true
			}
			return nil, nil, false
		}),
		mk("ToUint64", func(m interface{}) (interface{}, error, bool) {
			if x, ok := m.(interface{ ToUint64() (uint64, error) }); ok {
				v, e := x.ToUint64()
				return v, e, true
			}
			return nil, nil, false
		}),
		mk("ToUintptr", func(m interface{}) (interface{}, error, bool) {
			if x, ok := m.(interface{ ToUintptr() (uintptr, error) }); ok {
				v, e := x.ToUintptr()
				return v, e, true
			}
			return nil, nil, false
		}),
		mk("ToFloat32", func(m interface{}) (interface{}, error, bool) {
			if x, ok := m.(interface{ ToFloat32() (float32, error) }); ok {
				v, e := x.ToFloat32()
				return v, e, true
			}
			return nil, nil, false
		}),
		mk("ToFloat64", func(m interface{}) (interface{}, error, bool) {
			if x, ok := m.(interface{ ToFloat64() (float64, error) }); ok {
				v, e := x.ToFloat64()
				return v, e, true
			}
			return nil, nil, false
		}),
		mk("ToBool", func(m interface{}) (interface{}, error, bool) {
			if x, ok := m.(interface{ ToBool() (bool, error) }); ok {
				v, e := x.ToBool()
				return v, e, true
			}
			return nil, nil, false
		}),
	}
}

var allConvs = convs()

// obsVector: everything an observer can tell about a Maybe, rendered.
func obsVector(m fpgo.MaybeDef[interface{}], withConv bool) string {
	var b strings.Builder
	lets := 0
	m.Let(func() { lets++ })
	// (Kind / IsPtr / IsValid describe the stored Go value, not presence: the property does not tie them to absence)
	fmt.Fprintf(&b, "nil=%v present=%v let=%d str=%q unwrapI=%s type=%v or=%s", m.IsNil(), m.IsPresent(), lets, m.ToString(),
		ident(m.UnwrapInterface()), m.Type(), ident(m.Or("FALLBACK")))
	if withConv {
		for _, c := range allConvs {
			v, e, ok := c.f(m)
			if ok {
				fmt.Fprintf(&b, " %s=(%v,%s)", c.name, v, errClass(e))
			}
		}
	}
	return b.String()
}

type keptClone struct {
	v     val
	ctor  string
	clone reflect.Value
	want  string
}

var kept []keptClone

func main() {
	r := lib.NewReport("C01")
	defer r.Guard()
	one, two := 1, 2
	pOne := &one
	var nilInt *int
	var nilS *S
	ppNil := &nilInt // non-nil pointer to a nil pointer
	ppOne := &pOne   // non-nil pointer to non-nil pointer
	var nilPP **int  // nil pointer to pointer
	pppNil := &ppNil // three levels, innermost nil
	ch := make(chan int)
	var nilCh chan int
	fn := func() {}
	var nilFn func()
	var nilSlice []int
	var nilMap map[string]int
	var nilErr error
	j1 := fpgo.Maybe.Just(1)
	var ifaceFive interface{} = 5
	var ifaceNil interface{}
	var errBoom error = fmt.Errorf("boom")
	var errNil error
	vals := []val{
		{"true", true}, {"false", false},
		{"int 0", 0}, {"int 1", 1}, {"int min", math.MinInt64}, {"int max", math.MaxInt64},
		{"int8 -128", int8(-128)}, {"int16 max", int16(math.MaxInt16)}, {"int32 min", int32(math.MinInt32)}, {"int64 0", int64(0)},
		{"uint 0", uint(0)}, {"uint8 255", uint8(255)}, {"uint16 1", uint16(1)}, {"uint32 max", uint32(math.MaxUint32)}, {"uint64 max", uint64(math.MaxUint64)}, {"uintptr 7", uintptr(7)},
		{"float32 1.5", float32(1.5)}, {"float64 0", 0.0}, {"float64 -0", math.Copysign(0, -1)}, {"float64 NaN", math.NaN()}, {"float64 +Inf", math.Inf(1)}, {"float64 -Inf", math.Inf(-1)},
		{"complex", complex(1, 2)},
		{"string empty", ""}, {"string x", "x"}, {"string 12", "12"}, {"string <nil>", "<nil>"},
		{"struct", S{3}}, {"empty struct", E{}},
		{"slice nil", nilSlice}, {"slice empty", []int{}}, {"slice", []int{1, 2}},
		{"map nil", nilMap}, {"map", map[string]int{"a": 1}},
		{"func", fn}, {"func nil", nilFn}, {"chan", ch}, {"chan nil", nilCh},
		{"*int", pOne}, {"*int other", &two}, {"*struct", &S{4}}, {"**int", ppOne},
		{"typed nil *int", nilInt}, {"typed nil *struct", nilS}, {"typed nil **int", nilPP},
		{"pointer to nil pointer", ppNil}, {"pointer to pointer to nil pointer", pppNil},
		{"untyped nil", nil}, {"nil error", nilErr}, {"array", [2]int{1, 2}},
		{"Just(1)", j1}, {"Just(Just(1))", fpgo.Maybe.Just(j1)}, {"Just(Just(Just(1)))", fpgo.Maybe.Just(fpgo.Maybe.Just(j1))},
		{"None", fpgo.None}, {"Just(None)", fpgo.Maybe.Just(fpgo.None)}, {"JustGenerics(nil)", fpgo.JustGenerics[interface{}](nil)},
		{"Just(typed nil) as value", fpgo.Maybe.Just(nilInt)},
		{"struct embedding a nil error", wrappedErr{}}, {"struct embedding a nil Stringer", wrappedStringer{}},
		{"pointer to struct embedding a nil error", &wrappedErr{}}, {"error value", fmt.Errorf("boom")}, {"Stringer value", &label{"x"}},
		{"typed nil pointer with a nil-tolerant String method", (*tag)(nil)}, {"pointer with a nil-tolerant String method", &tag{"t"}},
		{"typed nil *time.Location", (*time.Location)(nil)},
		{"pointer to an interface holding 5", &ifaceFive}, {"pointer to a nil interface", &ifaceNil}, {"pointer to an error", &errBoom}, {"pointer to a nil error", &errNil},
	}
	var evals, nontrivial int
	var samples lib.Samples
	samples.N = 5
	distinct := map[string]bool{}
	bad := func(clause string, v val, ctor string, format string, a ...interface{}) {
		r.Violation(fmt.Sprintf("C01|%s|%s", clause, classOf(v)), fmt.Sprintf("%s(%s): %s", ctor, v.name, fmt.Sprintf(format, a...)),
			map[string]interface{}{"value": v.name, "constructor": ctor, "failure": fmt.Sprintf(format, a...),
				"go_test": fmt.Sprintf("// build %s with %s and call the observer named in the failure", v.name, ctor)})
	}
	ctors := []struct {
		name string
		mk   func(v interface{}) fpgo.MaybeDef[interface{}]
	}{
		{"Maybe.Just", func(v interface{}) fpgo.MaybeDef[interface{}] { return fpgo.Maybe.Just(v) }},
		{"JustGenerics[interface{}]", func(v interface{}) fpgo.MaybeDef[interface{}] { return fpgo.JustGenerics(v) }},
	}
	fallbacks := []interface{}{"FALLBACK", nil, 99}
	fmFuncs := []struct {
		name string
		f    func(interface{}) fpgo.MaybeDef[interface{}]
	}{
		{"Just", func(x interface{}) fpgo.MaybeDef[interface{}] { return fpgo.Maybe.Just(x) }},
		{"constNone", func(x interface{}) fpgo.MaybeDef[interface{}] { return fpgo.None }},
		{"wrapInStruct", func(x interface{}) fpgo.MaybeDef[interface{}] { return fpgo.Maybe.Just(struct{ V interface{} }{x}) }},
		{"nest", func(x interface{}) fpgo.MaybeDef[interface{}] { return fpgo.Maybe.Just(fpgo.Maybe.Just(x)) }},
	}
	// the whole enumeration runs twice in one process: in the second pass every value is met again after
	// every other value has gone through every constructor and observer (answers must not depend on
	// what was evaluated earlier)
	for pass := 1; pass <= 2; pass++ {
		for _, v := range vals {
			absent := absentRef(v.v)
			for _, ct := range ctors {
				var m fpgo.MaybeDef[interface{}]
				if p := lib.Catch(func() { m = ct.mk(v.v) }); p != "" {
					bad("panic|construct", v, ct.name, "%s", p)
					continue
				}
				k := ct.name + "|" + v.name
				if !distinct[k] {
					distinct[k] = true
					if !absent {
						nontrivial++
					}
				}
				samples.Add(map[string]interface{}{"value": v.name, "constructor": ct.name, "absent_by_definition": absent})
				ob := func(name string, f func()) bool {
					evals++
					if p := lib.Catch(f); p != "" {
						bad("panic|"+name, v, ct.name, "%s panicked: %s", name, p)
						return false
					}
					return true
				}
				ob("IsNil", func() {
					if m.IsNil() != absent {
						bad("absence|IsNil", v, ct.name, "IsNil()=%v, by definition absent=%v", m.IsNil(), absent)
					}
				})
				ob("IsPresent", func() {
					if m.IsPresent() != !m.IsNil() || m.IsPresent() == absent {
						bad("absence|IsPresent", v, ct.name, "IsPresent()=%v IsNil()=%v absent=%v", m.IsPresent(), m.IsNil(), absent)
					}
				})
				for _, fb := range fallbacks {
					fb := fb
					ob("Or", func() {
						got := m.Or(fb)
						want := v.v
						if absent {
							want = fb
						}
						if ident(got) != ident(want) {
							bad("absence|Or", v, ct.name, "Or(%v)=%s, want %s", fb, ident(got), ident(want))
						}
					})
				}
				ob("Let", func() {
					n := 0
					m.Let(func() { n++ })
					want := 1
					if absent {
						want = 0
					}
					if n != want {
						bad("absence|Let", v, ct.name, "Let ran its callback %d times, want %d", n, want)
					}
				})
				ob("UnwrapInterface", func() {
					got := m.UnwrapInterface()
					if absent && got != nil {
						bad("absence|UnwrapInterface", v, ct.name, "UnwrapInterface()=%s for an absent value", ident(got))
					}
					if !absent && ident(got) != ident(v.v) {
						bad("absence|UnwrapInterface", v, ct.name, "UnwrapInterface()=%s, want the value %s", ident(got), ident(v.v))
					}
				})
				ob("Type", func() {
					got := m.Type()
					if absent && got != nil {
						bad("absence|Type", v, ct.name, "Type()=%v for an absent value", got)
					}
					if !absent && got != reflect.TypeOf(v.v) {
						bad("absence|Type", v, ct.name, "Type()=%v, want %v", got, reflect.TypeOf(v.v))
					}
				})
				ob("ToString", func() {
					got := m.ToString()
					if absent && got != "<nil>" {
						bad("absence|ToString", v, ct.name, "ToString()=%q for an absent value", got)
					}
				})
				for _, c := range allConvs {
					c := c
					ob(c.name, func() {
						val, err, ok := c.f(m)
						if !ok {
							return
						}
						if absent != (err == fpgo.ErrConversionNil) {
							bad("absence|conversion", v, ct.name, "%s returned (%v, %v); ErrConversionNil exactly when absent (absent=%v)", c.name, val, err, absent)
						}
						if absent && !reflect.ValueOf(val).IsZero() {
							bad("absence|conversion", v, ct.name, "%s returned non-zero %v for an absent value", c.name, val)
						}
					})
				}
				ob("Kind/IsPtr/IsValid/IsKind/IsType", func() {
					_ = m.Kind()
					_ = m.IsPtr()
					_ = m.IsValid()
					_ = m.IsKind(reflect.Ptr)
					_ = m.IsType(reflect.TypeOf(1))
					_ = m.Unwrap()
				})
				ob("ToPtr", func() { _ = m.ToPtr() })
				// FlatMap(f) is f applied to the wrapped value
				for _, f := range fmFuncs {
					f := f
					ob("FlatMap", func() {
						got := obsVector(m.FlatMap(f.f), true)
						want := obsVector(f.f(m.Unwrap()), true)
						if got != want {
							bad("flatmap", v, ct.name, "FlatMap(%s) observes as %s, f(v) observes as %s", f.name, got, want)
						}
					})
					// associativity: m.FlatMap(f).FlatMap(g) == m.FlatMap(x -> f(x).FlatMap(g))
					for _, g := range fmFuncs {
						g := g
						ob("FlatMap-assoc", func() {
							l := obsVector(m.FlatMap(f.f).FlatMap(g.f), false)
							rr := obsVector(m.FlatMap(func(x interface{}) fpgo.MaybeDef[interface{}] { return f.f(x).FlatMap(g.f) }), false)
							if l != rr {
								bad("flatmap|assoc", v, ct.name, "(m>>=%s)>>=%s is %s but m>>=(x->%s x>>=%s) is %s", f.name, g.name, l, f.name, g.name, rr)
							}
						})
					}
				}
				ob("FlatMap-right-identity", func() {
					got := obsVector(m.FlatMap(func(x interface{}) fpgo.MaybeDef[interface{}] { return fpgo.Maybe.Just(x) }), true)
					if want := obsVector(m, true); got != want {
						bad("flatmap|right-identity", v, ct.name, "m.FlatMap(Just) is %s, m is %s", got, want)
					}
				})
				// ToMaybe flattens exactly one level
				ob("ToMaybe", func() {
					got := obsVector(m.ToMaybe(), true)
					var want string
					if inner, ok := v.v.(fpgo.MaybeDef[interface{}]); ok && !absent {
						want = obsVector(inner, true)
					} else {
						want = obsVector(m, true)
					}
					if got != want {
						bad("tomaybe", v, ct.name, "ToMaybe() observes as %s, one level of flattening gives %s", got, want)
					}
				})
				// Clone: equal, pointer target a distinct copy
				ob("Clone", func() {
					c := m.Clone()
					rv := reflect.ValueOf(v.v)
					if !absent && rv.Kind() == reflect.Ptr {
						cp := reflect.ValueOf(c.Unwrap())
						if cp.Kind() != reflect.Ptr || cp.IsNil() {
							bad("clone", v, ct.name, "Clone of a pointer gives %s", ident(c.Unwrap()))
							return
						}
						if cp.Pointer() == rv.Pointer() {
							bad("clone", v, ct.name, "Clone shares the pointer target with the original")
						}
						if !reflect.DeepEqual(cp.Elem().Interface(), rv.Elem().Interface()) {
							bad("clone", v, ct.name, "Clone target %v differs from the original target %v", cp.Elem().Interface(), rv.Elem().Interface())
						}
						if c.IsNil() || !c.IsPresent() || c.Type() != m.Type() {
							bad("clone", v, ct.name, "Clone is not an equal Maybe: nil=%v type=%v", c.IsNil(), c.Type())
						}
						if rv.Elem().Kind() == reflect.Int {
							before := rv.Elem().Int()
							cp.Elem().SetInt(before + 1000)
							if rv.Elem().Int() != before {
								bad("clone", v, ct.name, "writing through the clone changed the original")
							}
							cp.Elem().SetInt(before)
						}
						// every clone is kept and looked at again after all later clones have been made
						kept = append(kept, keptClone{v, ct.name, cp, fmt.Sprintf("%v", rv.Elem().Interface())})
						return
					}
					if got, want := obsVector(c, true), obsVector(m, true); got != want {
						bad("clone", v, ct.name, "Clone observes as %s, original as %s", got, want)
					}
				})
			}
		}
		seenTargets := map[uintptr]string{}
		for _, k := range kept {
			evals++
			if got := fmt.Sprintf("%v", k.clone.Elem().Interface()); got != k.want {
				bad("clone|kept", k.v, k.ctor, "a clone made earlier reads %s after later clones were made, it was %s", got, k.want)
			}
			if other, dup := seenTargets[k.clone.Pointer()]; dup {
				bad("clone|kept", k.v, k.ctor, "two clones share one pointer target (the other one: %s)", other)
			}
			seenTargets[k.clone.Pointer()] = k.ctor + " of " + k.v.name
		}
		kept = nil
		// JustGenerics[T] at concrete T
		evals += generics(r)
	}
	r.Cov["states"] = len(distinct)
	r.Cov["transitions"] = evals
	r.Cov["traces_validated_against_impl"] = evals
	r.Cov["evaluations"] = evals
	r.Cov["distinct_nontrivial"] = nontrivial
	r.Cov["rule"] = "states = (value, constructor) pairs of the alphabet; transitions = observer evaluations on the real Maybe; non-trivial = pairs whose value is present by definition"
	r.Cov["samples"] = samples.List
	r.Cov["alphabet"] = fmt.Sprintf("%d values (every reflect.Kind incl. typed/untyped nils, pointer chains, nested Maybe, None) x %d constructors + %d concrete instantiations of JustGenerics[T]", len(vals), len(ctors), nGenerics)
	r.Assume = []string{"absent(v) := v is the untyped nil or a nil pointer (the property's definition), computed by reflection in the harness"}
	r.Finish()
}

func classOf(v val) string {
	if v.v == nil {
		return "untyped-nil"
	}
	rv := reflect.ValueOf(v.v)
	k := rv.Kind().String()
	if _, ok := v.v.(fpgo.MaybeDef[interface{}]); ok {
		return "nested-maybe:" + v.name
	}
	if rv.Kind() == reflect.Ptr {
		if rv.IsNil() {
			return "nil-ptr"
		}
		return "ptr-to-" + rv.Elem().Kind().String()
	}
	return k
}

var nGenerics int

func genericT[T any](r *lib.Report, name string, v T, fallback T) int {
	nGenerics++
	n := 0
	absent := absentRef(interface{}(v))
	bad := func(clause, format string, a ...interface{}) {
		r.Violation("C01|generic|"+clause+"|"+name, fmt.Sprintf("JustGenerics[%T](%s): %s", v, name, fmt.Sprintf(format, a...)), map[string]interface{}{"value": name, "failure": fmt.Sprintf(format, a...)})
	}
	p := lib.Catch(func() {
		m := fpgo.JustGenerics(v)
		n += 8
		if m.IsNil() != absent || m.IsPresent() == absent {
			bad("absence", "IsNil=%v IsPresent=%v absent=%v", m.IsNil(), m.IsPresent(), absent)
		}
		lets := 0
		m.Let(func() { lets++ })
		if (lets == 1) == absent {
			bad("let", "Let ran %d times (absent=%v)", lets, absent)
		}
		want := interface{}(v)
		if absent {
			want = interface{}(fallback)
		}
		if ident(interface{}(m.Or(fallback))) != ident(want) {
			bad("or", "Or gave %s want %s", ident(interface{}(m.Or(fallback))), ident(want))
		}
		if (m.UnwrapInterface() == nil) != absent {
			bad("unwrapinterface", "UnwrapInterface()=%v absent=%v", m.UnwrapInterface(), absent)
		}
		if (m.Type() == nil) != absent {
			bad("type", "Type()=%v absent=%v", m.Type(), absent)
		}
		if absent && m.ToString() != "<nil>" {
			bad("tostring", "ToString()=%q", m.ToString())
		}
		_, e1 := m.ToInt()
		_, e2 := m.ToFloat64()
		_, e3 := m.ToBool()
		_, e4 := m.ToInt32()
		_, e5 := m.ToInt64()
		_, e6 := m.ToFloat32()
		for _, e := range []error{e1, e2, e3, e4, e5, e6} {
			if (e == fpgo.ErrConversionNil) != absent {
				bad("conversion", "conversion error %v, absent=%v", e, absent)
			}
		}
		fm := m.FlatMap(func(x T) fpgo.MaybeDef[T] { return fpgo.JustGenerics(x) })
		if fm.IsNil() != m.IsNil() || ident(interface{}(fm.Unwrap())) != ident(interface{}(m.Unwrap())) {
			bad("flatmap", "FlatMap(JustGenerics) differs from m")
		}
		_ = m.ToMaybe()
		_ = m.ToPtr()
		c := m.Clone()
		if c.IsNil() != m.IsNil() {
			bad("clone", "Clone nil=%v original nil=%v", c.IsNil(), m.IsNil())
		}
		rv := reflect.ValueOf(interface{}(v))
		if !absent && rv.Kind() == reflect.Ptr {
			cp := reflect.ValueOf(interface{}(c.Unwrap()))
			if cp.Kind() != reflect.Ptr || cp.IsNil() || cp.Pointer() == rv.Pointer() || !reflect.DeepEqual(cp.Elem().Interface(), rv.Elem().Interface()) {
				bad("clone", "Clone of a pointer must be a distinct equal copy, got %s for %s", ident(interface{}(c.Unwrap())), ident(interface{}(v)))
			}
		}
	})
	if p != "" {
		bad("panic", "%s", p)
	}
	return n
}

func generics(r *lib.Report) int {
	n := 0
	x, y := 5, 6
	var np *int
	var ns *S
	px := &x
	var nilErr error
	n += genericT(r, "int 0", 0, 9)
	n += genericT(r, "int 5", 5, 9)
	n += genericT(r, "string empty", "", "fb")
	n += genericT(r, "float NaN", math.NaN(), 1.0)
	n += genericT(r, "bool false", false, true)
	n += genericT(r, "struct", S{1}, S{2})
	n += genericT(r, "*int", &x, &y)
	n += genericT(r, "nil *int", np, &y)
	n += genericT(r, "*struct", &S{1}, &S{2})
	n += genericT(r, "nil *struct", ns, &S{2})
	n += genericT(r, "**int", &px, (**int)(nil))
	n += genericT(r, "pointer to nil pointer", &np, (**int)(nil))
	n += genericT(r, "nil slice", []int(nil), []int{1})
	n += genericT(r, "slice", []int{1}, []int{2})
	n += genericT(r, "nil map", map[string]int(nil), map[string]int{})
	n += genericT(r, "nil func", (func())(nil), func() {})
	n += genericT(r, "nil chan", (chan int)(nil), make(chan int))
	n += genericT(r, "nil error (interface type)", nilErr, fmt.Errorf("e"))
	n += genericT(r, "error", fmt.Errorf("x"), nilErr)
	n += genericT(r, "interface{} holding nil *int", interface{}(np), interface{}(1))
	n += genericT(r, "uint8", uint8(200), uint8(1))
	return n
}
