// C02: Maybe numeric conversions are value-preserving or fail; never silently wrap.
// Engine E3: all values of the 8/16-bit source types, a boundary lattice for the wide types, numeric
// strings x all 16 conversion methods (+ToBool), against exact integer / big.Float arithmetic.
// Thorough adds every float32 bit pattern for every integer target.
package main

import (
	"fmt"
	"math"
	"math/big"
	"reflect"
	"runtime"
	"sort"
	"strconv"
	"sync"
	"time"

	fpgo "github.com/TeaEntityLab/fpGo/v2"
	"verifharness/lib"
)

type target struct {
	name     string
	isFloat  bool
	bits     int      // float: 32/64
	lo, hi   *big.Int // real range of the Go type on this platform
	mlo, mhi *big.Int // range in which the conversion must succeed (int/uint/uintptr: portable 32-bit range)
	call     func(m interface{}) (interface{}, error)
}

func bi(s string) *big.Int { x, _ := new(big.Int).SetString(s, 10); return x }

var (
	minI8, maxI8   = bi("-128"), bi("127")
	minI16, maxI16 = bi("-32768"), bi("32767")
	minI32, maxI32 = bi("-2147483648"), bi("2147483647")
	minI64, maxI64 = bi("-9223372036854775808"), bi("9223372036854775807")
	zero           = bi("0")
	maxU8, maxU16  = bi("255"), bi("65535")
	maxU32, maxU64 = bi("4294967295"), bi("18446744073709551615")
)

type conv interface {
	ToInt() (int, error)
	ToInt8() (int8, error)
	ToInt16() (int16, error)
	ToInt32() (int32, error)
	ToInt64() (int64, error)
	ToByte() (byte, error)
	ToUint8() (uint8, error)
	ToUint() (uint, error)
	ToUint16() (uint16, error)
	ToUint32() (uint32, error)
	ToUint64() (uint64, error)
	ToUintptr() (uintptr, error)
	ToFloat32() (float32, error)
	ToFloat64() (float64, error)
	ToBool() (bool, error)
}

func targets() []target {
	return []target{
		{"ToInt", false, 0, minI64, maxI64, minI32, maxI32, func(m interface{}) (interface{}, error) { return m.(conv).ToInt() }},
		{"ToInt8", false, 0, minI8, maxI8, minI8, maxI8, func(m interface{}) (interface{}, error) { return m.(conv).ToInt8() }},
		{"ToInt16", false, 0, minI16, maxI16, minI16, maxI16, func(m interface{}) (interface{}, error) { return m.(conv).ToInt16() }},
		{"ToInt32", false, 0, minI32, maxI32, minI32, maxI32, func(m interface{}) (interface{}, error) { return m.(conv).ToInt32() }},
		{"ToInt64", false, 0, minI64, maxI64, minI64, maxI64, func(m interface{}) (interface{}, error) { return m.(conv).ToInt64() }},
		{"ToByte", false, 0, zero, maxU8, zero, maxU8, func(m interface{}) (interface{}, error) { return m.(conv).ToByte() }},
		{"ToUint8", false, 0, zero, maxU8, zero, maxU8, func(m interface{}) (interface{}, error) { return m.(conv).ToUint8() }},
		{"ToUint", false, 0, zero, maxU64, zero, maxU32, func(m interface{}) (interface{}, error) { return m.(conv).ToUint() }},
		{"ToUint16", false, 0, zero, maxU16, zero, maxU16, func(m interface{}) (interface{}, error) { return m.(conv).ToUint16() }},
		{"ToUint32", false, 0, zero, maxU32, zero, maxU32, func(m interface{}) (interface{}, error) { return m.(conv).ToUint32() }},
		{"ToUint64", false, 0, zero, maxU64, zero, maxU64, func(m interface{}) (interface{}, error) { return m.(conv).ToUint64() }},
		{"ToUintptr", false, 0, zero, maxU64, zero, maxU32, func(m interface{}) (interface{}, error) { return m.(conv).ToUintptr() }},
		{"ToFloat32", true, 32, nil, nil, nil, nil, func(m interface{}) (interface{}, error) { return m.(conv).ToFloat32() }},
		{"ToFloat64", true, 64, nil, nil, nil, nil, func(m interface{}) (interface{}, error) { return m.(conv).ToFloat64() }},
	}
}

// exact value of a source
type num struct {
	isFloat bool
	f       float64  // float sources (float32 widened exactly)
	i       *big.Int // integer / bool sources
	nonzero bool
}

func exactOf(v interface{}) (num, bool) {
	rv := reflect.ValueOf(v)
	switch rv.Kind() {
	case reflect.Bool:
		if rv.Bool() {
			return num{i: big.NewInt(1), nonzero: true}, true
		}
		return num{i: big.NewInt(0)}, true
	case reflect.Int, reflect.Int8, reflect.Int16, reflect.Int32, reflect.Int64:
		return num{i: big.NewInt(rv.Int()), nonzero: rv.Int() != 0}, true
	case reflect.Uint, reflect.Uint8, reflect.Uint16, reflect.Uint32, reflect.Uint64, reflect.Uintptr:
		return num{i: new(big.Int).SetUint64(rv.Uint()), nonzero: rv.Uint() != 0}, true
	case reflect.Float32, reflect.Float64:
		return num{isFloat: true, f: rv.Float(), nonzero: rv.Float() != 0}, true
	}
	return num{}, false
}

// integer the source denotes for an integer target: floats rounded half away from zero
func (n num) integer() (*big.Int, bool) {
	if !n.isFloat {
		return n.i, true
	}
	if math.IsNaN(n.f) || math.IsInf(n.f, 0) {
		return nil, false
	}
	r := math.Round(n.f)
	x, _ := new(big.Float).SetFloat64(r).Int(nil)
	return x, true
}

func toBig(v interface{}) *big.Int {
	rv := reflect.ValueOf(v)
	switch rv.Kind() {
	case reflect.Int, reflect.Int8, reflect.Int16, reflect.Int32, reflect.Int64:
		return big.NewInt(rv.Int())
	default:
		return new(big.Int).SetUint64(rv.Uint())
	}
}

func inRange(x, lo, hi *big.Int) bool { return x.Cmp(lo) >= 0 && x.Cmp(hi) <= 0 }

// floatInRange: the (unrounded) float itself lies within [lo, hi]
func floatInRange(f float64, lo, hi *big.Int) bool {
	x := new(big.Float).SetFloat64(f)
	return x.Cmp(new(big.Float).SetInt(lo)) >= 0 && x.Cmp(new(big.Float).SetInt(hi)) <= 0
}

type checker struct {
	r       *lib.Report
	mu      sync.Mutex
	evals   int64
	nontriv map[string]bool
	pass    string // appended to failure texts (which pass of the enumeration)
}

func (c *checker) bad(tg, src, class, format string, a ...interface{}) {
	c.mu.Lock()
	defer c.mu.Unlock()
	c.r.Violation(fmt.Sprintf("C02|%s<-%s|%s", tg, src, class), fmt.Sprintf(format, a...)+c.pass, map[string]interface{}{"target": tg, "source_type": src, "failure": fmt.Sprintf(format, a...) + c.pass})
}

func render(v interface{}) string {
	switch x := v.(type) {
	case float32:
		return fmt.Sprintf("float32(%v)[%#x]", x, math.Float32bits(x))
	case float64:
		return fmt.Sprintf("float64(%v)[%#x]", x, math.Float64bits(x))
	case string:
		return fmt.Sprintf("%q", x)
	}
	return fmt.Sprintf("%T(%v)", v, v)
}

// one cell: source value v (numeric) x target t
func (c *checker) cell(t *target, v interface{}, n num) {
	src := reflect.TypeOf(v).String()
	var got interface{}
	var err error
	p := lib.Catch(func() { got, err = t.call(fpgo.JustGenerics(v)) })
	if p != "" {
		c.bad(t.name, src, "panic", "%s of %s: %s", t.name, render(v), p)
		return
	}
	if t.isFloat {
		var want float64
		if n.isFloat {
			want = n.f
			if t.bits == 32 {
				want = float64(float32(n.f))
			}
		} else {
			// nearest representable float of the exact integer
			if t.bits == 32 {
				f32, _ := new(big.Float).SetInt(n.i).Float32()
				want = float64(f32)
			} else {
				want, _ = new(big.Float).SetInt(n.i).Float64()
			}
		}
		if err != nil {
			// finite float64 beyond float32: overflow may be reported; everything else fits a float
			if !(n.isFloat && t.bits == 32 && !math.IsInf(n.f, 0) && math.IsInf(want, 0)) {
				c.bad(t.name, src, "fits-but-failed", "%s of %s failed with %v although every such value has a nearest %d-bit float", t.name, render(v), err, t.bits)
			}
			return
		}
		g := reflect.ValueOf(got).Float()
		if math.Float64bits(g) != math.Float64bits(want) && !(math.IsNaN(g) && math.IsNaN(want)) {
			c.bad(t.name, src, "wrong-value-nil-error", "%s of %s = %v with a nil error, the nearest representable value is %v", t.name, render(v), g, want)
		}
		return
	}
	m, finite := n.integer()
	if err == nil {
		g := toBig(got)
		if !finite || g.Cmp(m) != 0 {
			what := "NaN/Inf"
			if finite {
				what = m.String()
			}
			c.bad(t.name, src, "wrong-value-nil-error", "%s of %s = %v with a nil error; the mathematical value is %s", t.name, render(v), got, what)
		}
		return
	}
	// failed: must not be a value that fits
	if finite && inRange(m, t.mlo, t.mhi) {
		if n.isFloat && !floatInRange(n.f, t.mlo, t.mhi) {
			return // within 0.5 of a bound: "before or after rounding" is not fixed by the property
		}
		c.bad(t.name, src, "fits-but-failed", "%s of %s failed with %v although the value fits the target", t.name, render(v), err)
	}
}

func (c *checker) boolCell(v interface{}, n num) {
	src := reflect.TypeOf(v).String()
	var got bool
	var err error
	p := lib.Catch(func() { got, err = fpgo.JustGenerics(v).ToBool() })
	if p != "" {
		c.bad("ToBool", src, "panic", "ToBool of %s: %s", render(v), p)
		return
	}
	if err != nil || got != n.nonzero {
		c.bad("ToBool", src, "tobool", "ToBool of %s = (%v, %v), want (%v, nil)", render(v), got, err, n.nonzero)
	}
}

func main() {
	r := lib.NewReport("C02")
	defer r.Guard()
	c := &checker{r: r, nontriv: map[string]bool{}}
	ts := targets()
	var sources []interface{}
	// exhaustive small types
	sources = append(sources, true, false)
	for i := -128; i <= 127; i++ {
		sources = append(sources, int8(i))
	}
	for i := 0; i <= 255; i++ {
		sources = append(sources, uint8(i))
	}
	for i := -32768; i <= 32767; i++ {
		sources = append(sources, int16(i))
	}
	for i := 0; i <= 65535; i++ {
		sources = append(sources, uint16(i))
	}
	nSmall := len(sources)
	// boundary lattice for the wide types
	bounds := []*big.Int{minI8, maxI8, minI16, maxI16, minI32, maxI32, minI64, maxI64, zero, maxU8, maxU16, maxU32, maxU64}
	lat := map[string]*big.Int{}
	add := func(x *big.Int) { lat[x.String()] = x }
	for _, b := range bounds {
		for d := int64(-2); d <= 2; d++ {
			add(new(big.Int).Add(b, big.NewInt(d)))
		}
	}
	for k := uint(0); k <= 64; k++ {
		p := new(big.Int).Lsh(big.NewInt(1), k)
		for d := int64(-1); d <= 1; d++ {
			add(new(big.Int).Add(p, big.NewInt(d)))
			add(new(big.Int).Neg(new(big.Int).Add(p, big.NewInt(d))))
		}
		add(new(big.Int).Add(p, big.NewInt(7)))
		add(new(big.Int).Add(new(big.Int).Neg(p), big.NewInt(42)))
	}
	// integers just beside the midpoint of two neighbouring float32 / float64 values (an integer that is
	// converted through an intermediate float type is rounded twice and lands on the wrong neighbour)
	for k := uint(24); k <= 63; k++ {
		for _, mant := range []uint{24, 53} {
			if k < mant {
				continue
			}
			mid := new(big.Int).Add(new(big.Int).Lsh(big.NewInt(1), k), new(big.Int).Lsh(big.NewInt(1), k-mant))
			for d := int64(-1); d <= 1; d++ {
				v := new(big.Int).Add(mid, big.NewInt(d))
				add(v)
				add(new(big.Int).Neg(v))
				// same beside an odd mantissa (ties-to-even goes the other way)
				add(new(big.Int).Add(v, new(big.Int).Lsh(big.NewInt(1), k-mant+1)))
			}
		}
	}
	var lattice []*big.Int
	for _, x := range lat {
		lattice = append(lattice, x)
	}
	sort.Slice(lattice, func(i, j int) bool { return lattice[i].Cmp(lattice[j]) < 0 })
	var strs []string
	for _, x := range lattice {
		strs = append(strs, x.String())
		// the same number written with an explicit sign and with leading zeros (the sign branch of the unsigned
		// parser and the width it parses the magnitude at)
		if x.Sign() >= 0 {
			strs = append(strs, "+"+x.String(), "0"+x.String(), "+00"+x.String())
		} else {
			strs = append(strs, "-0"+x.String()[1:])
		}
		if x.IsInt64() {
			v := x.Int64()
			sources = append(sources, v)
			if v >= math.MinInt32 && v <= math.MaxInt32 {
				sources = append(sources, int32(v))
			}
			sources = append(sources, int(v))
		}
		if x.IsUint64() {
			u := x.Uint64()
			sources = append(sources, u, uint(u), uintptr(u))
			if u <= math.MaxUint32 {
				sources = append(sources, uint32(u))
			}
		}
		// floats around the integer: the integer itself, +-0.49, +-0.5, +-0.51, neighbours
		f, _ := new(big.Float).SetInt(x).Float64()
		for _, d := range []float64{0, 0.49, -0.49, 0.5, -0.5, 0.51, -0.51, 1.5, -1.5} {
			g := f + d
			sources = append(sources, g, math.Nextafter(g, math.Inf(1)), math.Nextafter(g, math.Inf(-1)))
			g32 := float32(g)
			sources = append(sources, g32, math.Nextafter32(g32, float32(math.Inf(1))), math.Nextafter32(g32, float32(math.Inf(-1))))
		}
	}
	for _, f := range []float64{math.NaN(), math.Inf(1), math.Inf(-1), math.Copysign(0, -1), math.SmallestNonzeroFloat64, -math.SmallestNonzeroFloat64,
		math.MaxFloat64, -math.MaxFloat64, math.MaxFloat32, -math.MaxFloat32, 1e300, -1e300, 3.4e38, 3.5e38, 1e19, 1.9e19, 0.1, -0.1, 2.5, -2.5} {
		sources = append(sources, f, float32(f))
	}
	sources = append(sources, float32(math.SmallestNonzeroFloat32))
	strs = append(strs, "+5", "+0", "-00", "+", "-", "+-5", "++5", "+ 5", " 5", "5 ", "1e3", "0x10", "", "abc", "1.5", "-0", "NaN", "Inf", "true", "007", "-1.0", "1_000", "٣")
	// ---- numeric sources
	seenSrc := map[string]bool{}
	var samples lib.Samples
	samples.N = 6
	for idx, v := range sources {
		key := fmt.Sprintf("%T|%v", v, v)
		if f, ok := v.(float64); ok {
			key = fmt.Sprintf("f64|%x", math.Float64bits(f))
		}
		if f, ok := v.(float32); ok {
			key = fmt.Sprintf("f32|%x", math.Float32bits(f))
		}
		if seenSrc[key] {
			continue
		}
		seenSrc[key] = true
		n, _ := exactOf(v)
		for i := range ts {
			c.evals++
			c.cell(&ts[i], v, n)
		}
		c.evals++
		c.boolCell(v, n)
		if idx >= nSmall && idx%997 == 0 {
			samples.Add(render(v))
		}
	}
	// ---- strings
	for _, s := range strs {
		for i := range ts {
			c.evals++
			c.stringCell(&ts[i], s)
		}
	}
	// ---- the same conversions again in the opposite order (targets and sources reversed): a conversion's
	// answer is a function of the value alone, not of which conversions were evaluated before it
	c.pass = " [second pass: widest target first, after every conversion has been evaluated once]"
	for si := len(strs) - 1; si >= 0; si-- {
		for i := len(ts) - 1; i >= 0; i-- {
			c.evals++
			c.stringCell(&ts[i], strs[si])
		}
	}
	seen2 := map[string]bool{}
	for idx := len(sources) - 1; idx >= nSmall; idx-- {
		v := sources[idx]
		key := fmt.Sprintf("%T|%v", v, v)
		if f, ok := v.(float64); ok {
			key = fmt.Sprintf("f64|%x", math.Float64bits(f))
		}
		if f, ok := v.(float32); ok {
			key = fmt.Sprintf("f32|%x", math.Float32bits(f))
		}
		if seen2[key] {
			continue
		}
		seen2[key] = true
		n, _ := exactOf(v)
		for i := len(ts) - 1; i >= 0; i-- {
			c.evals++
			c.cell(&ts[i], v, n)
		}
	}
	c.pass = ""
	// ---- unsupported kinds
	type offset int32
	type celsius float64
	type flags uint8
	for _, v := range []interface{}{struct{}{}, []int{1}, map[string]int{}, complex(1, 1), func() {}, [1]int{1},
		// defined numeric types are not among the supported sources either, whatever value they hold (negative, huge, NaN)
		time.Duration(-5), time.Duration(math.MaxInt64), offset(-7), offset(3), celsius(-1.5), celsius(math.NaN()), celsius(1e300), flags(200), time.March} {
		for i := range ts {
			c.evals++
			t := &ts[i]
			var err error
			p := lib.Catch(func() { _, err = t.call(fpgo.JustGenerics(v)) })
			if p != "" || err != fpgo.ErrConversionUnsupported {
				c.bad(t.name, reflect.TypeOf(v).Kind().String(), "unsupported", "%s of a %T returned error %v %s, want ErrConversionUnsupported", t.name, v, err, p)
			}
		}
	}
	sweep := int64(0)
	if r.Tier == "thorough" {
		sweep = c.float32Sweep(ts)
	}
	r.Cov["states"] = len(seenSrc) + len(strs)
	r.Cov["transitions"] = c.evals + sweep
	r.Cov["traces_validated_against_impl"] = c.evals + sweep
	r.Cov["evaluations"] = c.evals + sweep
	r.Cov["distinct_nontrivial"] = len(seenSrc) - nSmall
	r.Cov["rule"] = "states = distinct source values (all bool/int8/uint8/int16/uint16 values + boundary lattice of the wide types + strings); transitions = conversion calls on the real Maybe; non-trivial = lattice values of the 32/64-bit and float types"
	r.Cov["samples"] = samples.List
	r.Cov["float32_patterns_swept"] = sweep / int64(len(ts)-2)
	r.Assume = []string{"int / uint / uintptr: success is demanded in the portable 32-bit range, the real range is the platform's 64 bits",
		"float sources within 0.5 of a target bound may either convert or fail (the property does not fix whether the range test is before or after rounding); a nil error with a wrong value is always a violation"}
	r.Finish()
}

// strings: never a wrong value with a nil error; plain decimal integers that fit must convert
func (c *checker) stringCell(t *target, s string) {
	var got interface{}
	var err error
	p := lib.Catch(func() { got, err = t.call(fpgo.JustGenerics(s)) })
	if p != "" {
		c.bad(t.name, "string", "panic", "%s of %q: %s", t.name, s, p)
		return
	}
	isInt := false
	x := new(big.Int)
	if _, e := strconv.ParseInt(s, 10, 64); e == nil || (len(s) > 0 && isDigits(s)) {
		if _, ok := x.SetString(s, 10); ok {
			isInt = true
		}
	}
	if t.isFloat {
		if err == nil {
			f, e := strconv.ParseFloat(s, t.bits)
			g := reflect.ValueOf(got).Float()
			if e != nil || (math.Float64bits(g) != math.Float64bits(f) && !(math.IsNaN(g) && math.IsNaN(f))) {
				c.bad(t.name, "string", "wrong-value-nil-error", "%s of %q = %v with a nil error (ParseFloat: %v, %v)", t.name, s, g, f, e)
			}
		} else if isInt {
			c.bad(t.name, "string", "fits-but-failed", "%s of the decimal string %q failed with %v", t.name, s, err)
		}
		return
	}
	if err == nil {
		if !isInt || toBig(got).Cmp(x) != 0 {
			c.bad(t.name, "string", "wrong-value-nil-error", "%s of %q = %v with a nil error", t.name, s, got)
		}
		return
	}
	if isInt && inRange(x, t.mlo, t.mhi) {
		c.bad(t.name, "string", "fits-but-failed", "%s of the decimal string %q failed with %v although the value fits", t.name, s, err)
	}
}

func isDigits(s string) bool {
	i := 0
	if s[0] == '-' || s[0] == '+' {
		i = 1
	}
	if i == len(s) {
		return false
	}
	for ; i < len(s); i++ {
		if s[i] < '0' || s[i] > '9' {
			return false
		}
	}
	return true
}

// float32Sweep: every float32 bit pattern x every integer target, with a float64-based oracle
// (float32 -> float64 is exact; every bound is exactly representable or compared as 2^k).
func (c *checker) float32Sweep(ts []target) int64 {
	type rng struct{ lo, hi, mlo, mhi float64 } // inclusive bounds as float64; hi for 64-bit types is 2^63 / 2^64 (exclusive test)
	workers := runtime.NumCPU()
	var wg sync.WaitGroup
	var total int64
	var mu sync.Mutex
	for w := 0; w < workers; w++ {
		wg.Add(1)
		go func(w int) {
			defer wg.Done()
			var n int64
			for bits := uint64(w); bits < 1<<32; bits += uint64(workers) {
				f := math.Float32frombits(uint32(bits))
				num := num{isFloat: true, f: float64(f), nonzero: f != 0}
				m := fpgo.JustGenerics(f)
				for i := range ts {
					t := &ts[i]
					if t.isFloat {
						continue
					}
					n++
					got, err := t.call(m)
					// fast path: agree with the slow oracle's verdict using float64 arithmetic
					x := float64(f)
					ok := !math.IsNaN(x) && !math.IsInf(x, 0)
					r := math.Round(x)
					lo, _ := new(big.Float).SetInt(t.lo).Float64()
					hi, _ := new(big.Float).SetInt(t.hi).Float64() // MaxInt64 / MaxUint64 round up to 2^63 / 2^64
					exactHi := t.hi.IsInt64() && t.hi.Int64() < 1<<53
					fits := ok && r >= lo && ((exactHi && r <= hi) || (!exactHi && r < hi))
					if err == nil {
						if !fits {
							c.cell(t, f, num)
							continue
						}
						var g float64
						rv := reflect.ValueOf(got)
						if rv.Kind() >= reflect.Uint && rv.Kind() <= reflect.Uintptr {
							g = float64(rv.Uint())
						} else {
							g = float64(rv.Int())
						}
						if g != r {
							c.cell(t, f, num)
						}
					} else if fits {
						c.cell(t, f, num) // the slow oracle decides (ambiguity zone, must-succeed range)
					}
				}
			}
			mu.Lock()
			total += n
			mu.Unlock()
		}(w)
	}
	wg.Wait()
	return total
}
