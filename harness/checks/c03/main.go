// C03: slice / map helper functions equal their documented definitions for all inputs.
// Engine E3: all lists over 3 symbols up to length 4 (thorough 5), all pairs for binary helpers, all
// counts in [-3, len+3], a family of predicates / transformers, for int, string and struct elements,
// against one reference definition per helper. Inputs carry spare capacity filled with a sentinel, so
// a result exposing memory beyond len, or a helper writing into its input, is visible.
package main

import (
	"fmt"
	"github.com/TeaEntityLab/fpGo/v2/zzverif/vsched"
	"math"
	"reflect"
	"sort"
	"strings"

	fpgo "github.com/TeaEntityLab/fpGo/v2"
	"verifharness/lib"
)

type rec struct {
	A int
	B string
}

type suite[T comparable] struct {
	r        *lib.Report
	tname    string
	sym      func(i int) T // symbol i -> value
	sentinel T
	evals    *int64
	inputs   *int64
	maxLen   int
	long     bool // also run the long lists (int suite)
}

// input builds the list for symbols with spare capacity (2 sentinel slots beyond len).
func (s *suite[T]) input(symbols []int, isNil bool) []T {
	if isNil {
		return nil
	}
	l := make([]T, len(symbols), len(symbols)+2)
	for i, x := range symbols {
		l[i] = s.sym(x)
	}
	full := l[:cap(l)]
	for i := len(symbols); i < cap(l); i++ {
		full[i] = s.sentinel
	}
	return l
}

func snapshot[T any](l []T) string {
	if l == nil {
		return "nil"
	}
	return fmt.Sprintf("%d|%v", len(l), l[:cap(l)])
}

func (s *suite[T]) bad(fn, clause, format string, a ...interface{}) {
	s.r.Violation(fmt.Sprintf("C03|%s|%s", fn, clause), fmt.Sprintf("[%s] %s", s.tname, fmt.Sprintf(format, a...)),
		map[string]interface{}{"function": fn, "element_type": s.tname, "failure": fmt.Sprintf(format, a...)})
}

func seqEq[T comparable](a, b []T) bool {
	if len(a) != len(b) {
		return false
	}
	for i := range a {
		if a[i] != b[i] {
			return false
		}
	}
	return true
}

func (s *suite[T]) hasSentinel(l []T) bool {
	for _, v := range l {
		if v == s.sentinel {
			return true
		}
	}
	return false
}

// call runs one helper invocation: panics and input modification are violations for every helper.
func (s *suite[T]) call(fn string, desc string, inputs [][]T, f func()) bool {
	*s.evals++
	var before []string
	for _, in := range inputs {
		before = append(before, snapshot(in))
	}
	if p := lib.Catch(f); p != "" {
		s.bad(fn, "panic", "%s: %s", desc, p)
		return false
	}
	for i, in := range inputs {
		if snapshot(in) != before[i] {
			s.bad(fn, "input-modified", "%s: input %d changed from %s to %s", desc, i, before[i], snapshot(in))
			return false
		}
	}
	return true
}

func allLists(maxLen, alpha int) [][]int {
	out := [][]int{{}}
	var gen func(cur []int, n int)
	gen = func(cur []int, n int) {
		if len(cur) == n {
			out = append(out, append([]int{}, cur...))
			return
		}
		for k := 0; k < alpha; k++ {
			gen(append(cur, k), n)
		}
	}
	for n := 1; n <= maxLen; n++ {
		gen(nil, n)
	}
	return out
}

func contiguous[T comparable](sub, l []T) bool {
	if len(sub) == 0 {
		return true
	}
	for i := 0; i+len(sub) <= len(l); i++ {
		if seqEq(sub, l[i:i+len(sub)]) {
			return true
		}
	}
	return false
}

// longSymbolLists: inputs beyond any small-size shortcut in a helper (17 ... 130 elements over the same
// three symbols, two repetition patterns).
func longSymbolLists() [][]int {
	var out [][]int
	for _, n := range []int{17, 33, 70, 130} {
		a, b := make([]int, n), make([]int, n)
		for i := 0; i < n; i++ {
			a[i], b[i] = i%3, (i*i+i/7)%3
		}
		out = append(out, a, b)
	}
	// every length from 4 to 40 over three symbols (a helper may switch strategy at a length)
	for n := 4; n <= 40; n++ {
		l := make([]int, n)
		for i := range l {
			l[i] = (i*i + i/3) % 3
		}
		out = append(out, l)
	}
	// many DISTINCT values (a helper may switch strategy with the number of distinct values it has seen, not
	// with the length): k distinct symbols followed by all of them again, by the last one again, reversed
	// (the ladder continues in distinctLadder up to 4097 distinct values for the duplicate-removing helpers)
	for _, k := range []int{8, 9, 10, 16, 17, 33, 64, 65, 66} {
		var asc, twice, lastAgain, mirror []int
		for i := 0; i < k; i++ {
			asc = append(asc, i)
		}
		twice = append(append(twice, asc...), asc...)
		lastAgain = append(append(lastAgain, asc...), k-1, 0, k-1)
		mirror = append(mirror, asc...)
		for i := k - 1; i >= 0; i-- {
			mirror = append(mirror, i)
		}
		out = append(out, asc, twice, lastAgain, mirror)
	}
	return out
}

func (s *suite[T]) run() {
	lists := allLists(s.maxLen, 3)
	if s.long {
		lists = append(lists, longSymbolLists()...)
	}
	type in struct {
		sy  []int
		nil bool
	}
	var ins []in
	ins = append(ins, in{nil, true})
	for _, l := range lists {
		ins = append(ins, in{l, false})
	}
	preds := []struct {
		name string
		f    func(sym int) bool
	}{{"true", func(int) bool { return true }}, {"false", func(int) bool { return false }}, {"even", func(x int) bool { return x%2 == 0 }}, {"is1", func(x int) bool { return x == 1 }}}
	symOf := map[T]int{}
	for i := 0; i < 3; i++ {
		symOf[s.sym(i)] = i
	}
	for _, l := range lists {
		for _, x := range l {
			if x >= 3 {
				symOf[s.sym(x)] = x
			}
		}
	}
	for _, it := range ins {
		*s.inputs++
		want := make([]T, len(it.sy))
		for i, x := range it.sy {
			want[i] = s.sym(x)
		}
		n := len(want)
		d := fmt.Sprintf("list %v", it.sy)
		if it.nil {
			d = "nil list"
		}
		// ---- count / size parameters in [-3, len+3]
		var counts []int
		for c := -3; c <= n+3; c++ {
			counts = append(counts, c)
		}
		if n <= 3 || n > 8 { // the extreme values of int with the short and the long lists
			counts = append(counts, math.MinInt, math.MinInt+1, math.MinInt32, math.MaxInt32, math.MaxInt/2, math.MaxInt-1, math.MaxInt)
		}
		for _, c := range counts {
			c := c
			l := s.input(it.sy, it.nil)
			var got []T
			if s.call("Drop", fmt.Sprintf("Drop(%d, %s)", c, d), [][]T{l}, func() { got = fpgo.Drop(c, l...) }) {
				s.rangeResult("Drop", c, d, got, want, func() []T {
					if c >= n {
						return []T{}
					}
					return want[c:]
				})
			}
			l = s.input(it.sy, it.nil)
			if s.call("DropLast", fmt.Sprintf("DropLast(%d, %s)", c, d), [][]T{l}, func() { got = fpgo.DropLast(c, l...) }) {
				s.rangeResult("DropLast", c, d, got, want, func() []T {
					if c >= n {
						return []T{}
					}
					return want[:n-c]
				})
			}
			l = s.input(it.sy, it.nil)
			if s.call("Take", fmt.Sprintf("Take(%d, %s)", c, d), [][]T{l}, func() { got = fpgo.Take(c, l...) }) {
				s.rangeResult("Take", c, d, got, want, func() []T {
					if c >= n {
						return want
					}
					return want[:c]
				})
			}
			l = s.input(it.sy, it.nil)
			if s.call("TakeLast", fmt.Sprintf("TakeLast(%d, %s)", c, d), [][]T{l}, func() { got = fpgo.TakeLast(c, l...) }) {
				s.rangeResult("TakeLast", c, d, got, want, func() []T {
					if c >= n {
						return want
					}
					return want[n-c:]
				})
			}
			l = s.input(it.sy, it.nil)
			var groups [][]T
			if s.call("SplitEvery", fmt.Sprintf("SplitEvery(%d, %s)", c, d), [][]T{l}, func() { groups = fpgo.SplitEvery(c, l...) }) {
				var flat []T
				okSizes := true
				for gi, g := range groups {
					flat = append(flat, g...)
					if c > 0 && n > 0 && (len(g) > c || (gi < len(groups)-1 && len(g) != c) || len(g) == 0) {
						okSizes = false
					}
				}
				if !seqEq(flat, want) || s.hasSentinel(flat) {
					s.bad("SplitEvery", "wrong-result", "SplitEvery(%d, %s) = %v: the groups do not concatenate to the input", c, d, groups)
				} else if !okSizes {
					s.bad("SplitEvery", "wrong-result", "SplitEvery(%d, %s) = %v: groups must have %d elements (the last one at most)", c, d, groups, c)
				}
				// the groups are new lists: the caller may write into them without touching the list it passed in
				// (for a size <= 0 or a list of at most one element the library hands the list back as its only group)
				before := snapshot(l)
				for _, g := range groups {
					if c <= 0 || n <= 1 {
						break
					}
					for i := range g {
						g[i] = s.sentinel
					}
				}
				if snapshot(l) != before {
					s.bad("SplitEvery", "result-aliases-input", "writing into the groups returned by SplitEvery(%d, %s) changed the input list from %s to %s", c, d, before, snapshot(l))
				}
			}
		}
		// ---- unary helpers
		l := s.input(it.sy, it.nil)
		var got []T
		if s.call("Reverse", "Reverse("+d+")", [][]T{l}, func() { got = fpgo.Reverse(l...) }) {
			rv := make([]T, n)
			for i := range want {
				rv[n-1-i] = want[i]
			}
			s.expect("Reverse", d, got, rv)
		}
		if s.call("Distinct", "Distinct("+d+")", [][]T{l}, func() { got = fpgo.Distinct(l...) }) {
			s.expect("Distinct", d, got, refDistinct(want))
		}
		if s.call("DistinctRandom", "DistinctRandom("+d+")", [][]T{l}, func() { got = fpgo.DistinctRandom(l...) }) {
			if !sameMultiset(got, refDistinct(want)) {
				s.bad("DistinctRandom", "wrong-result", "DistinctRandom(%s) = %v", d, got)
			}
		}
		if s.call("Dedupe", "Dedupe("+d+")", [][]T{l}, func() { got = fpgo.Dedupe(l...) }) {
			var dd []T
			for i, v := range want {
				if i == 0 || want[i-1] != v {
					dd = append(dd, v)
				}
			}
			s.expect("Dedupe", d, got, dd)
		}
		if s.call("Tail", "Tail("+d+")", [][]T{l}, func() { got = fpgo.Tail(l...) }) {
			if n <= 1 {
				s.expect("Tail", d, got, nil)
			} else {
				s.expect("Tail", d, got, want[1:])
			}
		}
		var h T
		if s.call("Head", "Head("+d+")", [][]T{l}, func() { h = fpgo.Head(l...) }) {
			var wh T
			if n > 0 {
				wh = want[0]
			}
			if h != wh {
				s.bad("Head", "wrong-result", "Head(%s) = %v, want %v", d, h, wh)
			}
		}
		if s.call("DuplicateSlice", "DuplicateSlice("+d+")", [][]T{l}, func() { got = fpgo.DuplicateSlice(l) }) {
			s.expect("DuplicateSlice", d, got, want)
			if len(got) > 0 && len(l) > 0 && &got[0] == &l[0] {
				s.bad("DuplicateSlice", "not-a-copy", "DuplicateSlice(%s) shares the backing array", d)
			}
		}
		var bl bool
		if s.call("IsDistinct", "IsDistinct("+d+")", [][]T{l}, func() { bl = fpgo.IsDistinct(l...) }) {
			if n > 0 && bl != (len(refDistinct(want)) == n) {
				s.bad("IsDistinct", "wrong-result", "IsDistinct(%s) = %v", d, bl)
			}
		}
		var mp map[T]int
		if s.call("SliceToMap", "SliceToMap(7, "+d+")", [][]T{l}, func() { mp = fpgo.SliceToMap(7, l...) }) {
			wm := map[T]int{}
			for _, v := range want {
				wm[v] = 7
			}
			if !reflect.DeepEqual(mp, wm) {
				s.bad("SliceToMap", "wrong-result", "SliceToMap(7, %s) = %v", d, mp)
			}
		}
		for x := 0; x < 3; x++ {
			e := s.sym(x)
			if s.call("DropEq", fmt.Sprintf("DropEq(%v, %s)", e, d), [][]T{l}, func() { got = fpgo.DropEq(e, l...) }) {
				var w []T
				for _, v := range want {
					if v != e {
						w = append(w, v)
					}
				}
				s.expect("DropEq", d, got, w)
			}
			if s.call("Exists", fmt.Sprintf("Exists(%v, %s)", e, d), [][]T{l}, func() { bl = fpgo.Exists(e, l...) }) {
				w := false
				for _, v := range want {
					if v == e {
						w = true
					}
				}
				if bl != w {
					s.bad("Exists", "wrong-result", "Exists(%v, %s) = %v", e, d, bl)
				}
			}
			if s.call("Prepend", fmt.Sprintf("Prepend(%v, %s)", e, d), [][]T{l}, func() { got = fpgo.Prepend(e, l) }) {
				s.expect("Prepend", d, got, append([]T{e}, want...))
				// a second Prepend onto the same list must not disturb the first result
				first := append([]T{}, got...)
				other := s.sym((x + 1) % 3)
				var got2 []T
				if s.call("Prepend", fmt.Sprintf("Prepend(%v, %s) twice", e, d), [][]T{l}, func() { got2 = fpgo.Prepend(other, l) }) {
					if !seqEq(got, first) {
						s.bad("Prepend", "earlier-result-disturbed", "Prepend(%v, %s) was %v and became %v after Prepend(%v, same list)", e, d, first, got, other)
					}
					s.expect("Prepend", d, got2, append([]T{other}, want...))
				}
			}
		}
		// ---- predicates / transformers
		for _, p := range preds {
			p := p
			pf := func(v T) bool { return p.f(symOf[v]) }
			pfi := func(v T, i int) bool { return p.f(symOf[v]) }
			var wT, wF []T
			for _, v := range want {
				if pf(v) {
					wT = append(wT, v)
				} else {
					wF = append(wF, v)
				}
			}
			if s.call("Filter", "Filter("+p.name+", "+d+")", [][]T{l}, func() { got = fpgo.Filter(pfi, l...) }) {
				s.expect("Filter", d+" pred "+p.name, got, wT)
			}
			if s.call("Reject", "Reject("+p.name+", "+d+")", [][]T{l}, func() { got = fpgo.Reject(pfi, l...) }) {
				s.expect("Reject", d+" pred "+p.name, got, wF)
			}
			var parts [][]T
			if s.call("Partition", "Partition("+p.name+", "+d+")", [][]T{l}, func() { parts = fpgo.Partition(pf, l...) }) {
				if len(parts) != 2 || !seqEq(parts[0], wT) || !seqEq(parts[1], wF) {
					s.bad("Partition", "wrong-result", "Partition(%s, %s) = %v", p.name, d, parts)
				}
			}
			if s.call("DropWhile", "DropWhile("+p.name+", "+d+")", [][]T{l}, func() { got = fpgo.DropWhile(pf, l...) }) {
				i := 0
				for i < n && pf(want[i]) {
					i++
				}
				s.expect("DropWhile", d+" pred "+p.name, got, want[i:])
			}
			if s.call("Every", "Every("+p.name+", "+d+")", [][]T{l}, func() { bl = fpgo.Every(pf, l...) }) {
				if bl != (n > 0 && len(wF) == 0) {
					s.bad("Every", "wrong-result", "Every(%s, %s) = %v", p.name, d, bl)
				}
			}
			if s.call("Some", "Some("+p.name+", "+d+")", [][]T{l}, func() { bl = fpgo.Some(pf, l...) }) {
				if bl != (len(wT) > 0) {
					s.bad("Some", "wrong-result", "Some(%s, %s) = %v", p.name, d, bl)
				}
			}
		}
		// filter by index
		if s.call("Filter", "Filter(index<2, "+d+")", [][]T{l}, func() { got = fpgo.Filter(func(v T, i int) bool { return i < 2 }, l...) }) {
			w := want
			if n > 2 {
				w = want[:2]
			}
			s.expect("Filter", d+" index<2", got, w)
		}
		if s.call("Every", "Every(nil, "+d+")", [][]T{l}, func() { bl = fpgo.Every[T](nil, l...) }) && bl {
			s.bad("Every", "wrong-result", "Every(nil, %s) = true", d)
		}
		if s.call("Some", "Some(nil, "+d+")", [][]T{l}, func() { bl = fpgo.Some[T](nil, l...) }) && bl {
			s.bad("Some", "wrong-result", "Some(nil, %s) = true", d)
		}
		if s.call("DropWhile", "DropWhile(nil, "+d+")", [][]T{l}, func() { got = fpgo.DropWhile[T](nil, l...) }) && len(got) != 0 {
			s.bad("DropWhile", "wrong-result", "DropWhile(nil, %s) = %v, documented: empty", d, got)
		}
		var ms []string
		if s.call("Map", "Map(tag, "+d+")", [][]T{l}, func() { ms = fpgo.Map(func(v T) string { return fmt.Sprint("<", v, ">") }, l...) }) {
			var w []string
			for _, v := range want {
				w = append(w, fmt.Sprint("<", v, ">"))
			}
			if !seqEq(ms, w) {
				s.bad("Map", "wrong-result", "Map(tag, %s) = %v", d, ms)
			}
		}
		if s.call("MapIndexed", "MapIndexed(tag, "+d+")", [][]T{l}, func() { ms = fpgo.MapIndexed(func(v T, i int) string { return fmt.Sprint(i, ":", v) }, l...) }) {
			var w []string
			for i, v := range want {
				w = append(w, fmt.Sprint(i, ":", v))
			}
			if !seqEq(ms, w) {
				s.bad("MapIndexed", "wrong-result", "MapIndexed(tag, %s) = %v", d, ms)
			}
		}
		var str string
		if s.call("Reduce", "Reduce(concat, "+d+")", [][]T{l}, func() { str = fpgo.Reduce(func(m string, v T) string { return m + fmt.Sprint(v, ";") }, "^", l...) }) {
			w := "^"
			for _, v := range want {
				w += fmt.Sprint(v, ";")
			}
			if str != w {
				s.bad("Reduce", "wrong-result", "Reduce(concat, %s) = %q", d, str)
			}
		}
		if s.call("ReduceIndexed", "ReduceIndexed(concat, "+d+")", [][]T{l}, func() {
			str = fpgo.ReduceIndexed(func(m string, v T, i int) string { return m + fmt.Sprint(i, v, ";") }, "^", l...)
		}) {
			w := "^"
			for i, v := range want {
				w += fmt.Sprint(i, v, ";")
			}
			if str != w {
				s.bad("ReduceIndexed", "wrong-result", "ReduceIndexed(concat, %s) = %q", d, str)
			}
		}
		var gb map[bool][]T
		if s.call("GroupBy", "GroupBy(even, "+d+")", [][]T{l}, func() { gb = fpgo.GroupBy(func(v T) bool { return symOf[v]%2 == 0 }, l...) }) {
			w := map[bool][]T{}
			for _, v := range want {
				k := symOf[v]%2 == 0
				w[k] = append(w[k], v)
			}
			if !reflect.DeepEqual(gb, w) {
				s.bad("GroupBy", "wrong-result", "GroupBy(even, %s) = %v", d, gb)
			}
		}
		if s.call("UniqBy", "UniqBy(even, "+d+")", [][]T{l}, func() { got = fpgo.UniqBy(func(v T) bool { return symOf[v]%2 == 0 }, l...) }) {
			var w []T
			seen := map[bool]bool{}
			for _, v := range want {
				k := symOf[v]%2 == 0
				if !seen[k] {
					seen[k] = true
					w = append(w, v)
				}
			}
			s.expect("UniqBy", d, got, w)
		}
	}
	// ---- binary helpers over all pairs (lists up to length 3) and triples up to length 2
	pairMax := 3
	var small []in
	small = append(small, in{nil, true})
	for _, l := range allLists(pairMax, 3) {
		small = append(small, in{l, false})
	}
	if s.long {
		for _, l := range longSymbolLists()[:4] {
			small = append(small, in{l, false})
		}
	}
	for _, a := range small {
		for _, b := range small {
			la, lb := s.input(a.sy, a.nil), s.input(b.sy, b.nil)
			wa, wb := append([]T{}, la...), append([]T{}, lb...)
			d := fmt.Sprintf("%v, %v", a.sy, b.sy)
			var got []T
			if s.call("Concat", "Concat("+d+")", [][]T{la, lb}, func() { got = fpgo.Concat(la, lb) }) {
				s.expect("Concat", d, got, append(append([]T{}, wa...), wb...))
			}
			if s.call("Flatten", "Flatten("+d+")", [][]T{la, lb}, func() { got = fpgo.Flatten(la, lb, la) }) {
				s.expect("Flatten", d, got, append(append(append([]T{}, wa...), wb...), wa...))
			}
			// the list of lists handed over by spreading is an input too: it still names the same lists (nil
			// ones included) afterwards, and a second call on it gives the same answer
			outer := [][]T{la, nil, lb, nil, la}
			shape := func() string {
				var p []string
				for _, in := range outer {
					p = append(p, snapshot(in))
				}
				return strings.Join(p, " ")
			}
			before := shape()
			for _, fn := range []string{"Flatten", "Concat"} {
				var first, second []T
				if s.call(fn, fn+"(spread [a nil b nil a]: "+d+")", [][]T{la, lb}, func() {
					if fn == "Flatten" {
						first, second = fpgo.Flatten(outer...), fpgo.Flatten(outer...)
					} else {
						first, second = fpgo.Concat(lb, outer...), fpgo.Concat(lb, outer...)
					}
				}) {
					w := append(append(append([]T{}, wa...), wb...), wa...)
					if fn == "Concat" {
						w = append(append([]T{}, wb...), w...)
					}
					s.expect(fn, "spread [a nil b nil a]: "+d, first, w)
					s.expect(fn, "spread [a nil b nil a], second call: "+d, second, w)
					if shape() != before {
						s.bad(fn, "input-modified", "%s(spread list of lists [a nil b nil a]: %s): the caller's list of lists changed from %s to %s", fn, d, before, shape())
						outer = [][]T{la, nil, lb, nil, la}
					}
				}
			}
			var bl bool
			if s.call("IsEqual", "IsEqual("+d+")", [][]T{la, lb}, func() { bl = fpgo.IsEqual(la, lb) }) {
				if len(wa) > 0 && len(wb) > 0 && bl != seqEq(wa, wb) {
					s.bad("IsEqual", "wrong-result", "IsEqual(%s) = %v", d, bl)
				}
			}
			var z map[T]T
			if s.call("Zip", "Zip("+d+")", [][]T{la, lb}, func() { z = fpgo.Zip(la, lb) }) {
				w := map[T]T{}
				for i := 0; i < len(wa) && i < len(wb); i++ {
					w[wa[i]] = wb[i]
				}
				if !reflect.DeepEqual(z, w) {
					s.bad("Zip", "wrong-result", "Zip(%s) = %v, want %v", d, z, w)
				}
			}
		}
	}
}

func refDistinct[T comparable](l []T) []T {
	var out []T
	seen := map[T]bool{}
	for _, v := range l {
		if !seen[v] {
			seen[v] = true
			out = append(out, v)
		}
	}
	return out
}

func sameMultiset[T comparable](a, b []T) bool {
	if len(a) != len(b) {
		return false
	}
	m := map[T]int{}
	for _, v := range a {
		m[v]++
	}
	for _, v := range b {
		m[v]--
		if m[v] < 0 {
			return false
		}
	}
	return true
}

func (s *suite[T]) expect(fn, d string, got, want []T) {
	if !seqEq(got, want) {
		s.bad(fn, "wrong-result", "%s(%s) = %v, definition gives %v", fn, d, got, want)
	}
}

// rangeResult: helpers with a count. For 0 < count the documented definition applies; for count <= 0
// (the documentation defines positive counts only) the result must still be a contiguous part of
// the input, never expose memory beyond len.
func (s *suite[T]) rangeResult(fn string, c int, d string, got, want []T, def func() []T) {
	if s.hasSentinel(got) || len(got) > len(want) {
		s.bad(fn, "exposes-memory-beyond-len", "%s(%d, %s) = %v contains elements that are not in the list", fn, c, d, got)
		return
	}
	if c > 0 {
		if w := def(); !seqEq(got, w) {
			s.bad(fn, "wrong-result", "%s(%d, %s) = %v, definition gives %v", fn, c, d, got, w)
		}
		return
	}
	if c == 0 && (fn == "Drop" || fn == "DropLast") && !seqEq(got, want) {
		// dropping no item is the one non-positive count whose meaning the documentation fixes
		s.bad(fn, "wrong-result", "%s(0, %s) = %v: dropping no item leaves the list %v", fn, d, got, want)
		return
	}
	if !contiguous(got, want) {
		s.bad(fn, "nonpositive-count", "%s(%d, %s) = %v is not a contiguous part of the list", fn, c, d, got)
	}
}

// ---- maps and numeric helpers ----

func mapsAndNumbers(r *lib.Report, evals, inputs *int64) {
	bad := func(fn, clause, format string, a ...interface{}) {
		r.Violation(fmt.Sprintf("C03|%s|%s", fn, clause), fmt.Sprintf(format, a...), map[string]interface{}{"function": fn, "failure": fmt.Sprintf(format, a...)})
	}
	// all partial functions {0,1,2} -> {0,1}: 27 maps, plus nil
	var maps []map[int]int
	maps = append(maps, nil)
	for code := 0; code < 27; code++ {
		m := map[int]int{}
		c := code
		for k := 0; k < 3; k++ {
			if c%3 > 0 {
				m[k] = c%3 - 1
			}
			c /= 3
		}
		maps = append(maps, m)
	}
	cp := func(m map[int]int) map[int]int {
		if m == nil {
			return nil
		}
		o := map[int]int{}
		for k, v := range m {
			o[k] = v
		}
		return o
	}
	for _, a := range maps {
		*inputs++
		a0 := cp(a)
		var ks, vs []int
		*evals += 3
		if p := lib.Catch(func() { ks = fpgo.Keys(a); vs = fpgo.Values(a) }); p != "" {
			bad("Keys", "panic", "Keys/Values(%v): %s", a, p)
		}
		var wk, wv []int
		for k, v := range a {
			wk = append(wk, k)
			wv = append(wv, v)
		}
		if !sameMultiset(ks, wk) || !sameMultiset(vs, wv) {
			bad("Keys", "wrong-result", "Keys(%v)=%v Values=%v", a, ks, vs)
		}
		var dm map[int]int
		if p := lib.Catch(func() { dm = fpgo.DuplicateMap(a) }); p != "" {
			bad("DuplicateMap", "panic", "DuplicateMap(%v): %s", a, p)
		} else {
			if len(dm) != len(a) || (len(a) > 0 && !reflect.DeepEqual(dm, a)) {
				bad("DuplicateMap", "wrong-result", "DuplicateMap(%v) = %v", a, dm)
			}
			if dm != nil {
				dm[99] = 1
				if _, ok := a[99]; ok {
					bad("DuplicateMap", "not-a-copy", "DuplicateMap(%v) shares the map", a0)
				}
				delete(dm, 99)
			}
		}
		for _, b := range maps {
			b0 := cp(b)
			*evals += 2
			var mg map[int]int
			var eq bool
			if p := lib.Catch(func() { mg = fpgo.Merge(a, b); eq = fpgo.IsEqualMap(a, b) }); p != "" {
				bad("Merge", "panic", "Merge/IsEqualMap(%v, %v): %s", a, b, p)
				continue
			}
			w := map[int]int{}
			for k, v := range a {
				w[k] = v
			}
			for k, v := range b {
				w[k] = v
			}
			if !reflect.DeepEqual(mg, w) {
				bad("Merge", "wrong-result", "Merge(%v, %v) = %v, want %v", a, b, mg, w)
			}
			if len(a) > 0 && len(b) > 0 && eq != reflect.DeepEqual(a, b) {
				bad("IsEqualMap", "wrong-result", "IsEqualMap(%v, %v) = %v", a, b, eq)
			}
			if !reflect.DeepEqual(a, a0) || !reflect.DeepEqual(b, b0) {
				bad("Merge", "input-modified", "Merge/IsEqualMap changed an input map: %v -> %v, %v -> %v", a0, a, b0, b)
			}
		}
	}
	// Min / Max / MinMax over all lists of {-1,0,2} up to length 4; Range over all (lower, higher, hop)
	for _, sy := range allLists(4, 3) {
		*inputs++
		vals := []int{-1, 0, 2}
		var l []int
		for _, x := range sy {
			l = append(l, vals[x])
		}
		wmin, wmax := 0, 0
		if len(l) > 0 {
			s := append([]int{}, l...)
			sort.Ints(s)
			wmin, wmax = s[0], s[len(s)-1]
		}
		*evals += 3
		var mn, mx, a, b int
		if p := lib.Catch(func() { mn, mx = fpgo.Min(l...), fpgo.Max(l...); a, b = fpgo.MinMax(l...) }); p != "" {
			bad("MinMax", "panic", "Min/Max/MinMax(%v): %s", l, p)
		} else if mn != wmin || mx != wmax || a != wmin || b != wmax {
			bad("MinMax", "wrong-result", "Min/Max/MinMax(%v) = %d %d (%d,%d), want %d %d", l, mn, mx, a, b, wmin, wmax)
		}
	}
	for lo := -3; lo <= 3; lo++ {
		for hi := -3; hi <= 4; hi++ {
			for hop := -3; hop <= 4; hop++ {
				*evals++
				*inputs++
				var got []int
				p := lib.Catch(func() {
					if hop == 4 {
						got = fpgo.Range(lo, hi) // no hop argument
					} else {
						got = fpgo.Range(lo, hi, hop)
					}
				})
				if p != "" {
					bad("Range", "panic", "Range(%d, %d, %d): %s", lo, hi, hop, p)
					continue
				}
				h := hop
				if hop == 4 {
					h = 1
				}
				var w []int
				if h > 0 {
					for v := lo; v < hi; v += h {
						w = append(w, v)
					}
				}
				if !seqEq(got, w) {
					bad("Range", "wrong-result", "Range(%d, %d, hop %d) = %v, want %v", lo, hi, hop, got, w)
				}
			}
		}
	}
	// Range on the other numeric instantiations: fractional bounds and hops (float64, float32), narrow
	// integers near their limits (int8, uint8): the values lower, lower+hop, ... below higher
	fl := []float64{-1.5, 0, 0.5, 1, 2.5, 3}
	for _, lo := range fl {
		for _, hi := range fl {
			for _, hop := range []float64{-1, 0, 0.25, 0.5, 1, 1.5, 99} {
				*evals += 2
				*inputs++
				var got64 []float64
				var got32 []float32
				p := lib.Catch(func() {
					if hop == 99 {
						got64, got32 = fpgo.Range(lo, hi), fpgo.Range(float32(lo), float32(hi))
					} else {
						got64, got32 = fpgo.Range(lo, hi, hop), fpgo.Range(float32(lo), float32(hi), float32(hop))
					}
				})
				if p != "" {
					bad("Range", "panic", "Range[float](%v, %v, %v): %s", lo, hi, hop, p)
					continue
				}
				h := hop
				if hop == 99 {
					h = 1
				}
				var w64 []float64
				var w32 []float32
				if h > 0 {
					for v := lo; v < hi; v += h {
						w64 = append(w64, v)
					}
					for v := float32(lo); v < float32(hi); v += float32(h) {
						w32 = append(w32, v)
					}
				}
				if !seqEq(got64, w64) || !seqEq(got32, w32) {
					bad("Range", "wrong-result|float", "Range[float64/float32](%v, %v, hop %v) = %v / %v, want %v / %v", lo, hi, hop, got64, got32, w64, w32)
				}
			}
		}
	}
	// (only spans whose last step stays inside the type: what Range does when lower+k*hop overflows T is not defined)
	// The spans wider than the type's maximum (-100..100 in int8) are legitimate arguments: every element is in the type.
	for _, c := range [][3]int{{100, 127, 9}, {-128, -120, 3}, {0, 100, 25}, {5, 5, 1}, {-3, 3, 2}, {-100, 100, 1}, {-100, 100, 7}, {-128, 127, 1}, {-128, 77, 50}, {-65, 64, 1}, {-1, 127, 1}} {
		*evals += 2
		*inputs++
		lo, hi, hop := c[0], c[1], c[2]
		var g8 []int8
		var gu []uint8
		p := lib.Catch(func() {
			g8 = fpgo.Range(int8(lo), int8(hi), int8(hop))
			if lo >= 0 {
				gu = fpgo.Range(uint8(lo), uint8(hi), uint8(hop))
			}
		})
		var w8 []int8
		var wu []uint8
		for v := lo; v < hi; v += hop {
			w8 = append(w8, int8(v))
			if lo >= 0 {
				wu = append(wu, uint8(v))
			}
			if v+hop > 127 {
				break // the next value does not exist in int8: not demanded beyond
			}
		}
		if p != "" || !seqEq(g8, w8) || (lo >= 0 && !seqEq(gu, wu)) {
			bad("Range", "wrong-result|narrow-int", "Range[int8/uint8](%d, %d, %d) = %v / %v %s, want %v / %v", lo, hi, hop, g8, gu, p, w8, wu)
		}
	}
}

// wideRanges: Range on int16 / int32 / int64 with spans that do not fit the type (higher-lower overflows T although every
// element is representable) — a size computation made in T goes wrong exactly there.
func wideRanges(r *lib.Report, evals, inputs *int64) {
	bad := func(format string, a ...interface{}) {
		r.Violation("C03|Range|wide-span", fmt.Sprintf(format, a...), nil)
	}
	check16 := func(lo, hi, hop int64) {
		*evals++
		*inputs++
		var g []int16
		p := lib.Catch(func() { g = fpgo.Range(int16(lo), int16(hi), int16(hop)) })
		var w []int16
		for v := lo; v < hi; v += hop {
			w = append(w, int16(v))
		}
		if p != "" || !seqEq(g, w) {
			bad("Range[int16](%d, %d, %d): %s got %d elements, want %d", lo, hi, hop, p, len(g), len(w))
		}
	}
	check32 := func(lo, hi, hop int64) {
		*evals++
		*inputs++
		var g []int32
		p := lib.Catch(func() { g = fpgo.Range(int32(lo), int32(hi), int32(hop)) })
		var w []int32
		for v := lo; v < hi; v += hop {
			w = append(w, int32(v))
		}
		if p != "" || !seqEq(g, w) {
			bad("Range[int32](%d, %d, %d): %s got %d elements, want %d", lo, hi, hop, p, len(g), len(w))
		}
	}
	check64 := func(lo, hi, hop int64, n int) {
		*evals++
		*inputs++
		var g []int64
		p := lib.Catch(func() { g = fpgo.Range(lo, hi, hop) })
		w := make([]int64, 0, n)
		for k, v := 0, lo; k < n; k, v = k+1, v+hop {
			w = append(w, v)
		}
		if p != "" || !seqEq(g, w) {
			bad("Range[int64](%d, %d, %d): %s got %d elements, want %d", lo, hi, hop, p, len(g), len(w))
		}
	}
	for _, hop := range []int64{1000, 4096, 9973, 20000, 32767} {
		if hop <= 20000 {
			check16(-20000, 20000, hop)
		}
		check16(-32768, 32767-hop+1, hop)
		check16(-1, 32767-hop+1, hop)
	}
	for _, hop := range []int64{1 << 20, 1<<24 + 1, 1 << 30, 1<<31 - 1} {
		check32(-2000000000, 2000000000-hop+1, hop)
		check32(-1<<31, 1<<31-hop, hop)
	}
	// int64: lower + k*hop for k < n stays below higher and inside the type (n computed by hand)
	check64(-6e18, 6e18, 1e18, 12)
	check64(-9e18, 9e18, 3e18, 6)
	check64(-1<<63, 1<<62, 1<<62, 3)
	check64(-5e18, 5e18, 4e18, 3)
}

// distinctLadder: the duplicate-removing helpers on lists with MANY distinct values (2^k-1, 2^k, 2^k+1 up to 4097), where
// a helper that switches from scanning to a set at some count would go wrong. Patterns: all values twice; all values, then
// each value again in reverse; all values with the value at every "boundary" position repeated at the very end.
func distinctLadder(r *lib.Report, evals, inputs *int64) {
	bad := func(fn, format string, a ...interface{}) {
		r.Violation("C03|"+fn+"|many-distinct", fmt.Sprintf(format, a...), nil)
	}
	var ks []int
	for p := 64; p <= 4096; p *= 2 {
		ks = append(ks, p-1, p, p+1, p+2, p+p/2)
	}
	for _, k := range ks {
		asc := make([]int, k)
		for i := range asc {
			asc[i] = i * 3
		}
		var pats [][]int
		pats = append(pats, append(append([]int{}, asc...), asc...))
		m := append([]int{}, asc...)
		for i := k - 1; i >= 0; i-- {
			m = append(m, asc[i])
		}
		pats = append(pats, m)
		// every value v_j (j around each power of two) once more, after all k values have been seen
		e := append([]int{}, asc...)
		for p := 8; p <= k; p *= 2 {
			for _, j := range []int{p - 2, p - 1, p, p + 1} {
				if j >= 0 && j < k {
					e = append(e, asc[j])
				}
			}
		}
		pats = append(pats, e)
		for pi, l := range pats {
			*inputs++
			*evals += 6
			d := fmt.Sprintf("pattern %d over %d distinct values (%d items)", pi, k, len(l))
			strs := make([]string, len(l))
			ifs := make([]interface{}, len(l))
			for i, v := range l {
				strs[i] = fmt.Sprint("s", v)
				ifs[i] = v
			}
			var g, gr, gd []int
			var gs []string
			var gi []interface{}
			var isd, isd2 bool
			if p := lib.Catch(func() {
				g, gr, gs, gi = fpgo.Distinct(l...), fpgo.DistinctRandom(l...), fpgo.Distinct(strs...), fpgo.DistinctForInterface(ifs...)
				isd, isd2 = fpgo.IsDistinct(l...), fpgo.IsDistinct(asc...)
				gd = fpgo.Dedupe(l...)
			}); p != "" {
				bad("Distinct", "%s: panic: %s", d, p)
				continue
			}
			if !seqEq(g, asc) {
				bad("Distinct", "Distinct(%s) has %d items, want the %d distinct values in first-occurrence order", d, len(g), k)
			}
			if !sameMultiset(gr, asc) {
				bad("DistinctRandom", "DistinctRandom(%s) has %d items, want the %d distinct values", d, len(gr), k)
			}
			okS, okI := len(gs) == k, len(gi) == k
			for i := 0; i < k && okS && okI; i++ {
				okS, okI = gs[i] == fmt.Sprint("s", asc[i]), gi[i] == interface{}(asc[i])
			}
			if !okS {
				bad("Distinct", "Distinct[string](%s) has %d items, want the %d distinct values in first-occurrence order", d, len(gs), k)
			}
			if !okI {
				bad("DistinctForInterface", "DistinctForInterface(%s) has %d items, want the %d distinct values in first-occurrence order", d, len(gi), k)
			}
			if isd || !isd2 {
				bad("IsDistinct", "IsDistinct(%s) = %v, IsDistinct(the %d distinct values) = %v", d, isd, k, isd2)
			}
			var wd []int
			for i, v := range l {
				if i == 0 || l[i-1] != v {
					wd = append(wd, v)
				}
			}
			if !seqEq(gd, wd) {
				bad("Dedupe", "Dedupe(%s) has %d items, want %d", d, len(gd), len(wd))
			}
		}
	}
}

// poison: every callback-taking helper, over a few lists, with a callback that panics at its k-th call.
func poison(r *lib.Report, evals *int64) {
	// probe: a few fixed calls with known answers, made right after every poisoned call
	probe := func(after string) {
		got := fmt.Sprint(fpgo.Distinct(3, 2, 1, 3, 7), fpgo.Distinct("a", "b", "a"), fpgo.Distinct(true, true),
			fpgo.UniqBy(func(v int) int { return v % 10 }, 11, 12, 13, 14, 21), fpgo.UniqBy(func(v int) bool { return v%2 == 0 }, 1, 2, 3),
			fpgo.UniqBy(func(v int) string { return fmt.Sprint(v % 2) }, 5, 6, 7),
			fpgo.DistinctForInterface(1, 2, 1), fpgo.Dedupe(1, 1, 2), fpgo.Filter(func(v int, i int) bool { return v > 1 }, 1, 2, 3),
			fpgo.Map(func(v int) int { return v * 2 }, 1, 2), len(fpgo.GroupBy(func(v int) int { return v % 2 }, 1, 2, 3)),
			fpgo.Partition(func(v int) bool { return v > 1 }, 1, 2, 3), fpgo.SliceToMap(0, 1, 2), fpgo.Reduce(func(m, v int) int { return m + v }, 0, 1, 2, 3),
			fpgo.Intersection([]int{1, 2, 2}, []int{2, 3}), fpgo.Minus([]int{1, 2, 3}, []int{3}), len(fpgo.Union([]int{1, 2}, []int{2, 3})))
		const want = "[3 2 1 7] [a b] [true] [11 12 13 14] [1 2] [5 6] [1 2] [1 2] [2 3] [2 4] 2 [[2 3] [1]] map[1:0 2:0] 6 [2] [1 2] 3"
		*evals++
		if got != want {
			r.Violation("C03|after-recovered-panic|wrong-result", fmt.Sprintf("after %s (recovered): the fixed probe calls return %s, want %s", after, got, want), map[string]interface{}{"after": after})
		}
	}
	lists := [][]int{{0, 1, 2, 0, 1}, {2, 2, 1}, {0}}
	for _, l := range lists {
		for k := 1; k <= len(l); k++ {
			n := 0
			tick := func() {
				n++
				if n == k {
					panic("poison")
				}
			}
			calls := []func(){
				func() { fpgo.Map(func(v int) int { tick(); return v }, l...) },
				func() { fpgo.MapIndexed(func(v int, i int) int { tick(); return v }, l...) },
				func() { fpgo.Filter(func(v int, i int) bool { tick(); return true }, l...) },
				func() { fpgo.Reject(func(v int, i int) bool { tick(); return false }, l...) },
				func() { fpgo.Reduce(func(m int, v int) int { tick(); return m + v }, 0, l...) },
				func() { fpgo.DropWhile(func(v int) bool { tick(); return true }, l...) },
				func() { fpgo.Partition(func(v int) bool { tick(); return true }, l...) },
				func() { fpgo.GroupBy(func(v int) int { tick(); return v }, l...) },
				func() { fpgo.UniqBy(func(v int) int { tick(); return v }, l...) },
				func() { fpgo.Every(func(v int) bool { tick(); return true }, l...) },
				func() { fpgo.Some(func(v int) bool { tick(); return false }, l...) },
				func() { fpgo.Sort(func(a, b int) bool { tick(); return a < b }, append([]int{}, l...)) },
			}
			names := []string{"Map", "MapIndexed", "Filter", "Reject", "Reduce", "DropWhile", "Partition", "GroupBy", "UniqBy", "Every", "Some", "Sort"}
			for ci, c := range calls {
				n = 0
				*evals++
				lib.Catch(c)
				probe(fmt.Sprintf("%s over %v whose callback panics at its call #%d", names[ci], l, k))
			}
		}
	}
	// a value that cannot be hashed, behind interface{}
	for _, c := range []func(){
		func() { fpgo.DistinctForInterface(1, []int{1}, 2) },
		func() { fpgo.ExistsForInterface(1, 2, []int{1}) },
		func() { fpgo.SliceToMapForInterface(true, 1, []int{1}, 2) },
	} {
		*evals++
		lib.Catch(c)
		probe("a ForInterface helper given a value that cannot be hashed")
	}
}

func main() {
	r := lib.NewReport("C03")
	defer r.Guard()
	var evals, inputs int64
	maxLen := 4
	if r.Tier == "thorough" {
		maxLen = 5
	}
	// The enumeration is a sequence of calls in one process: it runs three times, under the three sync.Pool
	// policies of the shim (the library is built with its sync import redirected: nothing retained / last
	// put first / first put first), and between the passes every helper that takes a callback is called
	// with callbacks that panic at their k-th invocation (recovered here): a helper's answer is a function
	// of its arguments alone, whatever was called before and however an earlier call ended.
	for pass := 0; pass < 3; pass++ {
		vsched.PoolRetain = pass
		if pass > 0 {
			poison(r, &evals)
		}
		var in2 int64
		ip := &inputs
		if pass > 0 {
			ip = &in2 // inputs are counted once
		}
		(&suite[int]{r: r, tname: "int", sym: func(i int) int { return i }, sentinel: 99, evals: &evals, inputs: ip, maxLen: maxLen, long: true}).run()
		(&suite[string]{r: r, tname: "string", sym: func(i int) string { return []string{"a", "b", ""}[i] }, sentinel: "SENTINEL", evals: &evals, inputs: ip, maxLen: maxLen - 1}).run()
		(&suite[rec]{r: r, tname: "struct", sym: func(i int) rec { return rec{i, strings.Repeat("x", i)} }, sentinel: rec{99, "S"}, evals: &evals, inputs: ip, maxLen: maxLen - 1}).run()
		if pass == 0 {
			// other element kinds: pointers (two distinct ones to equal values, and nil), floats (-0 and an infinity),
			// structs with a pointer field: elements are compared with ==, never by content, text or zero-ness
			sentP := new(int)
			(&suite[*int]{r: r, tname: "*int", sym: func(i int) *int { return []*int{lib.P1, lib.P2, nil}[i] }, sentinel: sentP, evals: &evals, inputs: ip, maxLen: maxLen - 1}).run()
			(&suite[float64]{r: r, tname: "float64", sym: func(i int) float64 { return []float64{math.Copysign(0, -1), 1.5, math.Inf(1)}[i] }, sentinel: 99.5, evals: &evals, inputs: ip, maxLen: maxLen - 1}).run()
			(&suite[lib.Tagged]{r: r, tname: "struct-with-pointer", sym: func(i int) lib.Tagged { return []lib.Tagged{{N: 1, P: lib.P1}, {N: 1, P: lib.P2}, {}}[i] }, sentinel: lib.Tagged{N: 99}, evals: &evals, inputs: ip, maxLen: maxLen - 1}).run()
		}
		mapsAndNumbers(r, &evals, ip)
		wideRanges(r, &evals, ip)
		distinctLadder(r, &evals, ip)
	}
	r.Cov["states"] = inputs
	r.Cov["transitions"] = evals
	r.Cov["traces_validated_against_impl"] = evals
	r.Cov["evaluations"] = evals
	r.Cov["distinct_nontrivial"] = inputs - 3
	r.Cov["rule"] = "states = distinct inputs (lists over 3 symbols up to the length bound, nil, maps as partial functions, (lower, higher, hop) triples); transitions = helper calls on the real functions; non-trivial = non-nil inputs"
	r.Cov["samples"] = []interface{}{"Drop(-1, [0 1 2] with spare capacity [99 99])", "Prepend(a, [a b]) then Prepend(b, same list)", "IsEqualMap({0:1,1:0}, {0:1,2:1})", "SplitEvery(2, [0 1 2])", "Range(-3, 4, 2)"}
	r.Assume = []string{"count / size <= 0 for Take, TakeLast, Drop, DropLast, SplitEvery is not defined by the documentation: only no panic, inputs unchanged and 'result is a contiguous part of the input' are required",
		"IsEqual / IsEqualMap / IsDistinct on empty operands are not defined by the documentation: only no panic"}
	r.Finish()
}
