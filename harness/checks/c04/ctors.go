package main

import (
	"fmt"
	"sort"
	"strconv"
	"strings"

	fpgo "github.com/TeaEntityLab/fpGo/v2"
	"verifharness/lib"
)

// Constructor pass: the searches above start from one constructor per family. Here every constructor of
// every collection kind is applied to every list over {0,1,2} up to length 3 (and nil), and the new
// collection must hold exactly the elements its definition prescribes (sequence for streams, key set
// for sets, key set with one empty stream of its own per key for stream sets); converting constructors
// (FromArrayInt, ...) must give elements of the converted dynamic type and must not alias their source.

func renderIfaces(l []interface{}) string {
	var p []string
	for _, v := range l {
		p = append(p, fmt.Sprintf("%T:%v", v, v))
	}
	return "[" + strings.Join(p, " ") + "]"
}

func renderKeys(l []interface{}) string {
	var p []string
	for _, v := range l {
		p = append(p, fmt.Sprintf("%T:%v", v, v))
	}
	sort.Strings(p)
	return "{" + strings.Join(p, " ") + "}"
}

func constructors(r *lib.Report, states, trans *int64) {
	var lists [][]int
	var gen func(cur []int, n int)
	gen = func(cur []int, n int) {
		if len(cur) == n {
			lists = append(lists, append([]int{}, cur...))
			return
		}
		for v := 0; v < 3; v++ {
			gen(append(cur, v), n)
		}
	}
	lists = append(lists, nil)
	for n := 0; n <= 3; n++ {
		gen(nil, n)
	}
	bad := func(ctor, clause, format string, a ...interface{}) {
		r.Violation("C04|constructor|"+ctor+"|"+clause, fmt.Sprintf(format, a...), map[string]interface{}{"constructor": ctor})
	}
	type conv struct {
		name string
		mk   func(l []int) (*fpgo.StreamForInterfaceDef, func()) // stream + a function that scribbles over the source
		elem func(v int) interface{}
	}
	convs := []conv{
		{"From", func(l []int) (*fpgo.StreamForInterfaceDef, func()) {
			var a []interface{}
			for _, v := range l {
				a = append(a, v)
			}
			return fpgo.StreamForInterface.From(a...), nil
		}, func(v int) interface{} { return v }},
		{"FromArray", func(l []int) (*fpgo.StreamForInterfaceDef, func()) {
			var a []interface{}
			for _, v := range l {
				a = append(a, v)
			}
			return fpgo.StreamForInterface.FromArray(a), nil
		}, func(v int) interface{} { return v }},
		{"FromArrayInt", func(l []int) (*fpgo.StreamForInterfaceDef, func()) {
			s := append([]int{}, l...)
			return fpgo.StreamForInterface.FromArrayInt(s), func() {
				for i := range s {
					s[i] = 77
				}
			}
		}, func(v int) interface{} { return v }},
		{"FromArrayInt8", func(l []int) (*fpgo.StreamForInterfaceDef, func()) {
			var s []int8
			for _, v := range l {
				s = append(s, int8(v))
			}
			return fpgo.StreamForInterface.FromArrayInt8(s), func() {
				for i := range s {
					s[i] = 77
				}
			}
		}, func(v int) interface{} { return int8(v) }},
		{"FromArrayInt16", func(l []int) (*fpgo.StreamForInterfaceDef, func()) {
			var s []int16
			for _, v := range l {
				s = append(s, int16(v))
			}
			return fpgo.StreamForInterface.FromArrayInt16(s), func() {
				for i := range s {
					s[i] = 77
				}
			}
		}, func(v int) interface{} { return int16(v) }},
		{"FromArrayInt32", func(l []int) (*fpgo.StreamForInterfaceDef, func()) {
			var s []int32
			for _, v := range l {
				s = append(s, int32(v))
			}
			return fpgo.StreamForInterface.FromArrayInt32(s), func() {
				for i := range s {
					s[i] = 77
				}
			}
		}, func(v int) interface{} { return int32(v) }},
		{"FromArrayInt64", func(l []int) (*fpgo.StreamForInterfaceDef, func()) {
			var s []int64
			for _, v := range l {
				s = append(s, int64(v))
			}
			return fpgo.StreamForInterface.FromArrayInt64(s), func() {
				for i := range s {
					s[i] = 77
				}
			}
		}, func(v int) interface{} { return int64(v) }},
		{"FromArrayByte", func(l []int) (*fpgo.StreamForInterfaceDef, func()) {
			var s []byte
			for _, v := range l {
				s = append(s, byte(v))
			}
			return fpgo.StreamForInterface.FromArrayByte(s), func() {
				for i := range s {
					s[i] = 77
				}
			}
		}, func(v int) interface{} { return byte(v) }},
		{"FromArrayFloat32", func(l []int) (*fpgo.StreamForInterfaceDef, func()) {
			var s []float32
			for _, v := range l {
				s = append(s, float32(v)+0.5)
			}
			return fpgo.StreamForInterface.FromArrayFloat32(s), func() {
				for i := range s {
					s[i] = 77
				}
			}
		}, func(v int) interface{} { return float32(v) + 0.5 }},
		{"FromArrayFloat64", func(l []int) (*fpgo.StreamForInterfaceDef, func()) {
			var s []float64
			for _, v := range l {
				s = append(s, float64(v)+0.25)
			}
			return fpgo.StreamForInterface.FromArrayFloat64(s), func() {
				for i := range s {
					s[i] = 77
				}
			}
		}, func(v int) interface{} { return float64(v) + 0.25 }},
		{"FromArrayString", func(l []int) (*fpgo.StreamForInterfaceDef, func()) {
			var s []string
			for _, v := range l {
				s = append(s, "s"+strconv.Itoa(v))
			}
			return fpgo.StreamForInterface.FromArrayString(s), func() {
				for i := range s {
					s[i] = "x"
				}
			}
		}, func(v int) interface{} { return "s" + strconv.Itoa(v) }},
		{"FromArrayBool", func(l []int) (*fpgo.StreamForInterfaceDef, func()) {
			var s []bool
			for _, v := range l {
				s = append(s, v%2 == 0)
			}
			return fpgo.StreamForInterface.FromArrayBool(s), func() {
				for i := range s {
					s[i] = !s[i]
				}
			}
		}, func(v int) interface{} { return v%2 == 0 }},
		{"FromArrayMaybe", func(l []int) (*fpgo.StreamForInterfaceDef, func()) {
			var s []fpgo.MaybeDef[interface{}]
			for _, v := range l {
				s = append(s, fpgo.Maybe.Just(v))
			}
			return fpgo.StreamForInterface.FromArrayMaybe(s), func() {
				for i := range s {
					s[i] = fpgo.Maybe.Just(77)
				}
			}
		}, nil},
	}
	for _, l := range lists {
		*states++
		// generic streams
		for _, c := range []struct {
			name string
			mk   func() *fpgo.StreamDef[int]
		}{
			{"StreamFrom", func() *fpgo.StreamDef[int] { return fpgo.StreamFrom(append([]int{}, l...)...) }},
			{"StreamFromArray", func() *fpgo.StreamDef[int] { return fpgo.StreamFromArray(append([]int{}, l...)) }},
		} {
			*trans++
			if p := lib.Catch(func() {
				s := c.mk()
				if got := s.ToArray(); fmt.Sprint(got) != fmt.Sprint(append([]int{}, l...)) || s.Len() != len(l) {
					bad(c.name, "contents", "%s(%v) holds %v (Len %d)", c.name, l, got, s.Len())
				}
			}); p != "" {
				bad(c.name, "panic", "%s(%v): %s", c.name, l, p)
			}
		}
		// interface{} streams, incl. the converting constructors
		for _, c := range convs {
			*trans++
			if p := lib.Catch(func() {
				s, scribble := c.mk(l)
				want := ""
				if c.elem != nil {
					var w []interface{}
					for _, v := range l {
						w = append(w, c.elem(v))
					}
					want = renderIfaces(w)
				} else {
					var w []string
					for _, v := range l {
						w = append(w, fmt.Sprintf("Maybe(%v)", v))
					}
					want = "[" + strings.Join(w, " ") + "]"
				}
				render := func() string {
					if c.elem != nil {
						return renderIfaces(s.ToArray())
					}
					var w []string
					for _, x := range s.ToArray() {
						m, ok := x.(fpgo.MaybeDef[interface{}])
						if !ok {
							w = append(w, fmt.Sprintf("%T", x))
							continue
						}
						w = append(w, fmt.Sprintf("Maybe(%v)", m.Unwrap()))
					}
					return "[" + strings.Join(w, " ") + "]"
				}
				if got := render(); got != want || s.Len() != len(l) {
					bad(c.name, "contents", "%s of %v holds %s (Len %d), want %s", c.name, l, got, s.Len(), want)
				}
				if scribble != nil {
					scribble()
					if got := render(); got != want {
						bad(c.name, "aliases-source", "%s of %v: the stream changed to %s when the source slice was overwritten afterwards", c.name, l, got)
					}
				}
			}); p != "" {
				bad(c.name, "panic", "%s of %v: %s", c.name, l, p)
			}
		}
		// sets
		keys := map[int]bool{}
		for _, v := range l {
			keys[v] = true
		}
		var wantKeys []interface{}
		for k := range keys {
			wantKeys = append(wantKeys, k)
		}
		wk := renderKeys(wantKeys)
		ifl := func() []interface{} {
			var a []interface{}
			for _, v := range l {
				a = append(a, v)
			}
			return a
		}
		gkeys := func(ks []int) string {
			var a []interface{}
			for _, k := range ks {
				a = append(a, k)
			}
			return renderKeys(a)
		}
		m := map[int]int{}
		mi := map[interface{}]interface{}{}
		for k := range keys {
			m[k] = k + 10
			mi[k] = k + 10
		}
		for _, c := range []struct {
			name string
			keys func() (string, int)
		}{
			{"SetFrom", func() (string, int) { s := fpgo.SetFrom[int, int](l...); return gkeys(s.Keys()), s.Size() }},
			{"SetFromArray", func() (string, int) { s := fpgo.SetFromArray[int, int](l); return gkeys(s.Keys()), s.Size() }},
			{"SetFromMap", func() (string, int) {
				s := fpgo.SetFromMap(m)
				for k := range keys {
					if s.Get(k) != k+10 {
						bad("SetFromMap", "values", "SetFromMap(%v).Get(%d) = %v", m, k, s.Get(k))
					}
				}
				return gkeys(s.Keys()), s.Size()
			}},
			{"SetForInterfaceFrom", func() (string, int) {
				s := fpgo.SetForInterfaceFrom(ifl()...)
				return renderKeys(s.Keys()), s.Size()
			}},
			{"SetForInterfaceFromArray", func() (string, int) {
				s := fpgo.SetForInterfaceFromArray(ifl())
				return renderKeys(s.Keys()), s.Size()
			}},
			{"SetForInterfaceFromMap", func() (string, int) {
				s := fpgo.SetForInterfaceFromMap(mi)
				return renderKeys(s.Keys()), s.Size()
			}},
			{"StreamSetFrom", func() (string, int) {
				s := fpgo.StreamSetFrom[int, int](l...)
				distinctStreams("StreamSetFrom", l, bad, func(k int) interface{} { return s.Get(k) })
				return gkeys(s.Keys()), s.Size()
			}},
			{"StreamSetFromArray", func() (string, int) {
				s := fpgo.StreamSetFromArray[int, int](l)
				distinctStreams("StreamSetFromArray", l, bad, func(k int) interface{} { return s.Get(k) })
				return gkeys(s.Keys()), s.Size()
			}},
			{"StreamSetForInterfaceFrom", func() (string, int) {
				s := fpgo.StreamSetForInterfaceFrom(ifl()...)
				distinctStreams("StreamSetForInterfaceFrom", l, bad, func(k int) interface{} { return s.Get(k) })
				return renderKeys(s.Keys()), s.Size()
			}},
			{"StreamSetForInterfaceFromArray", func() (string, int) {
				s := fpgo.StreamSetForInterfaceFromArray(ifl())
				distinctStreams("StreamSetForInterfaceFromArray", l, bad, func(k int) interface{} { return s.Get(k) })
				return renderKeys(s.Keys()), s.Size()
			}},
			{"StreamSetFromInterface", func() (string, int) {
				s := fpgo.StreamSetFromInterface(ifl()...)
				distinctStreams("StreamSetFromInterface", l, bad, func(k int) interface{} { return s.Get(k) })
				return renderKeys(s.Keys()), s.Size()
			}},
			{"StreamSetFromArrayInterface", func() (string, int) {
				s := fpgo.StreamSetFromArrayInterface(ifl())
				distinctStreams("StreamSetFromArrayInterface", l, bad, func(k int) interface{} { return s.Get(k) })
				return renderKeys(s.Keys()), s.Size()
			}},
		} {
			*trans++
			if p := lib.Catch(func() {
				got, size := c.keys()
				if got != wk || size != len(keys) {
					bad(c.name, "contents", "%s of %v has keys %s (Size %d), want %s", c.name, l, got, size, wk)
				}
			}); p != "" {
				bad(c.name, "panic", "%s of %v: %s", c.name, l, p)
			}
		}
	}
	*trans += 2
	if p := lib.Catch(func() {
		if s := fpgo.NewStreamSet[int, int](); s.Size() != 0 || len(s.Keys()) != 0 {
			bad("NewStreamSet", "contents", "NewStreamSet() is not empty")
		}
		if s := fpgo.NewStreamSetForInterface(); s.Size() != 0 || len(s.Keys()) != 0 {
			bad("NewStreamSetForInterface", "contents", "NewStreamSetForInterface() is not empty")
		}
	}); p != "" {
		bad("NewStreamSet", "panic", "%s", p)
	}
}

// payloadStreams: what a stream carries is opaque to it except where an operation is defined on values
// (FilterNotNil drops nil and nil pointers, Distinct / Contains / RemoveItem compare with ==): the payload
// table through the interface{} stream, nil and distinct-but-equal pointers through StreamDef[*int].
func payloadStreams(r *lib.Report, states, trans *int64) {
	bad := func(clause, format string, a ...interface{}) {
		r.Violation("C04|payload-stream|"+clause, fmt.Sprintf(format, a...), nil)
	}
	show := func(l []interface{}) string {
		var p []string
		for _, v := range l {
			p = append(p, lib.Show(v))
		}
		return "[" + strings.Join(p, " ") + "]"
	}
	pay := lib.Payloads()
	*states++
	*trans += 8
	p := lib.Catch(func() {
		s := fpgo.StreamForInterface.FromArray(append([]interface{}{}, pay...))
		var notNil, rev, dist []interface{}
		for _, v := range pay {
			if v != nil && v != interface{}((*int)(nil)) {
				notNil = append(notNil, v)
			}
		}
		for i := len(pay) - 1; i >= 0; i-- {
			rev = append(rev, pay[i])
		}
		for i, v := range pay {
			dup := false
			for _, w := range pay[:i] {
				if w == v {
					dup = true
				}
			}
			if !dup {
				dist = append(dist, v)
			}
		}
		if got := s.FilterNotNil().ToArray(); show(got) != show(notNil) {
			bad("FilterNotNil", "FilterNotNil over the payload table keeps %s, want %s", show(got), show(notNil))
		}
		if got := s.Reverse().ToArray(); show(got) != show(rev) {
			bad("Reverse", "Reverse over the payload table gives %s", show(got))
		}
		if got := s.Distinct().ToArray(); len(got) != len(dist) {
			bad("Distinct", "Distinct over the payload table keeps %s, want the first occurrences under ==: %s", show(got), show(dist))
		}
		for i, v := range pay {
			if !s.Contains(v) || lib.Show(s.Get(i)) != lib.Show(v) {
				bad("Contains", "the stream of the payload table: Contains(%s)=%v, Get(%d)=%s", lib.Show(v), s.Contains(v), i, lib.Show(s.Get(i)))
			}
		}
		if got := s.RemoveItem(nil, lib.P1).ToArray(); len(got) != len(pay)-2 {
			bad("RemoveItem", "RemoveItem(nil, P1) over the payload table leaves %s", show(got))
		}
		if show(s.ToArray()) != show(pay) {
			bad("disturbed", "the stream of the payload table changed to %s", show(s.ToArray()))
		}
		g := fpgo.StreamFromArray([]*int{lib.P1, nil, lib.P2, nil, lib.P1})
		if got := g.FilterNotNil().ToArray(); len(got) != 3 || got[0] != lib.P1 || got[1] != lib.P2 || got[2] != lib.P1 {
			bad("FilterNotNil", "StreamDef[*int] [P1 nil P2 nil P1].FilterNotNil() = %v", got)
		}
		if got := g.Distinct().ToArray(); len(got) != 3 {
			bad("Distinct", "StreamDef[*int] [P1 nil P2 nil P1].Distinct() has %d elements, want 3 (P1, nil, P2: equal pointees are different elements)", len(got))
		}
		if got := g.RemoveItem(lib.P2).ToArray(); len(got) != 4 {
			bad("RemoveItem", "StreamDef[*int] [P1 nil P2 nil P1].RemoveItem(P2) has %d elements, want 4", len(got))
		}
	})
	if p != "" {
		bad("panic", "operations over payload streams: %s", p)
	}
}

// distinctStreams: every key of a freshly constructed stream set has an empty stream of its own.
func distinctStreams(ctor string, l []int, bad func(ctor, clause, format string, a ...interface{}), get func(k int) interface{}) {
	seen := map[string]int{}
	for _, k := range l {
		v := get(k)
		n := -1
		switch s := v.(type) {
		case *fpgo.StreamDef[int]:
			if s != nil {
				n = s.Len()
			}
		case *fpgo.StreamForInterfaceDef:
			if s != nil {
				n = s.Len()
			}
		}
		if n != 0 {
			bad(ctor, "per-key-stream", "%s of %v: key %d holds %T with %d elements, want an empty stream", ctor, l, k, v, n)
			continue
		}
		id := fmt.Sprintf("%p", v)
		if other, ok := seen[id]; ok && other != k {
			bad(ctor, "per-key-stream-shared", "%s of %v: keys %d and %d hold the same stream object", ctor, l, other, k)
		}
		seen[id] = k
	}
}
