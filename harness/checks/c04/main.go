// C04: Stream / Set / StreamSet are persistent — operations never disturb receiver or arguments.
// Engine E2: breadth-first search over programs (operation histories) applied to a pool of live
// collections, for the generic and the interface{} family; after every step EVERY live collection
// is compared with its model; states are de-duplicated on contents + object identity + backing-array
// sharing of all live collections.
package main

import (
	"fmt"
	"sort"
	"strings"

	"verifharness/lib"
	"verifharness/lib/coll"
)

// ---------- streams ----------

type sop struct {
	name         string
	arity        int // 0: receiver only, 1: receiver + another live stream
	apply        func(r, a coll.Stream) coll.Stream
	model        func(r, a []int) []int
	inPlaceIface bool // interface{} Remove: documented in-place mutator (receiver becomes the result)
}

func even(v, i int) bool { return v%2 == 0 }

func without(l []int, drop map[int]bool) []int {
	out := []int{}
	for _, v := range l {
		if !drop[v] {
			out = append(out, v)
		}
	}
	return out
}

func setOf(l []int) map[int]bool {
	m := map[int]bool{}
	for _, v := range l {
		m[v] = true
	}
	return m
}

func distinct(l []int) []int {
	out := []int{}
	seen := map[int]bool{}
	for _, v := range l {
		if !seen[v] {
			seen[v] = true
			out = append(out, v)
		}
	}
	return out
}

func streamOps() []sop {
	cp := func(l []int) []int { return append([]int{}, l...) }
	ops := []sop{
		{"Map(+10)", 0, func(r, a coll.Stream) coll.Stream { return r.Map(func(v, i int) int { return v + 10 }) }, func(r, a []int) []int {
			o := cp(r)
			for i := range o {
				o[i] += 10
			}
			return o
		}, false},
		{"Filter(even)", 0, func(r, a coll.Stream) coll.Stream { return r.Filter(even) }, func(r, a []int) []int {
			o := []int{}
			for _, v := range r {
				if v%2 == 0 {
					o = append(o, v)
				}
			}
			return o
		}, false},
		{"Reject(even)", 0, func(r, a coll.Stream) coll.Stream { return r.Reject(even) }, func(r, a []int) []int {
			o := []int{}
			for _, v := range r {
				if v%2 != 0 {
					o = append(o, v)
				}
			}
			return o
		}, false},
		{"FilterNotNil", 0, func(r, a coll.Stream) coll.Stream { return r.FilterNotNil() }, func(r, a []int) []int { return cp(r) }, false},
		{"Distinct", 0, func(r, a coll.Stream) coll.Stream { return r.Distinct() }, func(r, a []int) []int { return distinct(r) }, false},
		{"Append(9)", 0, func(r, a coll.Stream) coll.Stream { return r.Append(9) }, func(r, a []int) []int { return append(cp(r), 9) }, false},
		{"Append(8,8)", 0, func(r, a coll.Stream) coll.Stream { return r.Append(8, 8) }, func(r, a []int) []int { return append(cp(r), 8, 8) }, false},
		{"Append()", 0, func(r, a coll.Stream) coll.Stream { return r.Append() }, func(r, a []int) []int { return cp(r) }, false},
		{"Concat([7])", 0, func(r, a coll.Stream) coll.Stream { return r.Concat([]int{7}) }, func(r, a []int) []int { return append(cp(r), 7) }, false},
		{"Concat()", 0, func(r, a coll.Stream) coll.Stream { return r.Concat() }, func(r, a []int) []int { return cp(r) }, false},
		{"Concat(a's own slice)", 1, func(r, a coll.Stream) coll.Stream { return r.ConcatStream(a) }, func(r, a []int) []int { return append(cp(r), a...) }, false},
		{"Extend(a)", 1, func(r, a coll.Stream) coll.Stream { return r.Extend(a) }, func(r, a []int) []int { return append(cp(r), a...) }, false},
		{"Extend()", 0, func(r, a coll.Stream) coll.Stream { return r.Extend() }, func(r, a []int) []int { return cp(r) }, false},
		{"RemoveItem(2)", 0, func(r, a coll.Stream) coll.Stream { return r.RemoveItem(2) }, func(r, a []int) []int { return without(r, map[int]bool{2: true}) }, false},
		{"RemoveItem()", 0, func(r, a coll.Stream) coll.Stream { return r.RemoveItem() }, func(r, a []int) []int { return cp(r) }, false},
		{"Reverse", 0, func(r, a coll.Stream) coll.Stream { return r.Reverse() }, func(r, a []int) []int {
			o := cp(r)
			for i, j := 0, len(o)-1; i < j; i, j = i+1, j-1 {
				o[i], o[j] = o[j], o[i]
			}
			return o
		}, false},
		{"Sort(asc)", 0, func(r, a coll.Stream) coll.Stream { return r.Sort(func(x, y int) bool { return x < y }) }, func(r, a []int) []int {
			o := cp(r)
			sort.SliceStable(o, func(i, j int) bool { return o[i] < o[j] })
			return o
		}, false},
		{"Sort(by v/10)", 0, func(r, a coll.Stream) coll.Stream { return r.Sort(func(x, y int) bool { return x/10 < y/10 }) }, func(r, a []int) []int {
			o := cp(r) // elements the comparator does not distinguish keep their order
			sort.SliceStable(o, func(i, j int) bool { return o[i]/10 < o[j]/10 })
			return o
		}, false},
		{"Sort(by distance to the receiver's last item; the comparator reads the receiver)", 0, func(r, a coll.Stream) coll.Stream {
			if r.Len() == 0 {
				return r.Sort(func(x, y int) bool { return x < y })
			}
			dist := func(v int) int {
				d := v - r.Get(r.Len()-1) // the receiver must hold its elements while it is being sorted, too
				if d < 0 {
					d = -d
				}
				return d
			}
			return r.Sort(func(x, y int) bool { return dist(x) < dist(y) })
		}, func(r, a []int) []int {
			o := cp(r)
			if len(o) == 0 {
				return o
			}
			last := o[len(o)-1]
			dist := func(v int) int {
				if v < last {
					return last - v
				}
				return v - last
			}
			sort.SliceStable(o, func(i, j int) bool { return dist(o[i]) < dist(o[j]) })
			return o
		}, false},
		{"Sort(desc; the comparator panics at its 2nd call, the caller recovers) then Clone", 0, func(r, a coll.Stream) coll.Stream {
			// a failed operation disturbs nothing either: afterwards the receiver (and everything else) holds what it held
			calls := 0
			var out coll.Stream
			if p := lib.Catch(func() {
				out = r.Sort(func(x, y int) bool {
					calls++
					if calls == 2 {
						panic("comparator failure")
					}
					return x > y
				})
			}); p != "" {
				return r.Clone()
			}
			return out
		}, func(r, a []int) []int {
			o := cp(r)
			if len(o) < 3 { // fewer than two comparisons: the sort completes
				sort.SliceStable(o, func(i, j int) bool { return o[i] > o[j] })
			}
			return o
		}, false},
		{"SortByIndex(desc)", 0, func(r, a coll.Stream) coll.Stream {
			// the usual sort.Slice idiom: the comparator indexes the array being sorted, which the
			// stream shares with the caller while SortByIndex runs
			return r.SortByIndex(func(s coll.Stream, i, j int) bool { return s.Get(i) > s.Get(j) })
		}, func(r, a []int) []int {
			o := cp(r)
			sort.SliceStable(o, func(i, j int) bool { return o[i] > o[j] })
			return o
		}, false},
		{"Minus(a)", 1, func(r, a coll.Stream) coll.Stream { return r.Minus(a) }, func(r, a []int) []int { return without(r, setOf(a)) }, false},
		{"Intersection(a)", 1, func(r, a coll.Stream) coll.Stream { return r.Intersection(a) }, func(r, a []int) []int {
			in := setOf(a)
			o := []int{}
			for _, v := range distinct(r) {
				if in[v] {
					o = append(o, v)
				}
			}
			return o
		}, false},
		{"Clone", 0, func(r, a coll.Stream) coll.Stream { return r.Clone() }, func(r, a []int) []int { return cp(r) }, false},
	}
	for _, idx := range []int{-1, 0, 1, 2, 100} {
		idx := idx
		ops = append(ops, sop{fmt.Sprintf("Remove(%d)", idx), 0, func(r, a coll.Stream) coll.Stream { return r.Remove(idx) }, func(r, a []int) []int {
			if idx < 0 || idx >= len(r) {
				return cp(r)
			}
			return append(cp(r[:idx]), r[idx+1:]...)
		}, true})
	}
	return ops
}

type step struct{ op, r, a int }

type streamWorld struct {
	live  []coll.Stream
	model []*[]int // per handle: pointer to the model content (shared pointer = same object)
}

func eqInts(a, b []int) bool {
	if len(a) != len(b) {
		return false
	}
	for i := range a {
		if a[i] != b[i] {
			return false
		}
	}
	return true
}

// streamRoots is the initial pool of the stream search.
var streamRoots = [][]int{{1, 2, 3, 4}, {2, 2}, {}}

// longStreamRoots: the same search, depth 2, from long streams (any size threshold in an operation).
func longStreamRoots() [][]int {
	a, b := make([]int, 70), make([]int, 33)
	for i := range a {
		a[i] = (i*7)%40 + 1
	}
	for i := range b {
		b[i] = i%5 + 1
	}
	return [][]int{a, b, {}}
}

// runStreams replays a program on a fresh pool; returns failure text/clause or the canonical key.
func runStreams(family string, ops []sop, prog []step) (fail, clause, key string) {
	lib.Beat(nil) // progress mark for the hang watchdog (every replay)
	mk := coll.NewG
	if family == "interface{}" {
		mk = coll.NewI
	}
	w := &streamWorld{}
	for _, init := range streamRoots {
		c := append([]int{}, init...)
		w.live = append(w.live, mk(init))
		w.model = append(w.model, &c)
	}
	descr := func(i int) string {
		s := prog[i]
		d := fmt.Sprintf("#%d.%s", s.r, ops[s.op].name)
		if ops[s.op].arity == 1 {
			d += fmt.Sprintf("[a=#%d]", s.a)
		}
		return d
	}
	for si, s := range prog {
		op := ops[s.op]
		r := w.live[s.r]
		var a coll.Stream
		var am []int
		if op.arity == 1 {
			a = w.live[s.a]
			am = *w.model[s.a]
		}
		want := op.model(*w.model[s.r], am)
		var res coll.Stream
		if p := lib.Catch(func() { res = op.apply(r, a) }); p != "" {
			return fmt.Sprintf("step %d %s: %s", si, descr(si), p), "panic|" + op.name, ""
		}
		// identity: the result may be an existing object (then it IS that object) - the receiver, as some
		// operations of the library do when there is nothing to do; but not the ARGUMENT: the caller only lent it,
		// and an in-place mutator applied to "the result" would then rewrite it
		if op.arity == 1 && s.a != s.r && res.ID() == a.ID() && w.live[s.r].ID() != a.ID() {
			return fmt.Sprintf("step %d %s returned its argument itself (not a collection of its own): a later in-place mutation of the result rewrites the argument", si, descr(si)), "result-is-the-argument|" + op.name, ""
		}
		var mp *[]int
		for i, l := range w.live {
			if l.ID() == res.ID() {
				mp = w.model[i]
			}
		}
		if op.inPlaceIface && family == "interface{}" {
			// documented in-place mutator: the receiver becomes the result
			*w.model[s.r] = want
			if mp == nil || mp != w.model[s.r] {
				c := append([]int{}, want...)
				mp = &c
			}
		} else if mp == nil {
			c := append([]int{}, want...)
			mp = &c
		}
		w.live = append(w.live, res)
		w.model = append(w.model, mp)
		if got := res.ToArray(); !eqInts(got, want) {
			return fmt.Sprintf("step %d %s returned %v, its definition gives %v", si, descr(si), got, want), "wrong-result|" + op.name, ""
		}
		// every live collection still holds what its model says
		for i, l := range w.live {
			var got []int
			if p := lib.Catch(func() { got = l.ToArray() }); p != "" {
				return fmt.Sprintf("after step %d %s: ToArray of #%d: %s", si, descr(si), i, p), "panic|observer", ""
			}
			if !eqInts(got, *w.model[i]) {
				who := "an earlier collection"
				if i == s.r {
					who = "the receiver"
				} else if op.arity == 1 && i == s.a {
					who = "the argument"
				}
				return fmt.Sprintf("after step %d %s: %s #%d now holds %v, it held %v (program: %s)", si, descr(si), who, i, got, *w.model[i], progString(ops, prog[:si+1])), "disturbed|" + op.name, ""
			}
			if l.Len() != len(got) {
				return fmt.Sprintf("Len() of #%d = %d, ToArray has %d", i, l.Len(), len(got)), "observer|Len", ""
			}
			for k := range got {
				if l.Get(k) != got[k] {
					return fmt.Sprintf("Get(%d) of #%d = %d, ToArray has %d", k, i, l.Get(k), got[k]), "observer|Get", ""
				}
			}
			if l.Contains(2) != setOf(got)[2] {
				return fmt.Sprintf("Contains(2) of #%d = %v, elements %v", i, l.Contains(2), got), "observer|Contains", ""
			}
			// ToArray is detached
			if len(got) > 0 {
				got[0] = -777
				if again := l.ToArray(); !eqInts(again, *w.model[i]) {
					return fmt.Sprintf("writing into the slice returned by ToArray changed collection #%d to %v", i, again), "toarray-not-detached", ""
				}
			}
		}
	}
	// canonical key: contents, object identity classes, backing-array sharing and spare capacity
	var b strings.Builder
	ids := map[interface{}]int{}
	backs := map[*byte]int{}
	for i, l := range w.live {
		id, ok := ids[l.ID()]
		if !ok {
			id = len(ids)
			ids[l.ID()] = id
		}
		first, capacity := l.Backing()
		bk := -1
		if first != nil {
			var ok2 bool
			bk, ok2 = backs[first]
			if !ok2 {
				bk = len(backs)
				backs[first] = bk
			}
		}
		fmt.Fprintf(&b, "%d:o%d:b%d:c%d:%v;", i, id, bk, capacity-len(*w.model[i]), *w.model[i])
	}
	return "", "", b.String()
}

func progString(ops []sop, prog []step) string {
	var parts []string
	for _, s := range prog {
		d := fmt.Sprintf("#%d.%s", s.r, ops[s.op].name)
		if ops[s.op].arity == 1 {
			d += fmt.Sprintf("[a=#%d]", s.a)
		}
		parts = append(parts, d)
	}
	return strings.Join(parts, " ; ")
}

func searchStreams(r *lib.Report, family string, depth int, states, trans *int64, samples *lib.Samples) {
	ops := streamOps()
	seen := map[string]bool{}
	_, _, k0 := runStreams(family, ops, nil)
	seen[k0] = true
	frontier := [][]step{{}}
	for d := 0; d < depth; d++ {
		var next [][]step
		for _, prog := range frontier {
			pool := 3 + len(prog)
			for oi, op := range ops {
				for rr := 0; rr < pool; rr++ {
					amax := 1
					if op.arity == 1 {
						amax = pool
					}
					for aa := 0; aa < amax; aa++ {
						np := append(append([]step{}, prog...), step{oi, rr, aa})
						*trans++
						lib.Beat(nil)
						fail, clause, key := runStreams(family, ops, np)
						if fail != "" {
							r.Violation(fmt.Sprintf("C04|stream-%s|%s", family, clause), fail, map[string]interface{}{"family": family, "program": progString(ops, np), "failure": fail, "initial_pool": fmt.Sprintf("%v; each step appends its result to the pool", streamRoots)})
							continue
						}
						if !seen[key] {
							seen[key] = true
							next = append(next, np)
							if len(np) == 3 {
								samples.Add(family + ": " + progString(ops, np))
							}
						}
					}
				}
			}
		}
		frontier = next
	}
	*states += int64(len(seen))
}

// ---------- sets ----------

type mop struct {
	name    string
	arity   int
	apply   func(r, a coll.Set) coll.Set // nil result: in-place mutator
	model   func(r, a map[int]int) map[int]int
	inPlace bool
}

// pairPass: sharing with something OUTSIDE the pool (a package-level empty collection, a cached result, a
// per-type scratch object) cannot be part of a state key, so the breadth-first search merges "fresh empty
// result" with "result that shares a hidden global" and may never put two results of the same call into one
// program. This pass therefore runs EVERY program of two operations (no de-duplication) followed by one
// revealing step - an operation that writes in place (Set on a set; Remove on the interface{} stream) or
// works in place before restoring (SortByIndex) - on each collection of the pool.
func pairPass(r *lib.Report, family string, trans *int64) {
	sops := streamOps()
	var reveal []int
	for i, op := range sops {
		if strings.HasPrefix(op.name, "SortByIndex") || (op.inPlaceIface && family == "interface{}") {
			reveal = append(reveal, i)
		}
	}
	for o1, op1 := range sops {
		for r1 := 0; r1 < 3; r1++ {
			for a1 := 0; a1 < 1+2*op1.arity; a1++ {
				for o2, op2 := range sops {
					for r2 := 0; r2 < 4; r2++ {
						for a2 := 0; a2 < 1+3*op2.arity; a2++ {
							for _, o3 := range reveal {
								for r3 := 3; r3 < 5; r3++ { // the revealing step on either result
									np := []step{{o1, r1, a1}, {o2, r2, a2}, {o3, r3, 0}}
									*trans++
									if fail, clause, _ := runStreams(family, sops, np); fail != "" {
										r.Violation(fmt.Sprintf("C04|stream-%s|%s", family, clause), fail, map[string]interface{}{"family": family, "program": progString(sops, np), "failure": fail, "initial_pool": fmt.Sprintf("%v; each step appends its result to the pool", streamRoots)})
									}
								}
							}
						}
					}
				}
			}
		}
	}
	mops := setOps()
	setOp := -1
	for i, op := range mops {
		if op.inPlace {
			setOp = i
		}
	}
	for o1, op1 := range mops {
		if op1.inPlace {
			continue
		}
		for r1 := 0; r1 < 3; r1++ {
			for a1 := 0; a1 < 1+2*op1.arity; a1++ {
				for o2, op2 := range mops {
					if op2.inPlace {
						continue
					}
					for r2 := 0; r2 < 4; r2++ {
						for a2 := 0; a2 < 1+3*op2.arity; a2++ {
							for r3 := 3; r3 < 5; r3++ {
								np := []step{{o1, r1, a1}, {o2, r2, a2}, {setOp, r3, 0}}
								*trans++
								if fail, clause, _ := runSets(family, mops, np); fail != "" {
									r.Violation(fmt.Sprintf("C04|set-%s|%s", family, clause), fail, map[string]interface{}{"family": family, "failure": fail, "initial_pool": "#0={1:10 2:20} #1={2:7 3:30} #2={}"})
								}
							}
						}
					}
				}
			}
		}
	}
}

func cpm(m map[int]int) map[int]int {
	o := map[int]int{}
	for k, v := range m {
		o[k] = v
	}
	return o
}

func setOps() []mop {
	return []mop{
		{"Add(3)", 0, func(r, a coll.Set) coll.Set { return r.Add(3) }, func(r, a map[int]int) map[int]int {
			o := cpm(r)
			if _, ok := o[3]; !ok {
				o[3] = 0
			}
			return o
		}, false},
		{"Add(1,4)", 0, func(r, a coll.Set) coll.Set { return r.Add(1, 4) }, func(r, a map[int]int) map[int]int {
			o := cpm(r)
			for _, k := range []int{1, 4} {
				if _, ok := o[k]; !ok {
					o[k] = 0
				}
			}
			return o
		}, false},
		{"Add()", 0, func(r, a coll.Set) coll.Set { return r.Add() }, func(r, a map[int]int) map[int]int { return cpm(r) }, false},
		{"RemoveKeys(1)", 0, func(r, a coll.Set) coll.Set { return r.RemoveKeys(1) }, func(r, a map[int]int) map[int]int { o := cpm(r); delete(o, 1); return o }, false},
		{"RemoveKeys()", 0, func(r, a coll.Set) coll.Set { return r.RemoveKeys() }, func(r, a map[int]int) map[int]int { return cpm(r) }, false},
		{"RemoveValues(20)", 0, func(r, a coll.Set) coll.Set { return r.RemoveValues(20) }, func(r, a map[int]int) map[int]int {
			o := cpm(r)
			for k, v := range r {
				if v == 20 {
					delete(o, k)
				}
			}
			return o
		}, false},
		{"MapValue(+1)", 0, func(r, a coll.Set) coll.Set { return r.MapValue(func(v int) int { return v + 1 }) }, func(r, a map[int]int) map[int]int {
			o := map[int]int{}
			for k, v := range r {
				o[k] = v + 1
			}
			return o
		}, false},
		{"MapKey(+100)", 0, func(r, a coll.Set) coll.Set { return r.MapKey(func(k int) int { return k + 100 }) }, func(r, a map[int]int) map[int]int {
			o := map[int]int{}
			for k, v := range r {
				o[k+100] = v
			}
			return o
		}, false},
		{"Union(a)", 1, func(r, a coll.Set) coll.Set { return r.Union(a) }, func(r, a map[int]int) map[int]int {
			o := cpm(r)
			for k, v := range a {
				o[k] = v
			}
			return o
		}, false},
		{"Intersection(a)", 1, func(r, a coll.Set) coll.Set { return r.Intersection(a) }, func(r, a map[int]int) map[int]int {
			o := map[int]int{}
			for k, v := range r {
				if _, ok := a[k]; ok {
					o[k] = v
				}
			}
			return o
		}, false},
		{"Minus(a)", 1, func(r, a coll.Set) coll.Set { return r.Minus(a) }, func(r, a map[int]int) map[int]int {
			o := map[int]int{}
			for k, v := range r {
				if _, ok := a[k]; !ok {
					o[k] = v
				}
			}
			return o
		}, false},
		{"Clone", 0, func(r, a coll.Set) coll.Set { return r.Clone() }, func(r, a map[int]int) map[int]int { return cpm(r) }, false},
		{"Set(5,50)", 0, func(r, a coll.Set) coll.Set { r.SetKV(5, 50); return nil }, func(r, a map[int]int) map[int]int { o := cpm(r); o[5] = 50; return o }, true},
	}
}

// keysOnly: the interface{} set family keeps its own placeholder values under keys it adds or
// intersects, so its sets are compared by key.
var keysOnly bool

func renderMap(m map[int]int) string {
	if keysOnly {
		return fmt.Sprint(sortedKeys(m))
	}
	return renderMapFull(m)
}

func renderMapFull(m map[int]int) string {
	var ks []int
	for k := range m {
		ks = append(ks, k)
	}
	sort.Ints(ks)
	s := ""
	for _, k := range ks {
		s += fmt.Sprintf("%d:%d ", k, m[k])
	}
	return "{" + s + "}"
}

// valueInsensitive: keys added by Add carry the family's own zero value; the interface{} Intersection /
// Union of sets keep the values the family chose. Sets are compared by key, and by value where the
// model is sure (values set through Set / the constructor).
func runSets(family string, ops []mop, prog []step) (fail, clause, key string) {
	lib.Beat(nil) // progress mark for the hang watchdog (every replay)
	mk := coll.NewGSet
	keysOnly = false
	if family == "interface{}" {
		mk = coll.NewISet
		keysOnly = true
	}
	var live []coll.Set
	var model []*map[int]int
	for _, init := range []map[int]int{{1: 10, 2: 20}, {2: 7, 3: 30}, {}} {
		c := cpm(init)
		live = append(live, mk(init))
		model = append(model, &c)
	}
	progStr := func(n int) string {
		var parts []string
		for _, s := range prog[:n] {
			d := fmt.Sprintf("#%d.%s", s.r, ops[s.op].name)
			if ops[s.op].arity == 1 {
				d += fmt.Sprintf("[a=#%d]", s.a)
			}
			parts = append(parts, d)
		}
		return strings.Join(parts, " ; ")
	}
	for si, s := range prog {
		op := ops[s.op]
		var a coll.Set
		var am map[int]int
		if op.arity == 1 {
			a, am = live[s.a], *model[s.a]
		}
		want := op.model(*model[s.r], am)
		var res coll.Set
		if p := lib.Catch(func() { res = op.apply(live[s.r], a) }); p != "" {
			return fmt.Sprintf("%s: %s", progStr(si+1), p), "panic|" + op.name, ""
		}
		if op.inPlace {
			*model[s.r] = want
		} else {
			if op.arity == 1 && s.a != s.r && res.ID() == a.ID() && live[s.r].ID() != a.ID() {
				return fmt.Sprintf("%s returned its argument itself (not a set of its own): Set on the result then rewrites the argument", progStr(si+1)), "result-is-the-argument|" + op.name, ""
			}
			var mp *map[int]int
			for i, l := range live {
				if l.ID() == res.ID() {
					mp = model[i]
				}
			}
			if mp == nil {
				c := cpm(want)
				mp = &c
			}
			live = append(live, res)
			model = append(model, mp)
			if got := res.AsMap(); renderMap(got) != renderMap(want) {
				return fmt.Sprintf("%s returned %s, its definition gives %s", progStr(si+1), renderMap(got), renderMap(want)), "wrong-result|" + op.name, ""
			}
		}
		for i, l := range live {
			got := l.AsMap()
			if renderMap(got) != renderMap(*model[i]) {
				return fmt.Sprintf("after %s: collection #%d now holds %s, it held %s", progStr(si+1), i, renderMap(got), renderMap(*model[i])), "disturbed|" + op.name, ""
			}
			if l.Size() != len(got) || l.ContainsKey(2) != hasKey(got, 2) || fmt.Sprint(l.KeysSorted()) != fmt.Sprint(sortedKeys(got)) {
				return fmt.Sprintf("observers of #%d disagree with its content %s", i, renderMap(got)), "observer", ""
			}
		}
	}
	var b strings.Builder
	ids := map[interface{}]int{}
	for i, l := range live {
		id, ok := ids[l.ID()]
		if !ok {
			id = len(ids)
			ids[l.ID()] = id
		}
		// which handles share one underlying Go map is part of the state (a later Set shows through)
		var mid int
		if mp := l.MapID(); mp != 0 {
			k := fmt.Sprintf("map@%d", mp)
			var ok2 bool
			mid, ok2 = ids[k]
			if !ok2 {
				mid = len(ids)
				ids[k] = mid
			}
		} else {
			mid = -1
		}
		fmt.Fprintf(&b, "%d:o%d:m%d:%s;", i, id, mid, renderMap(*model[i]))
	}
	return "", "", b.String()
}

func hasKey(m map[int]int, k int) bool { _, ok := m[k]; return ok }
func sortedKeys(m map[int]int) []int {
	ks := []int{}
	for k := range m {
		ks = append(ks, k)
	}
	sort.Ints(ks)
	return ks
}

func searchSets(r *lib.Report, family string, depth int, states, trans *int64, samples *lib.Samples) {
	ops := setOps()
	seen := map[string]bool{}
	frontier := [][]step{{}}
	for d := 0; d < depth; d++ {
		var next [][]step
		for _, prog := range frontier {
			pool := 3
			for _, s := range prog {
				if !ops[s.op].inPlace {
					pool++
				}
			}
			for oi, op := range ops {
				for rr := 0; rr < pool; rr++ {
					amax := 1
					if op.arity == 1 {
						amax = pool
					}
					for aa := 0; aa < amax; aa++ {
						np := append(append([]step{}, prog...), step{oi, rr, aa})
						*trans++
						fail, clause, key := runSets(family, ops, np)
						if fail != "" {
							r.Violation(fmt.Sprintf("C04|set-%s|%s", family, clause), fail, map[string]interface{}{"family": family, "failure": fail, "initial_pool": "#0={1:10 2:20} #1={2:7 3:30} #2={}"})
							continue
						}
						if !seen[key] {
							seen[key] = true
							next = append(next, np)
						}
					}
				}
			}
		}
		frontier = next
	}
	*states += int64(len(seen))
}

func main() {
	r := lib.NewReport("C04")
	defer r.Guard()
	lib.WatchHangs(func(d interface{}) {
		r.Violation("C04|hang", "an operation did not return within 30 s", nil)
		r.NotExhaustive("stopped at a non-returning operation")
		r.Cov["states"], r.Cov["transitions"], r.Cov["traces_validated_against_impl"], r.Cov["samples"] = 1, 1, 1, []interface{}{"hang"}
		r.Finish()
	})
	var states, trans int64
	var samples lib.Samples
	samples.N = 6
	sd, md, ssd := 3, 3, 3
	if r.Tier == "thorough" {
		sd, md, ssd = 4, 4, 4
	}
	for _, fam := range []string{"generic", "interface{}"} {
		searchStreams(r, fam, sd, &states, &trans, &samples)
		short := streamRoots
		streamRoots = longStreamRoots()
		searchStreams(r, fam, 2, &states, &trans, &samples)
		// mid-sized roots (9 distinct values; 16 values with duplicates): sizes at which sorts, de-duplication and
		// capacity growth may change strategy
		mid9, mid16 := make([]int, 9), make([]int, 16)
		for i := range mid9 {
			mid9[i] = 9 - i
		}
		for i := range mid16 {
			mid16[i] = (i*7)%9 + 1
		}
		streamRoots = [][]int{mid9, mid16, {}}
		searchStreams(r, fam, 2, &states, &trans, &samples)
		streamRoots = short
		searchSets(r, fam, md, &states, &trans, &samples)
		searchStreamSets(r, fam, ssd, &states, &trans, &samples)
		pairPass(r, fam, &trans)
	}
	constructors(r, &states, &trans)
	payloadStreams(r, &states, &trans)
	r.Cov["states"] = states
	r.Cov["transitions"] = trans
	r.Cov["traces_validated_against_impl"] = trans
	r.Cov["evaluations"] = trans
	r.Cov["distinct_nontrivial"] = states
	r.Cov["rule"] = "a state is the canonical form of the whole pool of live collections after a program: contents, which handles are the same object, which streams share a backing array, spare capacity; transitions = programs executed on fresh real collections with every live collection re-observed after every step"
	r.Cov["samples"] = samples.List
	r.Cov["bound"] = fmt.Sprintf("program depth %d (streams), %d (sets), %d (stream sets); both families", sd, md, ssd)
	r.Assume = []string{"constructors adopt the slice / map they are given (the harness hands over fresh ones and never looks at them again)",
		"a result that is the same object as an existing collection (e.g. Minus(empty) returning the receiver) is modelled as that object"}
	r.Finish()
}
