package main

import (
	"fmt"
	"strings"

	"verifharness/lib"
	"verifharness/lib/coll"
)

// ---------- stream sets ----------
// Model: per handle a map key -> contents. Operations must return the prescribed contents and leave
// every earlier stream set untouched. In addition the documented in-place mutator of the interface{}
// family (Remove on a stream taken out of a stream set) may change only the stream set it was taken
// from (and objects that ARE that stream set).

type ssop struct {
	name  string
	arity int
	apply func(r, a coll.StreamSet) coll.StreamSet
	model func(r, a map[string][]int) (map[string][]int, map[string]bool) // content, keys whose content the definition leaves open
}

func cpss(m map[string][]int) map[string][]int {
	o := map[string][]int{}
	for k, v := range m {
		if v == nil {
			o[k] = nil
		} else {
			o[k] = append([]int{}, v...)
		}
	}
	return o
}

func ssOps() []ssop {
	return []ssop{
		{"Union(a)", 1, func(r, a coll.StreamSet) coll.StreamSet { return r.Union(a) }, func(r, a map[string][]int) (map[string][]int, map[string]bool) {
			o, open := cpss(r), map[string]bool{}
			for k, v := range a {
				if mine, ok := r[k]; ok {
					if len(v) == 0 || len(mine) == 0 {
						open[k] = true // empty / nil per-key stream on one side: not fixed by the definition
					}
					o[k] = append(append([]int{}, mine...), v...)
				} else {
					o[k] = append([]int(nil), v...)
					if v != nil && o[k] == nil {
						o[k] = []int{}
					}
				}
			}
			return o, open
		}},
		{"Intersection(a)", 1, func(r, a coll.StreamSet) coll.StreamSet { return r.Intersection(a) }, func(r, a map[string][]int) (map[string][]int, map[string]bool) {
			o, open := map[string][]int{}, map[string]bool{}
			for k, mine := range r {
				v, ok := a[k]
				if !ok {
					continue
				}
				if len(v) == 0 || len(mine) == 0 {
					open[k] = true
				}
				in := setOf(v)
				o[k] = []int{}
				for _, x := range distinct(mine) {
					if in[x] {
						o[k] = append(o[k], x)
					}
				}
			}
			return o, open
		}},
		{"MinusStreams(a)", 1, func(r, a coll.StreamSet) coll.StreamSet { return r.MinusStreams(a) }, func(r, a map[string][]int) (map[string][]int, map[string]bool) {
			o, open := cpss(r), map[string]bool{}
			if len(a) == 0 {
				return nil, nil // empty operand: not fixed by the definition (skip the content check)
			}
			for k, mine := range r {
				if v, ok := a[k]; ok {
					if len(v) == 0 || len(mine) == 0 {
						open[k] = true
					}
					o[k] = without(mine, setOf(v))
				}
			}
			return o, open
		}},
		{"Minus(a)", 1, func(r, a coll.StreamSet) coll.StreamSet { return r.Minus(a) }, func(r, a map[string][]int) (map[string][]int, map[string]bool) {
			if len(a) == 0 {
				return nil, nil
			}
			o := map[string][]int{}
			for k, v := range r {
				if _, ok := a[k]; !ok {
					o[k] = v
				}
			}
			return o, map[string]bool{}
		}},
		{"Clone", 0, func(r, a coll.StreamSet) coll.StreamSet { return r.Clone() }, func(r, a map[string][]int) (map[string][]int, map[string]bool) { return cpss(r), map[string]bool{} }},
	}
}

func sameSS(got, want map[string][]int, open map[string]bool) bool {
	if len(got) != len(want) {
		return false
	}
	for k, w := range want {
		g, ok := got[k]
		if !ok {
			return false
		}
		if open[k] {
			continue
		}
		if !eqInts(g, w) {
			return false
		}
	}
	return true
}

// a step with op == -1 is the nested in-place mutation: take the stream under key "k" out of stream
// set #r and Remove(0) it (interface{} family only).
func runStreamSets(family string, ops []ssop, prog []step) (fail, clause, key string) {
	lib.Beat(nil) // progress mark for the hang watchdog (every replay)
	mk := coll.NewGSS
	if family == "interface{}" {
		mk = coll.NewISS
	}
	var live []coll.StreamSet
	var model []*map[string][]int
	for _, init := range []map[string][]int{{"k": {1, 2, 3}, "j": {4}}, {"k": {2, 5}, "m": {6, 6}}, {"j": {4, 7}}} {
		c := cpss(init)
		live = append(live, mk(init))
		model = append(model, &c)
	}
	ps := func(n int) string {
		var parts []string
		for _, s := range prog[:n] {
			if s.op < 0 {
				parts = append(parts, fmt.Sprintf("#%d.Get(k).Remove(0)", s.r))
				continue
			}
			d := fmt.Sprintf("#%d.%s", s.r, ops[s.op].name)
			if ops[s.op].arity == 1 {
				d += fmt.Sprintf("[a=#%d]", s.a)
			}
			parts = append(parts, d)
		}
		return strings.Join(parts, " ; ")
	}
	for si, s := range prog {
		if s.op < 0 {
			st := live[s.r].StreamAt("k")
			if st == nil || st.Len() == 0 {
				continue
			}
			if p := lib.Catch(func() { st.Remove(0) }); p != "" {
				return fmt.Sprintf("%s: %s", ps(si+1), p), "panic|nested-remove", ""
			}
			m := *model[s.r]
			m["k"] = append([]int{}, m["k"][1:]...)
		} else {
			op := ops[s.op]
			var a coll.StreamSet
			var am map[string][]int
			if op.arity == 1 {
				a, am = live[s.a], *model[s.a]
			}
			want, open := op.model(*model[s.r], am)
			var res coll.StreamSet
			if p := lib.Catch(func() { res = op.apply(live[s.r], a) }); p != "" {
				return fmt.Sprintf("%s: %s", ps(si+1), p), "panic|" + op.name, ""
			}
			if op.arity == 1 && s.a != s.r && res.ID() == a.ID() && live[s.r].ID() != a.ID() {
				return fmt.Sprintf("%s returned its argument itself (not a stream set of its own)", ps(si+1)), "result-is-the-argument|" + op.name, ""
			}
			var mp *map[string][]int
			for i, l := range live {
				if l.ID() == res.ID() {
					mp = model[i]
				}
			}
			got := res.Content()
			if want != nil && !sameSS(got, want, open) {
				return fmt.Sprintf("%s returned %s, its definition gives %s", ps(si+1), coll.RenderSS(got), coll.RenderSS(want)), "wrong-result|" + op.name, ""
			}
			if mp == nil {
				c := cpss(got) // (open keys / open results: whatever was returned is what it must keep holding)
				mp = &c
			}
			live = append(live, res)
			model = append(model, mp)
		}
		for i, l := range live {
			got := l.Content()
			if !sameSS(got, *model[i], nil) {
				name := "disturbed"
				if s.op < 0 {
					name = "disturbed-through-shared-stream"
				}
				return fmt.Sprintf("after %s: stream set #%d now holds %s, it held %s", ps(si+1), i, coll.RenderSS(got), coll.RenderSS(*model[i])), name, ""
			}
		}
	}
	var b strings.Builder
	ids := map[interface{}]int{}
	for i, l := range live {
		id, ok := ids[l.ID()]
		if !ok {
			id = len(ids)
			ids[l.ID()] = id
		}
		fmt.Fprintf(&b, "%d:o%d:%s", i, id, coll.RenderSS(*model[i]))
		// which handles share one Go map, which per-key streams share a backing array (and their spare capacity)
		if mp := l.MapID(); mp != 0 {
			k := fmt.Sprintf("map@%d", mp)
			mid, ok := ids[k]
			if !ok {
				mid = len(ids)
				ids[k] = mid
			}
			fmt.Fprintf(&b, ":m%d", mid)
		}
		// which per-key streams are the same objects across stream sets
		for _, k := range []string{"j", "k", "m"} {
			if st := l.StreamAt(k); st != nil {
				sid, ok := ids[st.ID()]
				if !ok {
					sid = len(ids)
					ids[st.ID()] = sid
				}
				fmt.Fprintf(&b, "/%s=o%d", k, sid)
				if first, capacity := st.Backing(); first != nil {
					bk := fmt.Sprintf("arr@%p", first)
					bid, ok := ids[bk]
					if !ok {
						bid = len(ids)
						ids[bk] = bid
					}
					fmt.Fprintf(&b, "b%dc%d", bid, capacity-len(st.ToArray()))
				}
			}
		}
		b.WriteString(";")
	}
	return "", "", b.String()
}

func searchStreamSets(r *lib.Report, family string, depth int, states, trans *int64, samples *lib.Samples) {
	ops := ssOps()
	seen := map[string]bool{}
	frontier := [][]step{{}}
	for d := 0; d < depth; d++ {
		var next [][]step
		for _, prog := range frontier {
			pool := 3
			for _, s := range prog {
				if s.op >= 0 {
					pool++
				}
			}
			try := func(np []step) {
				*trans++
				fail, clause, key := runStreamSets(family, ops, np)
				if fail != "" {
					r.Violation(fmt.Sprintf("C04|streamset-%s|%s", family, clause), fail, map[string]interface{}{"family": family, "failure": fail, "initial_pool": "#0={j:[4] k:[1 2 3]} #1={k:[2 5] m:[6 6]} #2={j:[4 7]}"})
					return
				}
				if !seen[key] {
					seen[key] = true
					next = append(next, np)
					if len(np) == 2 {
						samples.Add(family + " stream sets: " + key)
					}
				}
			}
			for oi, op := range ops {
				for rr := 0; rr < pool; rr++ {
					amax := 1
					if op.arity == 1 {
						amax = pool
					}
					for aa := 0; aa < amax; aa++ {
						try(append(append([]step{}, prog...), step{oi, rr, aa}))
					}
				}
			}
			if family == "interface{}" {
				for rr := 0; rr < pool; rr++ {
					try(append(append([]step{}, prog...), step{-1, rr, 0}))
				}
			}
		}
		frontier = next
	}
	*states += int64(len(seen))
}
