// C05: set algebra laws hold; generic and interface{} variants agree on all inputs.
// Engine E3: all pairs / triples of lists over {0,1,2} up to length 3 (thorough 4) plus nil, all
// partial key->value maps, all key->stream maps over 2 keys x 5 stream shapes, for every set
// operation of the slice, Stream, MapSet and StreamSet APIs of both families.
package main

import (
	"fmt"
	"github.com/TeaEntityLab/fpGo/v2/zzverif/vsched"
	"sort"

	fpgo "github.com/TeaEntityLab/fpGo/v2"
	"verifharness/lib"
	"verifharness/lib/coll"
)

var r *lib.Report
var evals, inputs int64

func bad(api, clause, format string, a ...interface{}) {
	r.Violation(fmt.Sprintf("C05|%s|%s", api, clause), fmt.Sprintf(format, a...), map[string]interface{}{"api": api, "failure": fmt.Sprintf(format, a...)})
}

func allLists(maxLen int) [][]int {
	out := [][]int{nil, {}}
	var gen func(cur []int, n int)
	gen = func(cur []int, n int) {
		if len(cur) == n {
			out = append(out, append([]int{}, cur...))
			return
		}
		for k := 0; k < 3; k++ {
			gen(append(cur, k), n)
		}
	}
	for n := 1; n <= maxLen; n++ {
		gen(nil, n)
	}
	return out
}

func ifaces(l []int) []interface{} {
	if l == nil {
		return nil
	}
	o := make([]interface{}, len(l))
	for i, v := range l {
		o[i] = v
	}
	return o
}
func ints(l []interface{}) []int {
	o := []int{}
	for _, v := range l {
		o = append(o, v.(int))
	}
	return o
}
func has(l []int, x int) bool {
	for _, v := range l {
		if v == x {
			return true
		}
	}
	return false
}
func nodup(l []int) bool {
	s := map[int]bool{}
	for _, v := range l {
		if s[v] {
			return false
		}
		s[v] = true
	}
	return true
}
func seq(a, b []int) bool {
	if len(a) != len(b) {
		return false
	}
	for i := range a {
		if a[i] != b[i] {
			return false
		}
	}
	return true
}
func sorted(l []int) []int { o := append([]int{}, l...); sort.Ints(o); return o }
func firstOcc(l []int, keep func(int) bool) []int {
	o := []int{}
	seen := map[int]bool{}
	for _, v := range l {
		if !seen[v] && keep(v) {
			seen[v] = true
			o = append(o, v)
		}
	}
	return o
}

func call(api, desc string, f func()) bool {
	evals++
	if p := lib.Catch(f); p != "" {
		bad(api, "panic", "%s: %s", desc, p)
		return false
	}
	return true
}

// longLists: operands beyond any small-size shortcut (17 ... 300 elements): all distinct, reversed, and with
// every value repeated (i mod 5, i mod 37).
func longLists() [][]int {
	var out [][]int
	for _, n := range []int{17, 33, 40, 65, 130, 300} {
		asc, desc, m5, m37 := make([]int, n), make([]int, n), make([]int, n), make([]int, n)
		for i := 0; i < n; i++ {
			asc[i], desc[i], m5[i], m37[i] = i, n-1-i, i%5, (i*7)%37
		}
		out = append(out, asc, desc, m5, m37)
	}
	// every length from 5 to 16 (strategy switches by size or by number of distinct values): all distinct, and with repeats
	for n := 5; n <= 16; n++ {
		distinct, repeats := make([]int, n), make([]int, n)
		for i := 0; i < n; i++ {
			distinct[i], repeats[i] = (i*5)%n+50, (i*3)%(n-2)+50
		}
		out = append(out, distinct, repeats)
	}
	return out
}

func slices(maxLen int) {
	short := allLists(maxLen)
	longs := longLists()
	ls := append(append([][]int{}, short...), longs...)
	for ai, a := range ls {
		inputs++
		// Distinct twins
		var g []int
		var gi []interface{}
		if call("Distinct", fmt.Sprint(a), func() { g = fpgo.Distinct(a...); gi = fpgo.DistinctForInterface(ifaces(a)...) }) {
			if !seq(g, ints(gi)) {
				bad("Distinct", "twin", "Distinct(%v)=%v DistinctForInterface=%v", a, g, gi)
			}
			if len(a) > 0 && !seq(g, firstOcc(a, func(int) bool { return true })) {
				bad("Distinct", "law", "Distinct(%v)=%v", a, g)
			}
		}
		for bi, b := range ls {
			// long operands are paired with each other and with the lists of up to 2 elements (incl. nil / empty)
			if (ai >= len(short) && bi < len(short) && len(b) > 2) || (bi >= len(short) && ai < len(short) && len(a) > 2) {
				continue
			}
			nonEmpty := len(a) > 0 && len(b) > 0
			d := fmt.Sprintf("(%v, %v)", a, b)
			if len(d) > 160 {
				d = fmt.Sprintf("(%d elements %v..., %d elements %v...)", len(a), a[:min(len(a), 8)], len(b), b[:min(len(b), 8)])
			}
			var in, mi, df, un []int
			var ini, mii []interface{}
			var sub, sup, subi, supi bool
			if !call("slice", d, func() {
				in, ini = fpgo.Intersection(a, b), fpgo.IntersectionForInterface(ifaces(a), ifaces(b))
				mi, mii = fpgo.Minus(a, b), fpgo.MinusForInterface(ifaces(a), ifaces(b))
				df, un = fpgo.Difference(a, b), fpgo.Union(a, b)
				sub, subi = fpgo.IsSubset(a, b), fpgo.IsSubsetForInterface(ifaces(a), ifaces(b))
				sup, supi = fpgo.IsSuperset(a, b), fpgo.IsSupersetForInterface(ifaces(a), ifaces(b))
			}) {
				continue
			}
			if !seq(in, ints(ini)) {
				bad("Intersection", "twin", "Intersection%s=%v, ForInterface=%v", d, in, ini)
			}
			if !seq(mi, ints(mii)) {
				bad("Minus", "twin", "Minus%s=%v, ForInterface=%v", d, mi, mii)
			}
			if sub != subi || sup != supi {
				bad("IsSubset", "twin", "IsSubset/IsSuperset%s=%v/%v, ForInterface=%v/%v", d, sub, sup, subi, supi)
			}
			if !nonEmpty {
				continue
			}
			if !seq(in, firstOcc(a, func(x int) bool { return has(b, x) })) {
				bad("Intersection", "law", "Intersection%s=%v", d, in)
			}
			var wm []int
			for _, x := range a {
				if !has(b, x) {
					wm = append(wm, x)
				}
			}
			if !seq(mi, wm) {
				bad("Minus", "law", "Minus%s=%v, want %v", d, mi, wm)
			}
			if !seq(df, firstOcc(a, func(x int) bool { return !has(b, x) })) {
				bad("Difference", "law", "Difference%s=%v", d, df)
			}
			wu := sorted(firstOcc(append(append([]int{}, a...), b...), func(int) bool { return true }))
			if !seq(sorted(un), wu) || !nodup(un) {
				bad("Union", "law", "Union%s=%v", d, un)
			}
			ws := true
			for _, x := range a {
				if !has(b, x) {
					ws = false
				}
			}
			wp := true
			for _, x := range b {
				if !has(a, x) {
					wp = false
				}
			}
			if sub != ws || sup != wp {
				bad("IsSubset", "law", "IsSubset%s=%v (want %v) IsSuperset=%v (want %v)", d, sub, ws, sup, wp)
			}
			// A = (A minus B) union (A intersect B) as sets; subset <=> empty difference
			if !seq(sorted(fpgo.Union(mi, in)), sorted(firstOcc(a, func(int) bool { return true }))) {
				bad("Union", "law", "(A-B) u (A n B) != A for %s", d)
			}
			if ws != (len(df) == 0) {
				bad("IsSubset", "law", "IsSubset%s=%v but Difference=%v", d, ws, df)
			}
		}
	}
	// triples (three operands: a value may be repeated in one later operand and missing in another)
	ts := allLists(2)
	if maxLen > 3 {
		ts = allLists(3)
	}
	for _, a := range ts {
		for _, b := range ts {
			for _, c := range ts {
				d := fmt.Sprintf("(%v, %v, %v)", a, b, c)
				var in, df, un []int
				var ini []interface{}
				if !call("slice3", d, func() {
					in, ini = fpgo.Intersection(a, b, c), fpgo.IntersectionForInterface(ifaces(a), ifaces(b), ifaces(c))
					df, un = fpgo.Difference(a, b, c), fpgo.Union(a, b, c)
				}) {
					continue
				}
				if !seq(in, ints(ini)) {
					bad("Intersection", "twin", "Intersection%s=%v, ForInterface=%v", d, in, ini)
				}
				if len(a) == 0 || len(b) == 0 || len(c) == 0 {
					continue
				}
				if !seq(in, firstOcc(a, func(x int) bool { return has(b, x) && has(c, x) })) {
					bad("Intersection", "law", "Intersection%s=%v", d, in)
				}
				if !seq(df, firstOcc(a, func(x int) bool { return !has(b, x) && !has(c, x) })) {
					bad("Difference", "law", "Difference%s=%v", d, df)
				}
				if !seq(sorted(un), sorted(firstOcc(append(append(append([]int{}, a...), b...), c...), func(int) bool { return true }))) || !nodup(un) {
					bad("Union", "law", "Union%s=%v", d, un)
				}
			}
		}
	}
}

// ladder: operands of 2^k-1, 2^k, 2^k+1 ... elements up to 1195 (thorough: 4778) (a helper may switch strategy at a size far above the
// enumerated ones), as pairs and as triples in which a value is repeated in one later operand and missing in another.
func ladder(maxP int) {
	var ns []int
	for p := 16; p <= maxP; p *= 2 {
		ns = append(ns, p-1, p, p+1, p+p/6)
	}
	for _, n := range ns {
		asc := make([]int, n)
		dupB, holesC, rev := []int{}, []int{}, make([]int, n)
		for i := 0; i < n; i++ {
			asc[i] = i
			rev[i] = n - 1 - i
			// b: the values with i%3 == 0 twice, those with i%3 == 1 once, the others not at all (+ strangers)
			switch i % 3 {
			case 0:
				dupB = append(dupB, i, i)
			case 1:
				dupB = append(dupB, i)
			default:
				dupB = append(dupB, n+i)
			}
			// c: the values with i%2 == 1 (so: twice-in-b but not in c happens for i%6 == 0)
			if i%2 == 1 {
				holesC = append(holesC, i, i)
			}
		}
		ops := [][]int{asc, dupB, holesC, rev}
		set := func(l []int) map[int]bool {
			m := map[int]bool{}
			for _, x := range l {
				m[x] = true
			}
			return m
		}
		for ai, a := range ops {
			for bi, b := range ops {
				for ci := -1; ci < len(ops); ci++ {
					inputs++
					evals += 6
					var rest [][]int
					d := fmt.Sprintf("size-ladder n=%d operands #%d (%d items), #%d (%d items)", n, ai, len(a), bi, len(b))
					sb := set(b)
					inAll, inAny := func(x int) bool { return sb[x] }, func(x int) bool { return sb[x] }
					rest = [][]int{b}
					if ci >= 0 {
						c := ops[ci]
						sc := set(c)
						d += fmt.Sprintf(", #%d (%d items)", ci, len(c))
						inAll, inAny = func(x int) bool { return sb[x] && sc[x] }, func(x int) bool { return sb[x] || sc[x] }
						rest = [][]int{b, c}
					}
					var in, df, un []int
					var ini []interface{}
					var ri [][]interface{}
					for _, l := range rest {
						ri = append(ri, ifaces(l))
					}
					snap := fmt.Sprint(a, rest)
					if !call("ladder", d, func() {
						gl, il := append([][]int{a}, rest...), append([][]interface{}{ifaces(a)}, ri...)
						in, ini = fpgo.Intersection(gl...), fpgo.IntersectionForInterface(il...)
						df, un = fpgo.Difference(gl...), fpgo.Union(gl...)
					}) {
						continue
					}
					if snap != fmt.Sprint(a, rest) {
						bad("slice", "operand-modified", "a set operation on %s changed an operand", d)
					}
					if !seq(in, ints(ini)) {
						bad("Intersection", "twin", "Intersection(%s) has %d items, ForInterface %d", d, len(in), len(ini))
					}
					if !seq(in, firstOcc(a, inAll)) {
						bad("Intersection", "law", "Intersection(%s) has %d items, want %d", d, len(in), len(firstOcc(a, inAll)))
					}
					if !seq(df, firstOcc(a, func(x int) bool { return !inAny(x) })) {
						bad("Difference", "law", "Difference(%s) has %d items", d, len(df))
					}
					all := append([]int{}, a...)
					for _, l := range rest {
						all = append(all, l...)
					}
					if !seq(sorted(un), sorted(firstOcc(all, func(int) bool { return true }))) {
						bad("Union", "law", "Union(%s) has %d items", d, len(un))
					}
				}
			}
		}
	}
}

func streams(maxLen int) {
	short := allLists(maxLen)
	ls := append(append([][]int{}, short...), longLists()...)
	for ai, a := range ls {
		for bi, b := range ls {
			if (ai >= len(short) && bi < len(short) && len(b) > 2) || (bi >= len(short) && ai < len(short) && len(a) > 2) {
				continue
			}
			inputs++
			d := fmt.Sprintf("(%v, %v)", a, b)
			if len(d) > 160 {
				d = fmt.Sprintf("(%d elements %v..., %d elements %v...)", len(a), a[:min(len(a), 8)], len(b), b[:min(len(b), 8)])
			}
			type res struct {
				in, mi, di, un []int
				sub, sup, con  bool
			}
			var out [2]res
			ok := true
			for f, mk := range []func([]int) coll.Stream{coll.NewG, coll.NewI} {
				f, mk := f, mk
				ok = ok && call("Stream", d, func() {
					sa, sb := mk(a), mk(b)
					out[f] = res{sa.Intersection(sb).ToArray(), sa.Minus(sb).ToArray(), sa.Distinct().ToArray(), sa.Extend(sb).Distinct().ToArray(),
						sa.IsSubset(sb), sa.IsSuperset(sb), sa.Contains(1)}
					if !seq(sa.ToArray(), a) || !seq(sb.ToArray(), b) {
						bad("Stream", "operand-modified", "set operations changed an operand of %s", d)
					}
					// the results are the caller's: working on them (SortByIndex sorts its receiver's array in place
					// before restoring it; the interface{} Remove is the documented in-place mutator) and asking the
					// same questions of the same operands again gives the same answers
					for _, rs := range []coll.Stream{sa.Intersection(sb), sa.Minus(sb), sa.Distinct(), sb.Distinct(), sa.Extend(sb).Distinct()} {
						rs.SortByIndex(func(s coll.Stream, i, j int) bool { return s.Get(i) > s.Get(j) })
						if f == 1 && rs.Len() > 0 && rs.ID() != sa.ID() && rs.ID() != sb.ID() { // (a result may be the operand itself, e.g. Minus(empty))
							rs.Remove(0)
						}
					}
					again := res{sa.Intersection(sb).ToArray(), sa.Minus(sb).ToArray(), sa.Distinct().ToArray(), sa.Extend(sb).Distinct().ToArray(),
						sa.IsSubset(sb), sa.IsSuperset(sb), sa.Contains(1)}
					if fmt.Sprint(again) != fmt.Sprint(out[f]) || !seq(sa.ToArray(), a) || !seq(sb.ToArray(), b) {
						bad("Stream", "law|after-working-on-results", "set operations on %s answered %+v, and %+v after their earlier results had been sorted by index (operands now %v, %v)", d, out[f], again, sa.ToArray(), sb.ToArray())
					}
					// the same (derived, hence spare-capacity) operand in two unions: the first result must keep its elements
					base := mk(append(append([]int{}, a...), -9, -9, -9, -9)).RemoveItem(-9) // 4 spare slots (the sentinel occurs in no operand)
					u1 := base.Extend(sb)
					w1 := u1.ToArray()
					u2 := base.Extend(mk([]int{8}))
					if !seq(u1.ToArray(), w1) || !seq(u1.ToArray(), append(append([]int{}, a...), b...)) || !seq(u2.ToArray(), append(append([]int{}, a...), 8)) {
						bad("Stream", "law", "two unions from one derived operand: first %v (was %v), second %v, operands %s", u1.ToArray(), w1, u2.ToArray(), d)
					}
				})
			}
			if !ok {
				continue
			}
			if fmt.Sprint(out[0]) != fmt.Sprint(out[1]) {
				bad("Stream", "twin", "Stream ops on %s: generic %+v, interface{} %+v", d, out[0], out[1])
			}
			if len(a) == 0 || len(b) == 0 {
				continue
			}
			o := out[0]
			if !seq(o.in, firstOcc(a, func(x int) bool { return has(b, x) })) {
				bad("Stream", "law", "Stream.Intersection%s=%v", d, o.in)
			}
			var wm []int
			for _, x := range a {
				if !has(b, x) {
					wm = append(wm, x)
				}
			}
			if !seq(o.mi, wm) {
				bad("Stream", "law", "Stream.Minus%s=%v", d, o.mi)
			}
			if !seq(sorted(o.un), sorted(firstOcc(append(append([]int{}, a...), b...), func(int) bool { return true }))) || !nodup(o.un) {
				bad("Stream", "law", "Stream union (Extend+Distinct)%s=%v", d, o.un)
			}
			ws, wp := true, true
			for _, x := range a {
				ws = ws && has(b, x)
			}
			for _, x := range b {
				wp = wp && has(a, x)
			}
			if o.sub != ws || o.sup != wp {
				bad("Stream", "law", "Stream.IsSubset%s=%v (want %v) IsSuperset=%v (want %v)", d, o.sub, ws, o.sup, wp)
			}
		}
	}
}

func keysOf(m map[int]int) []int {
	k := []int{}
	for x := range m {
		k = append(k, x)
	}
	sort.Ints(k)
	return k
}

func sets() {
	// all partial maps {0,1,2} -> {7}: by key (8 key sets) plus nil
	var ms []map[int]int
	ms = append(ms, nil)
	for code := 0; code < 8; code++ {
		m := map[int]int{}
		for k := 0; k < 3; k++ {
			if code&(1<<k) != 0 {
				m[k] = 7 + k
			}
		}
		ms = append(ms, m)
	}
	for _, a := range ms {
		for _, b := range ms {
			inputs++
			d := fmt.Sprintf("(keys %v, keys %v)", keysOf(a), keysOf(b))
			type res struct {
				un, in, mi []int
				sub, sup   bool
			}
			var out [2]res
			ok := true
			for f, mk := range []func(map[int]int) coll.Set{coll.NewGSet, coll.NewISet} {
				f, mk := f, mk
				ok = ok && call("Set", d, func() {
					sa, sb := mk(a), mk(b)
					un, in, mi := sa.Union(sb), sa.Intersection(sb), sa.Minus(sb)
					out[f] = res{un.KeysSorted(), in.KeysSorted(), mi.KeysSorted(), sa.IsSubsetByKey(sb), sa.IsSupersetByKey(sb)}

					if !seq(sa.KeysSorted(), keysOf(a)) || !seq(sb.KeysSorted(), keysOf(b)) {
						bad("Set", "operand-modified", "set operations changed an operand of %s", d)
					}
					// the results are the caller's: writing to them (Set is the documented in-place mutator; a result
					// may be the receiver itself) must not show in any later result of other operands - these
					// operands are not used again
					un.SetKV(77, 1)
					in.SetKV(78, 1)
					mi.SetKV(79, 1)
				})
			}
			if !ok {
				continue
			}
			if fmt.Sprint(out[0]) != fmt.Sprint(out[1]) {
				bad("Set", "twin", "Set ops on %s: generic %+v, interface{} %+v", d, out[0], out[1])
			}
			if len(a) == 0 || len(b) == 0 {
				continue
			}
			o := out[0]
			var wu, wi, wm []int
			for k := 0; k < 3; k++ {
				_, ina := a[k]
				_, inb := b[k]
				if ina || inb {
					wu = append(wu, k)
				}
				if ina && inb {
					wi = append(wi, k)
				}
				if ina && !inb {
					wm = append(wm, k)
				}
			}
			if !seq(o.un, wu) || !seq(o.in, wi) || !seq(o.mi, wm) || o.sub != (len(wm) == 0) || o.sup != (len(wi) == len(b)) {
				bad("Set", "law", "Set ops on %s: %+v; want union %v intersection %v minus %v", d, o, wu, wi, wm)
			}
		}
	}
}

func streamSets() {
	shapes := [][]int{nil, {}, {1}, {1, 2}, {2, 2}}
	var ms []map[string][]int
	for ca := -1; ca < len(shapes); ca++ {
		for cb := -1; cb < len(shapes); cb++ {
			m := map[string][]int{}
			if ca >= 0 {
				m["a"] = shapes[ca]
			}
			if cb >= 0 {
				m["b"] = shapes[cb]
			}
			ms = append(ms, m)
		}
	}
	full := func(m map[string][]int) bool { // non-empty key set and non-empty per-key streams
		if len(m) == 0 {
			return false
		}
		for _, v := range m {
			if len(v) == 0 {
				return false
			}
		}
		return true
	}
	// layout 0: every stream owns its list; layout 1: the streams of a set are consecutive windows of one list
	// (spare capacity of one stream is its neighbour's data)
	for layout := 0; layout < 2; layout++ {
		mks := []func(map[string][]int) coll.StreamSet{coll.NewGSS, coll.NewISS}
		if layout == 1 {
			mks = []func(map[string][]int) coll.StreamSet{coll.NewGSSChunked, coll.NewISSChunked}
		}
		for _, a := range ms {
			for _, b := range ms {
				inputs++
				d := fmt.Sprintf("(%s, %s)", coll.RenderSS(a), coll.RenderSS(b))
				if layout == 1 {
					d += " [streams are windows of one list]"
				}
				type res struct {
					un, in, ms, mi string
					sub, sup       bool
				}
				var out [2]res
				var panics [2]string
				for f, mk := range mks {
					f, mk := f, mk
					evals++
					panics[f] = lib.Catch(func() {
						sa, sb := mk(a), mk(b)
						out[f] = res{render(sa.Union(sb)), render(sa.Intersection(sb)), render(sa.MinusStreams(sb)), render(sa.Minus(sb)), sa.IsSubsetByKey(sb), sa.IsSupersetByKey(sb)}
						if render(sa) != coll.RenderSS(norm(a)) || render(sb) != coll.RenderSS(norm(b)) {
							bad("StreamSet", "operand-modified", "stream-set operations changed an operand of %s", d)
						}
					})
				}
				if panics[0] != "" || panics[1] != "" {
					cl := "panic"
					if hasNil(a) || hasNil(b) {
						cl = "panic|nil-stream-value"
					}
					bad("StreamSet", cl, "stream-set operations on %s: generic %q, interface{} %q", d, panics[0], panics[1])
					continue
				}
				if out[0] != out[1] {
					key := "twin"
					if len(a) == 0 || len(b) == 0 {
						key = "twin|empty-operand"
					}
					for name, pair := range map[string][2]interface{}{"Union": {out[0].un, out[1].un}, "Intersection": {out[0].in, out[1].in}, "MinusStreams": {out[0].ms, out[1].ms},
						"Minus": {out[0].mi, out[1].mi}, "IsSubsetByKey": {out[0].sub, out[1].sub}, "IsSupersetByKey": {out[0].sup, out[1].sup}} {
						if pair[0] != pair[1] {
							bad("StreamSet."+name, key, "StreamSet.%s on %s: generic %v, interface{} %v", name, d, pair[0], pair[1])
						}
					}
					continue
					bad("StreamSet", key, "StreamSet ops on %s: generic %+v, interface{} %+v", d, out[0], out[1])
				}
				if !full(a) || !full(b) {
					continue
				}
				// laws (by key, then per-key stream)
				wu, wi, wms := map[string][]int{}, map[string][]int{}, map[string][]int{}
				for k, v := range a {
					wu[k] = v
					wms[k] = v
					if w, ok := b[k]; ok {
						wu[k] = append(append([]int{}, v...), w...)
						wi[k] = firstOcc(v, func(x int) bool { return has(w, x) })
						var m []int
						for _, x := range v {
							if !has(w, x) {
								m = append(m, x)
							}
						}
						if m == nil {
							m = []int{}
						}
						wms[k] = m
					}
				}
				for k, w := range b {
					if _, ok := a[k]; !ok {
						wu[k] = w
					}
				}
				if out[0].un != coll.RenderSS(wu) || out[0].in != coll.RenderSS(wi) || out[0].ms != coll.RenderSS(wms) {
					bad("StreamSet", "law", "StreamSet ops on %s: union %s intersection %s minusStreams %s; want %s %s %s", d, out[0].un, out[0].in, out[0].ms, coll.RenderSS(wu), coll.RenderSS(wi), coll.RenderSS(wms))
				}
			}
		}
	}
}

func hasNil(m map[string][]int) bool {
	for _, v := range m {
		if v == nil {
			return true
		}
	}
	return false
}

// norm: a nil stream and an empty stream are the same sequence
func norm(m map[string][]int) map[string][]int {
	o := map[string][]int{}
	for k, v := range m {
		if v == nil {
			v = []int{}
		}
		o[k] = v
	}
	return o
}

func render(s coll.StreamSet) string { return coll.RenderSS(norm(s.Content())) }

// poison: every interface{} set operation once with an unhashable element (a slice behind interface{}).
func poison() {
	bad1 := []interface{}{1, []int{1}, 2}
	ok1 := []interface{}{1, 2, 3}
	probe := func(after string) {
		evals++
		got := fmt.Sprint(fpgo.MinusForInterface([]interface{}{1, 2, 3}, []interface{}{3}), fpgo.Minus([]int{1, 2, 3}, []int{3}),
			fpgo.IntersectionForInterface([]interface{}{1, 2, 2}, []interface{}{2, 3}), fpgo.Intersection([]int{1, 2, 2}, []int{2, 3}),
			fpgo.DistinctForInterface(1, 2, 1), fpgo.Distinct(1, 2, 1), fpgo.IsSubsetForInterface([]interface{}{1}, []interface{}{1, 2}), fpgo.IsSubset([]int{1}, []int{1, 2}),
			fpgo.StreamForInterface.FromArrayInt([]int{1, 2, 3}).Minus(fpgo.StreamForInterface.FromArrayInt([]int{3})).ToArray(),
			fpgo.StreamFromArray([]int{1, 2, 3}).Minus(fpgo.StreamFromArray([]int{3})).ToArray(),
			fpgo.StreamForInterface.FromArrayInt([]int{1, 2, 3}).RemoveItem(2).ToArray(), fpgo.StreamForInterface.FromArrayInt([]int{1, 1}).Distinct().ToArray(),
			len(fpgo.SetForInterfaceFromArray([]interface{}{1, 2}).Intersection(fpgo.SetForInterfaceFromArray([]interface{}{2})).Keys()))
		const want = "[1 2] [1 2] [2] [2] [1 2] [1 2] true true [1 2] [1 2] [1 3] [1] 1"
		if got != want {
			bad("after-recovered-panic", "law", "after %s (recovered): the fixed probe calls return %s, want %s", after, got, want)
		}
	}
	calls := map[string]func(){
		"MinusForInterface(ok, unhashable)":        func() { fpgo.MinusForInterface(ok1, bad1) },
		"MinusForInterface(unhashable, ok)":        func() { fpgo.MinusForInterface(bad1, ok1) },
		"IntersectionForInterface(ok, unhashable)": func() { fpgo.IntersectionForInterface(ok1, bad1) },
		"IntersectionForInterface(unhashable, ok)": func() { fpgo.IntersectionForInterface(bad1, ok1) },
		"DistinctForInterface(unhashable)":         func() { fpgo.DistinctForInterface(bad1...) },
		"IsSubsetForInterface(ok, unhashable)":     func() { fpgo.IsSubsetForInterface(ok1, bad1) },
		"IsSubsetForInterface(unhashable, ok)":     func() { fpgo.IsSubsetForInterface(bad1, ok1) },
		"Stream.Minus(unhashable)":                 func() { fpgo.StreamForInterface.FromArray(ok1).Minus(fpgo.StreamForInterface.FromArray(bad1)) },
		"Stream.Intersection(unhashable)": func() {
			fpgo.StreamForInterface.FromArray(ok1).Intersection(fpgo.StreamForInterface.FromArray(bad1))
		},
		"Stream.Distinct(unhashable)":                func() { fpgo.StreamForInterface.FromArray(bad1).Distinct() },
		"Stream.RemoveItem(unhashable)":              func() { fpgo.StreamForInterface.FromArray(ok1).RemoveItem(bad1...) },
		"SetForInterfaceFromArray(unhashable)":       func() { fpgo.SetForInterfaceFromArray(bad1) },
		"SliceToMapForInterface(unhashable)":         func() { fpgo.SliceToMapForInterface(true, bad1...) },
		"StreamSetForInterfaceFromArray(unhashable)": func() { fpgo.StreamSetForInterfaceFromArray(bad1) },
	}
	var names []string
	for n := range calls {
		names = append(names, n)
	}
	sort.Strings(names)
	for _, n := range names {
		evals++
		lib.Catch(calls[n])
		probe(n)
	}
}

func main() {
	r = lib.NewReport("C05")
	defer r.Guard()
	maxLen := 3
	if r.Tier == "thorough" {
		maxLen = 4
	}
	// three passes under the three sync.Pool policies of the shim; before the second and third pass every
	// interface{} operation is called once with a value that cannot be hashed (it panics, recovered here)
	// and a fixed probe battery is evaluated right after each such call
	for pass := 0; pass < 3; pass++ {
		vsched.PoolRetain = pass
		if pass > 0 {
			poison()
		}
		in0 := inputs
		slices(maxLen)
		ladder(map[bool]int{false: 1024, true: 4096}[r.Tier == "thorough"])
		streams(maxLen)
		sets()
		streamSets()
		mapTwins(maxLen)
		if pass == 0 {
			typedSlices()
		}
		if pass > 0 {
			inputs = in0 // operand tuples are counted once
		}
	}
	r.Cov["states"] = inputs
	r.Cov["transitions"] = evals
	r.Cov["traces_validated_against_impl"] = evals
	r.Cov["evaluations"] = evals
	r.Cov["distinct_nontrivial"] = inputs / 2
	r.Cov["rule"] = "states = operand tuples (pairs / triples of lists over {0,1,2} incl. nil and empty, pairs of key sets, pairs of key->stream maps); transitions = evaluations of the operation bundles of both families; non-trivial (measured conservatively as half) = tuples with non-empty operands, to which the algebra laws apply"
	r.Cov["samples"] = []interface{}{"Intersection([1 2 0], [2 2 1], [0 1])", "Stream [0 1 1] vs [1]: Intersection, Minus, IsSubset, IsSuperset, Extend+Distinct", "StreamSet {a:[1 2] b:[2 2]} vs {a:[2]}: Union, Intersection, MinusStreams, Minus"}
	r.Assume = []string{"laws are demanded for non-empty operands only (for stream sets: non-empty key sets and per-key streams), twin agreement and totality for all operands",
		"sets are compared by key (the two families store different values under keys they add)"}
	r.Finish()
}

func min(a, b int) int {
	if a < b {
		return a
	}
	return b
}
