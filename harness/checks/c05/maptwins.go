package main

import (
	"fmt"
	"sort"

	fpgo "github.com/TeaEntityLab/fpGo/v2"
)

// Map helpers and their interface{} twins: all pairs (and triples for the intersection) of partial maps
// {0,1,2} -> value (the value encodes the operand it came from), incl. nil and empty maps; all lists for
// SliceToMap / Exists. Twin agreement for all operands, the by-key algebra for non-empty ones.

func toI(m map[int]int) map[interface{}]int {
	if m == nil {
		return nil
	}
	o := map[interface{}]int{}
	for k, v := range m {
		o[k] = v
	}
	return o
}

func renderM(m map[int]int) string {
	if m == nil {
		return "nil-map"
	}
	var p []string
	for _, k := range keysOf(m) {
		p = append(p, fmt.Sprintf("%d:%d", k, m[k]))
	}
	return fmt.Sprint(p)
}

func renderMI(m map[interface{}]int) string {
	if m == nil {
		return "nil-map"
	}
	var ks []int
	for k := range m {
		ki, ok := k.(int)
		if !ok {
			return fmt.Sprintf("key of type %T", k)
		}
		ks = append(ks, ki)
	}
	sort.Ints(ks)
	var p []string
	for _, k := range ks {
		p = append(p, fmt.Sprintf("%d:%d", k, m[k]))
	}
	return fmt.Sprint(p)
}

func mapTwins(maxLen int) {
	mk := func(tag int) []map[int]int {
		ms := []map[int]int{nil}
		for code := 0; code < 8; code++ {
			m := map[int]int{}
			for k := 0; k < 3; k++ {
				if code&(1<<k) != 0 {
					m[k] = tag*10 + k
				}
			}
			ms = append(ms, m)
		}
		return ms
	}
	as, bs, cs := mk(1), mk(2), mk(3)
	for _, a := range as {
		inputs++
		d := renderM(a)
		call("Keys", d, func() {
			g := sorted(fpgo.Keys(a))
			i := sorted(ints(fpgo.KeysForInterface(toI(a))))
			if fmt.Sprint(g) != fmt.Sprint(keysOf(a)) || fmt.Sprint(i) != fmt.Sprint(g) {
				bad("Keys", "twin", "Keys(%s) = %v, KeysForInterface = %v", d, g, i)
			}
		})
		call("Values", d, func() {
			g := sorted(fpgo.Values(a))
			i := sorted(fpgo.ValuesForInterface(toI(a)))
			var want []int
			for _, k := range keysOf(a) {
				want = append(want, a[k])
			}
			if fmt.Sprint(g) != fmt.Sprint(sorted(want)) || fmt.Sprint(i) != fmt.Sprint(g) {
				bad("Values", "twin", "Values(%s) = %v, ValuesForInterface = %v", d, g, i)
			}
		})
		call("DuplicateMap", d, func() {
			g := fpgo.DuplicateMap(a)
			i := fpgo.DuplicateMapForInterface(toI(a))
			if renderM(g) != renderMI(i) || (a != nil && renderM(g) != renderM(a)) {
				bad("DuplicateMap", "twin", "DuplicateMap(%s) = %s, DuplicateMapForInterface = %s", d, renderM(g), renderMI(i))
			}
			if g != nil && len(a) > 0 {
				before := renderM(a)
				for k := range g {
					g[k] = 99
				}
				if renderM(a) != before {
					bad("DuplicateMap", "aliases-input", "writing to DuplicateMap(%s) changed the input", d)
				}
			}
		})
		call("IntersectionMapByKey/1", d, func() {
			g := fpgo.IntersectionMapByKey(a)
			i := fpgo.IntersectionMapByKeyForInterface(toI(a))
			if renderM(g) != renderMI(i) {
				bad("IntersectionMapByKey", "twin", "IntersectionMapByKey(%s) = %s, ForInterface = %s", d, renderM(g), renderMI(i))
			}
		})
		for _, b := range bs {
			inputs++
			d2 := renderM(a) + ", " + renderM(b)
			nonEmpty := len(a) > 0 && len(b) > 0
			call("Merge", d2, func() {
				g := fpgo.Merge(a, b)
				i := fpgo.MergeForInterface(toI(a), toI(b))
				want := map[int]int{}
				for k, v := range a {
					want[k] = v
				}
				for k, v := range b {
					want[k] = v
				}
				if renderM(g) != renderMI(i) {
					bad("Merge", "twin", "Merge(%s) = %s, MergeForInterface = %s", d2, renderM(g), renderMI(i))
				}
				if renderM(g) != renderM(want) {
					bad("Merge", "law", "Merge(%s) = %s, want %s (second map wins)", d2, renderM(g), renderM(want))
				}
			})
			call("IntersectionMapByKey", d2, func() {
				g := fpgo.IntersectionMapByKey(a, b)
				i := fpgo.IntersectionMapByKeyForInterface(toI(a), toI(b))
				if renderM(g) != renderMI(i) {
					bad("IntersectionMapByKey", "twin", "IntersectionMapByKey(%s) = %s, ForInterface = %s", d2, renderM(g), renderMI(i))
				}
				if nonEmpty {
					want := map[int]int{}
					for k, v := range a {
						if _, ok := b[k]; ok {
							want[k] = v
						}
					}
					if fmt.Sprint(keysOf(g)) != fmt.Sprint(keysOf(want)) {
						bad("IntersectionMapByKey", "law", "IntersectionMapByKey(%s) has keys %v, want %v", d2, keysOf(g), keysOf(want))
					}
				}
			})
			call("MinusMapByKey", d2, func() {
				g := fpgo.MinusMapByKey(a, b)
				want := map[int]int{}
				for k, v := range a {
					if _, ok := b[k]; !ok {
						want[k] = v
					}
				}
				if nonEmpty && renderM(g) != renderM(want) {
					bad("MinusMapByKey", "law", "MinusMapByKey(%s) = %s, want %s", d2, renderM(g), renderM(want))
				}
			})
			call("IsSubsetMapByKey", d2, func() {
				g, i := fpgo.IsSubsetMapByKey(a, b), fpgo.IsSubsetMapByKeyForInterface(toI(a), toI(b))
				g2, i2 := fpgo.IsSupersetMapByKey(b, a), fpgo.IsSupersetMapByKeyForInterface(toI(b), toI(a))
				if g != i || g2 != i2 {
					bad("IsSubsetMapByKey", "twin", "IsSubsetMapByKey(%s) = %v / ForInterface %v; IsSupersetMapByKey(swapped) = %v / %v", d2, g, i, g2, i2)
				}
				if nonEmpty {
					want := true
					for k := range a {
						if _, ok := b[k]; !ok {
							want = false
						}
					}
					if g != want || g2 != want {
						bad("IsSubsetMapByKey", "law", "IsSubsetMapByKey(%s) = %v, IsSupersetMapByKey(swapped) = %v, want %v", d2, g, g2, want)
					}
				}
			})
			if len(a) <= 2 && len(b) <= 2 {
				for _, c := range cs {
					if len(c) > 2 {
						continue
					}
					d3 := d2 + ", " + renderM(c)
					call("IntersectionMapByKey/3", d3, func() {
						g := fpgo.IntersectionMapByKey(a, b, c)
						i := fpgo.IntersectionMapByKeyForInterface(toI(a), toI(b), toI(c))
						if renderM(g) != renderMI(i) {
							bad("IntersectionMapByKey", "twin", "IntersectionMapByKey(%s) = %s, ForInterface = %s", d3, renderM(g), renderMI(i))
						}
						if nonEmpty && len(c) > 0 {
							var want []int
							for _, k := range keysOf(a) {
								_, ok1 := b[k]
								_, ok2 := c[k]
								if ok1 && ok2 {
									want = append(want, k)
								}
							}
							if fmt.Sprint(keysOf(g)) != fmt.Sprint(append([]int{}, want...)) {
								bad("IntersectionMapByKey", "law", "IntersectionMapByKey(%s) has keys %v, want %v", d3, keysOf(g), want)
							}
						}
					})
				}
			}
		}
	}
	for _, l := range allLists(maxLen) {
		inputs++
		d := fmt.Sprint(l)
		call("SliceToMap", d, func() {
			g := fpgo.SliceToMap(5, l...)
			i := fpgo.SliceToMapForInterface(5, ifaces(l)...)
			want := map[int]int{}
			for _, v := range l {
				want[v] = 5
			}
			if renderM(g) != renderMI(i) || renderM(g) != renderM(want) {
				bad("SliceToMap", "twin", "SliceToMap(5, %s) = %s, ForInterface = %s, want %s", d, renderM(g), renderMI(i), renderM(want))
			}
		})
		for x := 0; x < 4; x++ {
			x := x
			call("Exists", d, func() {
				g, i := fpgo.Exists(x, l...), fpgo.ExistsForInterface(x, ifaces(l)...)
				if g != i || g != has(l, x) {
					bad("Exists", "twin", "Exists(%d, %s) = %v, ExistsForInterface = %v, want %v", x, d, g, i, has(l, x))
				}
			})
		}
	}
}
