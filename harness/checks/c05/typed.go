package main

import (
	"fmt"
	"math"

	fpgo "github.com/TeaEntityLab/fpGo/v2"
	"verifharness/lib"
)

// Other element types: the set operations compare elements with ==, never by printed form, content behind a
// pointer or zero-ness. Lists are sequences over three symbols; rep(symbol, position) gives the element value
// (for float64 the symbol "zero" is written +0 at even positions and -0 at odd ones: the same element).
// Laws and twin agreement are judged on the symbols.

type pairS struct{ A, B string }

func typedSlices() {
	p1, p2 := &pairS{"x", "y"}, &pairS{"x", "y"} // distinct pointers, equal (and equally printed) pointees
	var pnil *pairS
	typedFamily("float64", func(sym, pos int) float64 {
		if sym == 0 {
			if pos%2 == 1 {
				return math.Copysign(0, -1)
			}
			return 0
		}
		return []float64{0, -1.5, 1.5}[sym]
	})
	typedFamily("*struct", func(sym, pos int) *pairS { return []*pairS{p1, p2, pnil}[sym] })
	typedFamily("struct-with-colliding-text", func(sym, pos int) pairS { return []pairS{{"a b", "c"}, {"a", "b c"}, {"", ""}}[sym] })
	typedFamily("*int", func(sym, pos int) *int { return []*int{lib.P1, lib.P2, nil}[sym] })
	typedFamily("string-case", func(sym, pos int) string { return []string{"a", "A", ""}[sym] })
	typedFamily("tagged", func(sym, pos int) lib.Tagged { return []lib.Tagged{{N: 1, P: lib.P1}, {N: 1, P: lib.P2}, {}}[sym] })
}

func typedFamily[T comparable](tname string, rep func(sym, pos int) T) {
	lists := allLists(3)
	mk := func(l []int) []T {
		if l == nil {
			return nil
		}
		o := make([]T, len(l))
		for i, s := range l {
			o[i] = rep(s, i)
		}
		return o
	}
	symOf := func(v T) int {
		for s := 0; s < 3; s++ {
			if rep(s, 0) == v {
				return s
			}
		}
		return -1
	}
	back := func(l []T) []int {
		o := []int{}
		for _, v := range l {
			o = append(o, symOf(v))
		}
		return o
	}
	backI := func(l []interface{}) []int {
		o := []int{}
		for _, v := range l {
			t, ok := v.(T)
			if !ok {
				o = append(o, -2)
				continue
			}
			o = append(o, symOf(t))
		}
		return o
	}
	toI := func(l []T) []interface{} {
		if l == nil {
			return nil
		}
		o := make([]interface{}, len(l))
		for i, v := range l {
			o[i] = v
		}
		return o
	}
	for _, a := range lists {
		inputs++
		ta := mk(a)
		var g []T
		var gi []interface{}
		if call("Distinct["+tname+"]", fmt.Sprint(a), func() { g = fpgo.Distinct(ta...); gi = fpgo.DistinctForInterface(toI(ta)...) }) {
			if len(a) > 0 && (!seq(back(g), firstOcc(a, func(int) bool { return true })) || !seq(backI(gi), back(g))) {
				bad("Distinct", "law|"+tname, "Distinct over %s elements, symbols %v: generic %v, ForInterface %v, want %v", tname, a, back(g), backI(gi), firstOcc(a, func(int) bool { return true }))
			}
		}
		for _, b := range lists {
			if len(a) == 0 || len(b) == 0 {
				continue
			}
			tb := mk(b)
			d := fmt.Sprintf("(%v, %v) over %s elements", a, b, tname)
			var in, mi, un []T
			var ini, mii []interface{}
			var sub, subi bool
			if !call("slice["+tname+"]", d, func() {
				in, ini = fpgo.Intersection(ta, tb), fpgo.IntersectionForInterface(toI(ta), toI(tb))
				mi, mii = fpgo.Minus(ta, tb), fpgo.MinusForInterface(toI(ta), toI(tb))
				un = fpgo.Union(ta, tb)
				sub, subi = fpgo.IsSubset(ta, tb), fpgo.IsSubsetForInterface(toI(ta), toI(tb))
			}) {
				continue
			}
			wantIn := firstOcc(a, func(x int) bool { return has(b, x) })
			var wantMi []int
			for _, x := range a {
				if !has(b, x) {
					wantMi = append(wantMi, x)
				}
			}
			wantUn := sorted(firstOcc(append(append([]int{}, a...), b...), func(int) bool { return true }))
			wantSub := true
			for _, x := range a {
				wantSub = wantSub && has(b, x)
			}
			switch {
			case !seq(back(in), wantIn) || !seq(backI(ini), wantIn):
				bad("Intersection", "law|"+tname, "Intersection%s = %v (ForInterface %v), want %v", d, back(in), backI(ini), wantIn)
			case !seq(back(mi), wantMi) || !seq(backI(mii), wantMi):
				bad("Minus", "law|"+tname, "Minus%s = %v (ForInterface %v), want %v", d, back(mi), backI(mii), wantMi)
			case !seq(sorted(back(un)), wantUn):
				bad("Union", "law|"+tname, "Union%s has the symbols %v, want %v (a set: no element twice)", d, sorted(back(un)), wantUn)
			case sub != wantSub || subi != wantSub:
				bad("IsSubset", "law|"+tname, "IsSubset%s = %v (ForInterface %v), want %v", d, sub, subi, wantSub)
			}
		}
	}
}
