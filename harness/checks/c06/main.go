// C06: LinkedListQueue is a correct deque for every operation history.
// Engine E2: breadth-first search over operation histories on fresh real objects; reached states are
// de-duplicated on the complete private node graph (values renamed by first appearance) plus the
// model state; every return value is compared with an ideal deque.
package main

import (
	"fmt"
	"math"
	"os"
	"regexp"
	"strings"
	"time"

	fpgo "github.com/TeaEntityLab/fpGo/v2"
	"github.com/TeaEntityLab/fpGo/v2/zzverif/vsched"
	"verifharness/lib"
)

type op struct {
	name   string
	insert bool
	// run applies the op to the real object (v is the fresh value for inserts) and to the model;
	// returns observed and expected renderings.
	run func(q *fpgo.LinkedListQueue[int], m *[]int, v int) (got, want string)
}

func res(val int, err error) string {
	if err != nil {
		return "err:" + err.Error()
	}
	return fmt.Sprintf("val:%d", val)
}

func popHead(m *[]int, empty error) string {
	if len(*m) == 0 {
		return "err:" + empty.Error()
	}
	v := (*m)[0]
	*m = (*m)[1:]
	return fmt.Sprintf("val:%d", v)
}

func errStr(err error) string {
	if err != nil {
		return "err:" + err.Error()
	}
	return "ok"
}

func ops() []op {
	tail := func(name string, f func(q *fpgo.LinkedListQueue[int], v int) error) op {
		return op{name: name, insert: true, run: func(q *fpgo.LinkedListQueue[int], m *[]int, v int) (string, string) {
			e := f(q, v)
			*m = append(*m, v)
			return errStr(e), "ok"
		}}
	}
	head := func(name string, f func(q *fpgo.LinkedListQueue[int]) (int, error)) op {
		return op{name: name, run: func(q *fpgo.LinkedListQueue[int], m *[]int, v int) (string, string) {
			val, e := f(q)
			return res(val, e), popHead(m, fpgo.ErrQueueIsEmpty)
		}}
	}
	keep := func(n int) op {
		return op{name: fmt.Sprintf("KeepNodePoolCount(%d)", n), run: func(q *fpgo.LinkedListQueue[int], m *[]int, v int) (string, string) {
			q.KeepNodePoolCount(n)
			return "ok", "ok"
		}}
	}
	return []op{
		tail("Offer", func(q *fpgo.LinkedListQueue[int], v int) error { return q.Offer(v) }),
		head("Poll", func(q *fpgo.LinkedListQueue[int]) (int, error) { return q.Poll() }),
		{name: "Pop", run: func(q *fpgo.LinkedListQueue[int], m *[]int, v int) (string, string) {
			var s fpgo.Stack[int] = q // through the Stack view
			val, e := s.Pop()
			want := ""
			if len(*m) == 0 {
				want = "err:" + fpgo.ErrStackIsEmpty.Error()
			} else {
				want = fmt.Sprintf("val:%d", (*m)[len(*m)-1])
				*m = (*m)[:len(*m)-1]
			}
			return res(val, e), want
		}},
		{name: "Unshift", insert: true, run: func(q *fpgo.LinkedListQueue[int], m *[]int, v int) (string, string) {
			e := q.Unshift(v)
			*m = append([]int{v}, *m...)
			return errStr(e), "ok"
		}},
		head("Shift", func(q *fpgo.LinkedListQueue[int]) (int, error) { return q.Shift() }),
		tail("Push", func(q *fpgo.LinkedListQueue[int], v int) error { var s fpgo.Stack[int] = q; return s.Push(v) }),
		{name: "Peek", run: func(q *fpgo.LinkedListQueue[int], m *[]int, v int) (string, string) {
			val, e := q.Peek()
			if len(*m) == 0 {
				return res(val, e), "err:" + fpgo.ErrQueueIsEmpty.Error()
			}
			return res(val, e), fmt.Sprintf("val:%d", (*m)[0])
		}},
		{name: "Count", run: func(q *fpgo.LinkedListQueue[int], m *[]int, v int) (string, string) {
			return fmt.Sprint(q.Count()), fmt.Sprint(len(*m))
		}},
		{name: "Clear", run: func(q *fpgo.LinkedListQueue[int], m *[]int, v int) (string, string) {
			q.Clear()
			*m = nil
			return "ok", "ok"
		}},
		tail("Put", func(q *fpgo.LinkedListQueue[int], v int) error { var qi fpgo.Queue[int] = q; return qi.Put(v) }),
		head("Take", func(q *fpgo.LinkedListQueue[int]) (int, error) { var qi fpgo.Queue[int] = q; return qi.Take() }),
		keep(0), keep(1), keep(3),
		{name: "ClearNodePool", run: func(q *fpgo.LinkedListQueue[int], m *[]int, v int) (string, string) {
			q.ClearNodePool()
			return "ok", "ok"
		}},
		// the environment's answer to the container's clock reads (if it makes any): nothing happens for an hour
		{name: "Idle1h", run: func(q *fpgo.LinkedListQueue[int], m *[]int, v int) (string, string) {
			clock = clock.Add(time.Hour)
			pendingIdle = time.Hour
			return "ok", "ok"
		}},
		{name: "Idle2s", run: func(q *fpgo.LinkedListQueue[int], m *[]int, v int) (string, string) {
			clock = clock.Add(2 * time.Second)
			if pendingIdle < 2*time.Second {
				pendingIdle = 2 * time.Second
			}
			return "ok", "ok"
		}},
	}
}

// clock: what the container reads when it asks for the time (sync-only instrumentation routes time.Now / Since / Until
// of the library to vsched.ManualNow): a microsecond per reading, plus what the Idle operations add.
var clock time.Time

// pendingIdle: the idle time since the last container operation (part of the state key: a container that looks at the
// clock behaves differently after it; further idling in an already idle state adds nothing beyond the longest period)
var pendingIdle time.Duration

func manualNow() time.Time {
	clock = clock.Add(time.Microsecond)
	return clock
}

var valRe = regexp.MustCompile(`\b1[0-9]{3}\b`)

// canonKey renames the (distinct, fresh) stored values by first appearance: the container is
// generic in T and never inspects values, so states equal up to renaming have the same futures.
func canonKey(q *fpgo.LinkedListQueue[int], m []int) string {
	s := lib.Canon(q) + " ## " + fmt.Sprint(m)
	names := map[string]string{}
	return valRe.ReplaceAllStringFunc(s, func(x string) string {
		if n, ok := names[x]; ok {
			return n
		}
		n := fmt.Sprintf("v%d", len(names))
		names[x] = n
		return n
	})
}

type outcome struct {
	key     string
	fail    string // "" or description
	clause  string
	modelLn int
}

// replay runs a history (op indices) on a fresh object; returns the outcome after the last op.
func replay(all []op, hist []int) (o outcome) {
	clock = time.Date(2024, 1, 1, 0, 0, 0, 0, time.UTC)
	q := fpgo.NewLinkedListQueue[int]()
	var m []int
	lib.Beat(hist)
	pendingIdle = 0
	for i, oi := range hist {
		var got, want string
		if !strings.HasPrefix(all[oi].name, "Idle") {
			pendingIdle = 0
		}
		p := lib.Catch(func() { got, want = all[oi].run(q, &m, 1000+i) })
		if p != "" {
			o.fail = fmt.Sprintf("step %d %s: %s", i, all[oi].name, p)
			o.clause = "panic"
			return
		}
		if got != want {
			o.fail = fmt.Sprintf("step %d %s returned %s, ideal deque gives %s", i, all[oi].name, got, want)
			o.clause = "wrong-result"
			return
		}
	}
	p := lib.Catch(func() {
		if q.Count() != len(m) {
			o.fail = fmt.Sprintf("Count()=%d, ideal length %d", q.Count(), len(m))
			o.clause = "count"
		}
	})
	if p != "" {
		o.fail, o.clause = "Count: "+p, "panic"
	}
	if o.fail == "" {
		o.key = canonKey(q, m) + fmt.Sprint(" idle=", pendingIdle)
		o.modelLn = len(m)
	}
	return
}

func names(all []op, h []int) []string {
	var s []string
	for _, i := range h {
		s = append(s, all[i].name)
	}
	return s
}

func main() {
	r := lib.NewReport("C06")
	defer r.Guard()
	all := ops()
	clock = time.Date(2024, 1, 1, 0, 0, 0, 0, time.UTC)
	vsched.ManualNow = manualNow
	maxItems, maxDepth := 3, 14
	if r.Tier == "thorough" {
		maxItems, maxDepth = 5, 40
	}
	seen := map[string]bool{}
	transitions, depth, maxLenSeen := 0, 0, 0
	closedAll := true
	var samples lib.Samples
	samples.N = 6
	opsUsed := map[string]int{}
	lib.WatchHangs(func(d interface{}) {
		h, _ := d.([]int)
		last := "?"
		if len(h) > 0 {
			last = all[h[len(h)-1]].name
		}
		r.Violation("C06|"+last+"|hang", "operation does not return (spins forever); history: "+strings.Join(names(all, h), ","),
			map[string]interface{}{"history": names(all, h), "failure": "no return within 30 s wall clock", "go_test": goTest(all, h)})
		r.NotExhaustive("search stopped at the first non-returning operation")
		r.Cov["states"], r.Cov["transitions"], r.Cov["traces_validated_against_impl"] = len(seen), transitions, transitions
		r.Cov["samples"] = []interface{}{names(all, h)}
		r.Finish()
	})
	for _, retain := range []int{0, 1, 2} {
		// sync.Pool may hand back any node put earlier or a fresh one: both extreme policies are explored
		vsched.PoolRetain = retain
		policy := []string{"sync.Pool retains nothing", "sync.Pool retains everything (LIFO)", "sync.Pool retains everything (FIFO)"}[retain]
		init := replay(all, nil)
		seen[fmt.Sprint(retain)+init.key] = true
		frontier := [][]int{{}}
		closed := false
		for d := 0; d < maxDepth; d++ {
			var next [][]int
			for _, h := range frontier {
				// model length of this state (to bound inserts)
				cur := replay(all, h)
				for oi := range all {
					if all[oi].insert && cur.modelLn >= maxItems {
						continue
					}
					nh := append(append([]int{}, h...), oi)
					o := replay(all, nh)
					transitions++
					opsUsed[all[oi].name]++
					if o.fail != "" {
						key := fmt.Sprintf("C06|%s|%s", all[oi].name, o.clause)
						r.Violation(key, o.fail+" ; history: "+strings.Join(names(all, nh), ",")+" ; "+policy, map[string]interface{}{
							"history": names(all, nh), "failure": o.fail, "sync_pool_policy": policy,
							"go_test": goTest(all, nh)})
						continue
					}
					if !seen[fmt.Sprint(retain)+o.key] {
						seen[fmt.Sprint(retain)+o.key] = true
						next = append(next, nh)
						if o.modelLn > maxLenSeen {
							maxLenSeen = o.modelLn
						}
						if len(nh) >= 4 {
							samples.Add(names(all, nh))
						}
					}
				}
			}
			depth = d + 1
			if os.Getenv("C06_DEBUG") != "" && len(next) > 0 {
				o := replay(all, next[len(next)-1])
				fmt.Println("depth", depth, "new", len(next), names(all, next[len(next)-1]), o.key)
			}
			frontier = next
			if len(frontier) == 0 {
				closed = true
				break
			}
		}
		if !closed {
			closedAll = false
			r.NotExhaustive(fmt.Sprintf("depth cap %d reached with %d frontier states left (%s); every history up to that depth was covered", maxDepth, len(frontier), policy))
		}
	}
	closed := closedAll
	bursts, burstOps := burstFamily(r, all)
	transitions += burstOps
	vsched.PoolRetain = 1
	_, payOps := payloadFamily(r)
	transitions += payOps
	vsched.PoolRetain = 0
	r.Cov["states"] = len(seen)
	r.Cov["transitions"] = transitions
	r.Cov["traces_validated_against_impl"] = transitions
	r.Cov["samples"] = samples.List
	r.Cov["max_depth"] = depth
	r.Cov["state_space_closed"] = closed
	r.Cov["bound"] = fmt.Sprintf("at most %d stored items; alphabet of %d operations; BFS until no new canonical state (depth cap %d); both sync.Pool policies; burst histories Offer^n Poll^n Offer^n Poll^(n+1) and Push^n Pop^n Unshift^n Shift^(n+1) for every n up to %d and n in {1025, 1100, 2049, 4097, 5000}", maxItems, len(all), maxDepth, bursts)
	r.Cov["evaluations"] = transitions
	r.Cov["distinct_nontrivial"] = len(seen)
	r.Cov["rule"] = "a state is the canonical dump of the complete private node graph (list chain via Next and Prev, pool chain, counters) plus the model deque, values renamed by first appearance; every distinct state is counted"
	r.Cov["ops_applied"] = opsUsed
	r.Assume = []string{"values are opaque to the container (generic T): renaming stored values preserves futures", "sync.Pool is only a node allocator (its content never carries state)"}
	r.Finish()
}

// burstFamily: deep back-logs (any free-list / pool size threshold below the bound is crossed):
// fill n, drain n, fill n again, drain n+1, under both sync.Pool policies, tail- and head-wise.
func burstFamily(r *lib.Report, all []op) (int, int) {
	maxN := 600
	if r.Tier == "thorough" {
		maxN = 1500
	}
	opsDone := 0
	for _, retain := range []int{0, 1, 2} {
		vsched.PoolRetain = retain
		sizes := []int{}
		for n := 1; n <= maxN; n++ {
			sizes = append(sizes, n)
		}
		// a few deep bursts beyond the dense range: a burst of n crosses every size threshold below n
		for _, n := range []int{1025, 1100, 2049, 4097, 5000, 8193, 10000} {
			if n > maxN && (n <= 5000 || r.Tier == "thorough") {
				sizes = append(sizes, n)
			}
		}
		for _, n := range sizes {
			for variant := 0; variant < 2; variant++ {
				lib.Beat([]int{})
				q := fpgo.NewLinkedListQueue[int]()
				var m []int
				fail := ""
				p := lib.Catch(func() {
					step := func(what string, got, want string) {
						opsDone++
						if fail == "" && got != want {
							fail = fmt.Sprintf("%s returned %s, ideal deque gives %s", what, got, want)
						}
					}
					next := 0
					for round := 0; round < 2 && fail == ""; round++ {
						for i := 0; i < n; i++ {
							next++
							if variant == 0 || round == 0 {
								q.Offer(next)
								m = append(m, next)
							} else {
								q.Unshift(next)
								m = append([]int{next}, m...)
							}
							opsDone++
						}
						if q.Count() != len(m) {
							fail = fmt.Sprintf("Count()=%d after filling, ideal %d", q.Count(), len(m))
						}
						for i := 0; i < n+round && fail == ""; i++ {
							var v int
							var e error
							var want string
							if variant == 0 || round == 1 {
								v, e = q.Poll()
								want = popHead(&m, fpgo.ErrQueueIsEmpty)
							} else {
								v, e = q.Pop()
								if len(m) == 0 {
									want = "err:" + fpgo.ErrStackIsEmpty.Error()
								} else {
									want = fmt.Sprintf("val:%d", m[len(m)-1])
									m = m[:len(m)-1]
								}
							}
							step("removal", res(v, e), want)
						}
					}
				})
				if p != "" {
					fail = p
				}
				if fail != "" {
					r.Violation("C06|burst|"+map[bool]string{true: "panic", false: "wrong-result"}[p != ""], fmt.Sprintf("burst of %d (variant %d, sync.Pool retains=%v): %s", n, variant, retain, fail),
						map[string]interface{}{"n": n, "variant": variant, "sync_pool_policy": retain, "failure": fail})
				}
			}
		}
	}
	return maxN, opsDone
}

// payloadFamily: the container is generic, what it stores is opaque to it. Every history up to depth 5 over
// {Offer, Unshift, Poll, Pop, Peek}, the i-th insertion storing the (offset+i)-th value of a table, for every
// offset, on several instantiations: interface{} (lib.Payloads(): nil, a typed nil pointer, zero values,
// -0.0, two distinct pointers to equal values, an error value, ...), float64 (-0, +0, NaN-free), *int
// (nil and equal-but-distinct pointers), string, a struct with a pointer field. Removals and Peek return
// exactly the stored value (lib.Show renders identity and sign).
func payloadFamily(r *lib.Report) (int, int) {
	h, o := 0, 0
	add := func(a, b int) { h, o = h+a, o+b }
	add(historiesOver(r, "interface{}", lib.Payloads(), func(v interface{}) string { return lib.Show(v) }))
	add(historiesOver(r, "float64", []float64{math.Copysign(0, -1), 0, 1.5, math.Inf(-1)}, func(v float64) string { return lib.Show(v) }))
	add(historiesOver(r, "*int", []*int{nil, lib.P1, lib.P2}, func(v *int) string { return lib.Show(v) }))
	add(historiesOver(r, "string", []string{"", "a", "A"}, func(v string) string { return lib.Show(v) }))
	add(historiesOver(r, "lib.Tagged", []lib.Tagged{{}, {N: 1, P: lib.P1}, {N: 1, P: lib.P2}}, func(v lib.Tagged) string { return lib.Show(v) }))
	add(historiesOver(r, "bool", []bool{false, true}, func(v bool) string { return lib.Show(v) }))
	return h, o
}

func historiesOver[T any](r *lib.Report, tname string, pay []T, show func(T) string) (int, int) {
	names := []string{"Offer", "Unshift", "Poll", "Pop", "Peek"}
	histories, opsDone := 0, 0
	var hist []int
	var rec func()
	run := func(offset int) string {
		q := fpgo.NewLinkedListQueue[T]()
		var m []T
		ins := 0
		for step, o := range hist {
			opsDone++
			switch names[o] {
			case "Offer", "Unshift":
				v := pay[(offset+ins)%len(pay)]
				ins++
				if names[o] == "Offer" {
					q.Offer(v)
					m = append(m, v)
				} else {
					q.Unshift(v)
					m = append([]T{v}, m...)
				}
			case "Poll", "Pop", "Peek":
				var got T
				var err error
				idx := 0
				switch names[o] {
				case "Poll":
					got, err = q.Poll()
				case "Pop":
					got, err = q.Pop()
					idx = len(m) - 1
				default:
					got, err = q.Peek()
				}
				if len(m) == 0 {
					if err == nil {
						return fmt.Sprintf("step %d %s on an empty queue returned %s with a nil error", step, names[o], show(got))
					}
					continue
				}
				if err != nil || show(got) != show(m[idx]) {
					return fmt.Sprintf("step %d %s returned (%s, %v), the stored value is %s", step, names[o], show(got), err, show(m[idx]))
				}
				if names[o] == "Poll" {
					m = m[1:]
				} else if names[o] == "Pop" {
					m = m[:len(m)-1]
				}
			}
			if q.Count() != len(m) {
				return fmt.Sprintf("step %d: Count()=%d, %d values are stored", step, q.Count(), len(m))
			}
		}
		return ""
	}
	rec = func() {
		if len(hist) > 0 {
			for offset := range pay {
				histories++
				fail := ""
				if p := lib.Catch(func() { fail = run(offset) }); p != "" {
					fail = "panic: " + p
				}
				if fail != "" {
					var hn []string
					for _, o := range hist {
						hn = append(hn, names[o])
					}
					r.Violation("C06|payload|"+tname, fmt.Sprintf("history %v on LinkedListQueue[%s], insertions store the value table from index %d on: %s", hn, tname, offset, fail),
						map[string]interface{}{"history": hn, "element_type": tname, "payload_offset": offset})
					return
				}
			}
		}
		if len(hist) == 5 {
			return
		}
		for o := range names {
			hist = append(hist, o)
			rec()
			hist = hist[:len(hist)-1]
		}
	}
	rec()
	return histories, opsDone
}

func goTest(all []op, h []int) string {
	var b strings.Builder
	b.WriteString("func TestReplayC06(t *testing.T) {\n\tq := fpgo.NewLinkedListQueue[int]()\n")
	for i, oi := range h {
		n := all[oi].name
		switch {
		case all[oi].insert:
			fmt.Fprintf(&b, "\tq.%s(%d)\n", n, 1000+i)
		case strings.HasPrefix(n, "Keep"), n == "ClearNodePool", n == "Clear":
			if strings.Contains(n, "(") {
				fmt.Fprintf(&b, "\tq.%s\n", n)
			} else {
				fmt.Fprintf(&b, "\tq.%s()\n", n)
			}
		default:
			fmt.Fprintf(&b, "\tt.Log(q.%s())\n", n)
		}
	}
	b.WriteString("}\n")
	return b.String()
}
