// C07: Channel / Buffered queues — bounded, FIFO, exactly-once delivery, nothing stranded.
package main

import (
	"time"

	"verifharness/lib/e1"
)

func main() {
	e1.Main("C07", scenarios, e1.Budget{Quick: 110 * time.Second, Thorough: 25 * time.Minute},
		[]string{"the capacity invariant is evaluated at every scheduling step at which the queue's lock is free"})
}
