package main

import (
	"fmt"
	"math"
	"sort"
	"strings"
	"sync"
	"time"

	fpgo "github.com/TeaEntityLab/fpGo/v2"
	"github.com/TeaEntityLab/fpGo/v2/zzverif/vsched"
	"verifharness/lib"
	"verifharness/lib/e1"
)

func errName(err error) string {
	switch err {
	case nil:
		return "nil"
	case fpgo.ErrQueueIsClosed:
		return "closed"
	case fpgo.ErrQueueIsFull:
		return "full"
	case fpgo.ErrQueueIsEmpty:
		return "empty"
	case fpgo.ErrQueueTakeTimeout:
		return "take-timeout"
	case fpgo.ErrQueuePutTimeout:
		return "put-timeout"
	}
	return "other:" + err.Error()
}

// probeState reads the private state the capacity clause talks about.
type probeState struct {
	q *fpgo.BufferedChannelQueue[int]
}

func (p probeState) overflow() int { return int(lib.Priv(p.q, "pool", "count").Int()) }
func (p probeState) chanLen() int {
	ch := lib.Priv(p.q, "blockingQueue").Interface().(fpgo.ChannelQueue[int])
	return vsched.C((chan int)(ch)).Len()
}
func (p probeState) lockFree() bool {
	l := lib.Priv(p.q, "lock")
	return l.Addr().Interface().(interface{ VerifFree() bool }).VerifFree()
}

// bufScenario: producers offer/put tagged values (producer p, k-th value = p*10+k+1), consumers run
// short scripts, then main drains with Poll + virtual sleeps until the queue stays empty.
func bufScenario(capacity, bufMax int, producers [][]string, consumers [][]string, bound int, delay bool) *vsched.Scenario {
	return bufScenarioD(capacity, bufMax, producers, consumers, "poll", bound, delay)
}

// drain "poll": repeated Poll with pauses; drain "take": one blocking Take per outstanding item.
func bufScenarioD(capacity, bufMax int, producers [][]string, consumers [][]string, drain string, bound int, delay bool) *vsched.Scenario {
	return bufScenarioX(capacity, bufMax, producers, consumers, drain, bound, delay, "")
}

// setters: the queue is built with another buffer maximum and configured through its setters
// (buffer maximum, loader interval 3 ms instead of the default, node-hook settings) before use.
func bufScenarioX(capacity, bufMax int, producers [][]string, consumers [][]string, drain string, bound int, delay bool, mode string) *vsched.Scenario {
	setters := mode == "setters"
	fam := "buffered"
	var ps probeState
	var fullTick, emptyTick, maxHeld int
	justShrunk := false
	curMax, prevHeld := bufMax, 0 // the limit in force (a producer script may lower it), holdings at the previous lock-free step
	name := fmt.Sprintf("buffered/cap%d/buf%d/P:%s/C:%s/drain-%s", capacity, bufMax, scripts(producers), scripts(consumers), drain)
	if setters {
		name += "/configured-by-setters"
	}
	if strings.HasPrefix(mode, "trim") {
		name += "/node-pool-1-trimmed-every-5ms/sync.Pool-policy" + mode[4:]
	}
	if strings.HasPrefix(mode, "reuse") {
		name += "/sync.Pool-policy" + mode[5:]
	}
	horizon, maxSteps := int64(400*time.Millisecond), 8000
	if strings.HasPrefix(mode, "trim") && len(mode) > 5 { // the long burst scripts need more virtual time (each value waits for a loader pass)
		horizon, maxSteps = int64(5*time.Second), 60000
	}
	return &vsched.Scenario{
		Name:     name,
		Bound:    bound,
		Delay:    delay,
		TimerDev: true,
		MaxSteps: maxSteps,
		Horizon:  horizon,
		Body: func() {
			fullTick, emptyTick, maxHeld = 0, 0, 0
			curMax, prevHeld, justShrunk = bufMax, 0, false
			q := fpgo.NewBufferedChannelQueue[int](capacity, bufMax, 100)
			if setters {
				q = fpgo.NewBufferedChannelQueue[int](capacity, bufMax+5, 1).SetBufferSizeMaximum(bufMax).SetLoadFromPoolDuration(3 * time.Millisecond).
					SetNodeHookPoolSize(100).SetFreeNodeHookPoolIntervalDuration(time.Hour)
				vsched.Event("config", q.GetBufferSizeMaximum() == bufMax && q.GetLoadFromPoolDuration() == 3*time.Millisecond &&
					q.GetNodeHookPoolSize() == 100 && q.GetFreeNodeHookPoolIntervalDuration() == time.Hour)
			}
			vsched.PoolRetain = 0
			if strings.HasPrefix(mode, "reuse") {
				vsched.PoolRetain = int(mode[5] - '0')
			}
			if strings.HasPrefix(mode, "trim") {
				// one node hook kept by the queue, the free-node worker trims every 5 virtual ms, sync.Pool retains
				vsched.PoolRetain = int(mode[4] - '0')
				hooks := 1
				if len(mode) > 5 { // "trim<policy>h<hooks>"
					hooks = int(mode[6] - '0')
				}
				q = fpgo.NewBufferedChannelQueue[int](capacity, bufMax, hooks).SetFreeNodeHookPoolIntervalDuration(5 * time.Millisecond)
			}
			ps = probeState{q}
			var wg sync.WaitGroup
			for pi, script := range producers {
				pi, script := pi, script
				wg.Add(1)
				vsched.GoNamed(fmt.Sprintf("producer%d", pi), func() {
					for k, op := range script {
						v := pi*10 + k + 1
						f0 := fullTick
						var err error
						if op == "drainall" { // the producer takes everything back, then pauses (the free-node worker trims)
							for q.Count() > 0 {
								got, err := q.TakeWithTimeout(30 * time.Millisecond)
								if err != nil {
									vsched.Event("drain-miss", errName(err), true)
									break
								}
								vsched.Event("got", 98, got, "take")
							}
							time.Sleep(12 * time.Millisecond)
							vsched.Event("idle-over", int(lib.Priv(q, "pool", "nodeCount").Int()))
							continue
						}
						if op == "shrink1" { // lower the overflow limit to 1 while items are buffered
							q.SetBufferSizeMaximum(1)
							curMax, justShrunk = 1, true
							vsched.Event("shrunk", q.GetBufferSizeMaximum())
							continue
						}
						if op == "put" {
							err = q.Put(v)
						} else {
							err = q.Offer(v)
						}
						vsched.Event("offer", v, errName(err), fullTick != f0)
					}
					wg.Done()
				})
			}
			for ci, script := range consumers {
				ci, script := ci, script
				wg.Add(1)
				vsched.GoNamed(fmt.Sprintf("consumer%d", ci), func() {
					for _, op := range script {
						consume(q, ci, op, &emptyTick)
					}
					wg.Done()
				})
			}
			wg.Wait()
			vsched.Event("joined")
			if drain == "take" {
				// repeated blocking Take calls, one per outstanding item: each must return
				for q.Count() > 0 {
					v, err := q.Take()
					if err != nil {
						vsched.Event("drain-miss", errName(err), true)
						break
					}
					vsched.Event("got", 99, v, "take")
				}
				vsched.Event("count", q.Count())
				return
			}
			// drain: no further Offer; repeated Poll calls (with pauses that let the loader run)
			// (a miss while Count() still reports items only means the loader has not run yet: keep polling)
			empties := 0
			rounds := 12
			if capacity == 0 {
				rounds = 3 // unbuffered: the drain clause does not apply (only a waiting consumer can be handed an item)
			}
			for round := 0; round < rounds && empties < 2; round++ {
				e0 := emptyTick
				v, err := q.Poll()
				if err == nil {
					vsched.Event("got", 99, v, "poll")
					empties = 0
					continue
				}
				vsched.Event("drain-miss", errName(err), emptyTick != e0)
				if q.Count() == 0 {
					empties++
				}
				time.Sleep(15 * time.Millisecond)
			}
			vsched.Event("count", q.Count())
		},
		Invariant: func() string {
			if ps.q == nil {
				return ""
			}
			ov, cl := ps.overflow(), ps.chanLen()
			// "full" in the sense of the property: the overflow buffer is at its maximum (and, when the
			// overflow is empty, the channel could not accept either)
			if ov >= curMax && (ov > 0 || cl >= capacity) {
				fullTick++
			}
			if cl == 0 {
				emptyTick++
			}
			if ps.lockFree() {
				if ov+cl > maxHeld {
					maxHeld = ov + cl
				}
				// (after the limit was lowered the queue may still hold what it held, but it must not grow)
				if justShrunk {
					prevHeld, justShrunk = ov+cl, false
				}
				if ov+cl > capacity+curMax && (curMax == bufMax || ov+cl > prevHeld) {
					return fmt.Sprintf("queue holds %d items (channel %d + overflow %d), more than channelCapacity %d + bufferSizeMaximum %d (held %d one step earlier)", ov+cl, cl, ov, capacity, curMax, prevHeld)
				}
				prevHeld = ov + cl
			}
			return ""
		},
		Check: func(r *vsched.Result) []vsched.Failure {
			allowTake := func(p vsched.ParkedInfo) bool { return false }
			fs := e1.Basic("C07", fam, r, allowTake)
			if len(r.Panics) > 0 || r.Cap != "" || r.InvFail != "" {
				return fs
			}
			if e1.Count(r, "config", false) > 0 {
				fs = append(fs, e1.Fail("C07|"+fam+"|configuration", "a getter does not return what the matching setter was given"))
			}
			accepted := map[int]bool{}
			for _, e := range r.Events {
				if e.Kind != "offer" {
					continue
				}
				v, res, sawFull := e.Args[0].(int), e.Args[1].(string), e.Args[2].(bool)
				switch res {
				case "nil":
					accepted[v] = true
				case "full":
					if !sawFull {
						fs = append(fs, e1.Fail("C07|"+fam+"|spurious-full", "Offer(%d) failed with ErrQueueIsFull although at no step during the call the overflow buffer was at its maximum", v))
					}
				default:
					fs = append(fs, e1.Fail("C07|"+fam+"|offer-error", "Offer(%d) returned %s", v, res))
				}
			}
			got := map[int]int{}
			lastBy := map[[2]int]int{}
			for _, e := range r.Events {
				switch e.Kind {
				case "got":
					c, v := e.Args[0].(int), e.Args[1].(int)
					got[v]++
					if !accepted[v] {
						fs = append(fs, e1.Fail("C07|"+fam+"|invented", "value %d was delivered but never accepted", v))
					}
					k := [2]int{c, v / 10}
					if prev, ok := lastBy[k]; ok && v < prev {
						fs = append(fs, e1.Fail("C07|"+fam+"|fifo", "consumer %d received %d after %d (same producer)", c, v, prev))
					}
					lastBy[k] = v
				case "miss":
					if e.Args[1].(string) == "empty" && !e.Args[2].(bool) {
						fs = append(fs, e1.Fail("C07|"+fam+"|spurious-empty", "Poll failed with ErrQueueIsEmpty although the channel was never empty during the call"))
					}
					if strings.HasPrefix(e.Args[1].(string), "other") || e.Args[1].(string) == "closed" {
						fs = append(fs, e1.Fail("C07|"+fam+"|consume-error", "consumer got %s", e.Args[1]))
					}
				}
			}
			for v, n := range got {
				if n > 1 {
					fs = append(fs, e1.Fail("C07|"+fam+"|duplicate", "value %d delivered %d times", v, n))
				}
			}
			// single producer + single stream of receives: global FIFO is covered by the per-consumer check
			if capacity >= 1 || drain == "take" {
				var lost []int
				for v := range accepted {
					if got[v] == 0 {
						lost = append(lost, v)
					}
				}
				sort.Ints(lost)
				if len(lost) > 0 {
					fs = append(fs, e1.Fail("C07|"+fam+"|stranded", "accepted values %v were never delivered although the drain kept polling (maximum held %d)", lost, maxHeld))
				}
				want := 0
				if c := e1.Index(r, "count"); c >= 0 {
					if r.Events[c].Args[0].(int) != want && len(lost) == 0 {
						fs = append(fs, e1.Fail("C07|"+fam+"|count", "Count()=%v at quiescence, accepted minus delivered is %d", r.Events[c].Args[0], want))
					}
				}
			}
			return fs
		},
	}
}

func consume(q *fpgo.BufferedChannelQueue[int], ci int, op string, emptyTick *int) {
	e0 := *emptyTick
	switch op {
	case "poll":
		v, err := q.Poll()
		if err == nil {
			vsched.Event("got", ci, v, op)
		} else {
			vsched.Event("miss", ci, errName(err), *emptyTick != e0)
		}
	case "take":
		v, err := q.TakeWithTimeout(40 * time.Millisecond)
		if err == nil {
			vsched.Event("got", ci, v, op)
		} else {
			vsched.Event("miss", ci, errName(err), true)
		}
	case "taket":
		v, err := q.TakeWithTimeout(5 * time.Millisecond)
		if err == nil {
			vsched.Event("got", ci, v, op)
		} else {
			vsched.Event("miss", ci, errName(err), true)
		}
	case "chan":
		select {
		case v, ok := <-q.GetChannel():
			if ok {
				vsched.Event("got", ci, v, op)
			} else {
				vsched.Event("miss", ci, "closed", true)
			}
		case <-time.After(5 * time.Millisecond):
			vsched.Event("miss", ci, "take-timeout", true)
		}
	}
}

func scripts(s [][]string) string {
	var parts []string
	for _, x := range s {
		parts = append(parts, strings.Join(x, "."))
	}
	return strings.Join(parts, "|")
}

// chanScenario: the plain ChannelQueue wrappers.
func chanScenario(capacity int, bound int) *vsched.Scenario {
	fam := "channel"
	return &vsched.Scenario{
		Name:     fmt.Sprintf("channelqueue/cap%d", capacity),
		Bound:    bound,
		TimerDev: true,
		Body: func() {
			q := fpgo.NewChannelQueue[int](capacity)
			var wg sync.WaitGroup
			wg.Add(2)
			vsched.GoNamed("producer", func() {
				vsched.Event("offer", 1, errName(q.Offer(1)), capacity)
				vsched.Event("offer", 2, errName(q.PutWithTimeout(2, 5*time.Millisecond)), capacity)
				vsched.Event("offer", 3, errName(q.Put(3)), capacity)
				wg.Done()
			})
			vsched.GoNamed("consumer", func() {
				for i := 0; i < 2; i++ {
					v, err := q.TakeWithTimeout(20 * time.Millisecond)
					vsched.Event("take", v, errName(err))
				}
				v, err := q.Take()
				vsched.Event("take", v, errName(err))
				v, err = q.Poll()
				vsched.Event("take", v, errName(err))
				wg.Done()
			})
			wg.Wait()
		},
		Check: func(r *vsched.Result) []vsched.Failure {
			fs := e1.Basic("C07", fam, r, func(p vsched.ParkedInfo) bool { return true })
			if len(r.Panics) > 0 {
				return fs
			}
			var acc, got []int
			for _, e := range r.Events {
				if e.Kind == "offer" && e.Args[1].(string) == "nil" {
					acc = append(acc, e.Args[0].(int))
				}
				if e.Kind == "offer" && e.Args[1].(string) == "full" && capacity > 0 && e.Args[0].(int) == 1 {
					fs = append(fs, e1.Fail("C07|channel|spurious-full", "Offer on an empty channel of capacity %d reported full", capacity))
				}
				if e.Kind == "take" && e.Args[1].(string) == "nil" {
					got = append(got, e.Args[0].(int))
				}
			}
			// FIFO with a single producer: the received sequence is a prefix-respecting subsequence of accepted
			j := 0
			for _, g := range got {
				for j < len(acc) && acc[j] != g {
					j++
				}
				if j == len(acc) {
					fs = append(fs, e1.Fail("C07|channel|fifo", "received %v, accepted order %v", got, acc))
					break
				}
				j++
			}
			return fs
		},
	}
}

// pollersScenario: Poll never blocks. `items` values are in the queue and `pollers` goroutines call Poll once
// each at the same time: every call returns, each value goes to exactly one of them, the others are told
// the queue is empty.
func pollersScenario(kind string, items, pollers, bound int) *vsched.Scenario {
	fam := "pollers-" + kind
	return &vsched.Scenario{
		Name:  fmt.Sprintf("pollers/%s/items%d/pollers%d", kind, items, pollers),
		Bound: bound,
		Body: func() {
			var poll func() (int, error)
			if kind == "channelqueue" {
				q := fpgo.NewChannelQueue[int](2)
				for i := 0; i < items; i++ {
					q.Offer(10 + i)
				}
				poll = q.Poll
			} else {
				q := fpgo.NewBufferedChannelQueue[int](2, 2, 100)
				for i := 0; i < items; i++ {
					q.Offer(10 + i)
				}
				poll = q.Poll
			}
			for c := 0; c < pollers; c++ {
				c := c
				vsched.GoNamed(fmt.Sprintf("poller%d", c), func() {
					v, err := poll()
					vsched.Event("polled", c, v, errName(err))
				})
			}
		},
		Check: func(r *vsched.Result) []vsched.Failure {
			fs := e1.Basic("C07", fam, r, nil)
			if len(fs) > 0 {
				return fs
			}
			got, empty := map[int]int{}, 0
			for _, e := range r.Events {
				if e.Kind == "polled" {
					if e.Args[2].(string) == "nil" {
						got[e.Args[1].(int)]++
					} else if e.Args[2].(string) == "empty" {
						empty++
					} else {
						fs = append(fs, e1.Fail("C07|"+fam+"|wrong-error", "Poll returned %v", e.Args[2]))
					}
				}
			}
			served := pollers
			if items < served {
				served = items
			}
			if len(got) != served || empty != pollers-served {
				fs = append(fs, e1.Fail("C07|"+fam+"|wrong-result", "%d value(s) queued, %d concurrent Polls: values received %v, %d told empty", items, pollers, got, empty))
			}
			for v, n := range got {
				if n != 1 || v < 10 || v >= 10+items {
					fs = append(fs, e1.Fail("C07|"+fam+"|duplicate", "value %d received %d times", v, n))
				}
			}
			return fs
		},
	}
}

// parkedProducerScenario: an unbuffered ChannelQueue whose producer is parked in Put: the value is immediately
// available, so a consumer that only Polls gets it (Poll may report empty only while nothing is on offer).
func parkedProducerScenario(bound int) *vsched.Scenario {
	fam := "channel-unbuffered-poll"
	return &vsched.Scenario{
		Name:  "channelqueue/cap0/parked-put-then-poll",
		Bound: bound,
		Body: func() {
			q := fpgo.NewChannelQueue[int](0)
			vsched.GoNamed("producer", func() {
				vsched.Event("put", errName(q.Put(5)))
			})
			for i := 0; i < 3; i++ {
				time.Sleep(time.Millisecond) // the producer is parked in Put by now (virtual time passes at quiescence only)
				v, err := q.Poll()
				vsched.Event("polled", i, v, errName(err))
				if err == nil {
					return
				}
			}
			vsched.Event("gave-up")
			q.Take() // release the producer so that the scenario ends
		},
		Check: func(r *vsched.Result) []vsched.Failure {
			fs := e1.Basic("C07", fam, r, nil)
			if len(fs) > 0 {
				return fs
			}
			if e1.Count(r, "gave-up") > 0 || e1.Count(r, "polled", 0, 5, "nil") != 1 {
				fs = append(fs, e1.Fail("C07|"+fam+"|spurious-empty", "a producer is parked in Put on an unbuffered ChannelQueue; Poll answered %v", r.Events))
			}
			return fs
		},
	}
}

// payloadScenario: what the queue carries is opaque to it. One producer offers the given values (nil, typed
// nil pointers, zero values, equal neighbours, equal-but-distinct pointers ...) into a queue whose channel
// holds one of them and whose overflow buffer takes the rest; the driver then takes them all back: the
// accepted values come out exactly once, in order, as the very values that went in.
// rawChannelAfterIdle: values beyond the channel capacity wait in the overflow buffer; nobody consumes for `idle` of
// (virtual) time - 100 ms, 5 s, 10 min - and then a consumer that only holds GetChannel() receives: every accepted value
// still arrives, in order (the loader keeps serving the channel however long nothing moved).
func rawChannelAfterIdle(capacity, n int, idle time.Duration, bound int) *vsched.Scenario {
	fam := "buffered-raw-channel-after-idle"
	return &vsched.Scenario{
		Name:     fmt.Sprintf("buffered/cap%d/offers%d/idle-%v/receive-from-GetChannel", capacity, n, idle),
		Bound:    bound,
		MaxSteps: 4000000,
		Horizon:  int64(3*idle + 10*time.Second),
		Body: func() {
			q := fpgo.NewBufferedChannelQueue[int](capacity, 100, 100).SetLoadFromPoolDuration(idle / 20)
			ch := q.GetChannel()
			for i := 1; i <= n; i++ {
				vsched.Event("offer", i, errName(q.Offer(i)))
			}
			time.Sleep(idle)
			vsched.Event("idle-over")
			for i := 1; i <= n; i++ {
				select {
				case v := <-ch:
					vsched.Event("got", v)
				case <-time.After(idle + time.Second):
					vsched.Event("starved", i)
					return
				}
			}
			vsched.Event("all")
			q.Close()
		},
		Check: func(r *vsched.Result) []vsched.Failure {
			fs := e1.Basic("C07", fam, r, nil)
			if len(fs) > 0 || e1.Index(r, "idle-over") < 0 {
				return fs
			}
			var got []int
			for _, e := range r.Events {
				if e.Kind == "got" {
					got = append(got, e.Args[0].(int))
				}
			}
			want := []int{}
			for i := 1; i <= n; i++ {
				want = append(want, i)
			}
			if fmt.Sprint(got) != fmt.Sprint(want) {
				fs = append(fs, e1.Fail("C07|"+fam+"|lost-or-reordered", "%d values were accepted, nobody consumed for %v, then a receiver on GetChannel() got %v (and then waited %v in vain)", n, idle, got, idle+time.Second))
			}
			return fs
		},
	}
}

// bigBurstScenario: bursts of hundreds of values through the overflow buffer of a BufferedChannelQueue that keeps `hooks`
// node hooks, with a drain and an idle period (the free-node worker trims then) between two bursts: every value comes
// out once, in order. One producer/consumer, default schedule and every order at blocking points (bound 0): a long
// history rather than many interleavings; sync.Pool policy `pool` (1 / 2: it hands nodes back, LIFO / FIFO).
func bigBurstScenario(hooks int, bursts []int, idle time.Duration, pool int) *vsched.Scenario {
	fam := "buffered-big-bursts"
	return &vsched.Scenario{
		Name:      fmt.Sprintf("buffered/cap1/node-hooks%d/bursts%v/idle-%v/sync.Pool-policy%d", hooks, bursts, idle, pool),
		Bound:     0,
		FirstOnly: true,
		MaxSteps:  3000000,
		Horizon:   int64(time.Minute),
		Body: func() {
			vsched.PoolRetain = pool
			// the loader re-arms every 10 us and the free-node worker trims once per idle/4: a whole burst drains between two
			// trims, so that a trim cuts off a chain of hundreds of nodes at once (as when real jobs take microseconds)
			q := fpgo.NewBufferedChannelQueue[int](1, 100000, hooks).SetLoadFromPoolDuration(10 * time.Microsecond)
			if idle > 0 {
				q.SetFreeNodeHookPoolIntervalDuration(idle / 4)
			}
			next, expect := 0, 0
			for bi, n := range bursts {
				for i := 0; i < n; i++ {
					if err := q.Offer(next); err != nil {
						vsched.Event("offer-failed", next, errName(err))
						return
					}
					next++
				}
				for i := 0; i < n; i++ {
					v, err := q.TakeWithTimeout(time.Second)
					if err != nil || v != expect {
						vsched.Event("wrong", bi, i, v, errName(err), expect)
						return
					}
					expect++
				}
				time.Sleep(idle)
			}
			vsched.Event("all", expect)
			q.Close()
		},
		Check: func(r *vsched.Result) []vsched.Failure {
			fs := e1.Basic("C07", fam, r, nil)
			if len(fs) > 0 {
				return fs
			}
			total := 0
			for _, n := range bursts {
				total += n
			}
			if e1.Count(r, "all", total) != 1 {
				fs = append(fs, e1.Fail("C07|"+fam+"|lost-or-reordered", "bursts %v through the overflow buffer (node hooks %d, %v idle between bursts): %v", bursts, hooks, idle, r.Events[len(r.Events)-min(len(r.Events), 3):]))
			}
			return fs
		},
	}
}

func payloadScenario(label string, vals []interface{}, bound int) *vsched.Scenario {
	fam := "payload"
	return &vsched.Scenario{
		Name:     "buffered-payload/" + label,
		Bound:    bound,
		TimerDev: true,
		MaxSteps: 8000,
		Horizon:  int64(400 * time.Millisecond),
		Body: func() {
			vsched.PoolRetain = 0
			q := fpgo.NewBufferedChannelQueue[interface{}](1, len(vals), 100)
			done := make(chan int, 1)
			vsched.GoNamed("producer", func() {
				for i, v := range vals {
					vsched.Event("offer", i, errName(q.Offer(v)))
				}
				done <- 1
			})
			<-done
			for i := 0; i < len(vals); i++ {
				v, err := q.Take() // blocking: a value that never arrives shows as a blocked driver
				if err != nil {
					vsched.Event("take-failed", i, errName(err), q.Count())
					break
				}
				vsched.Event("took", i, lib.Show(v))
			}
			vsched.Event("count", q.Count())
		},
		Check: func(r *vsched.Result) []vsched.Failure {
			fs := e1.Basic("C07", fam, r, nil)
			if len(r.Panics) > 0 || r.Cap != "" {
				return fs
			}
			var want, got []string
			for _, e := range r.Events {
				switch e.Kind {
				case "offer":
					if e.Args[1].(string) == "nil" {
						want = append(want, lib.Show(vals[e.Args[0].(int)]))
					}
				case "took":
					got = append(got, e.Args[1].(string))
				case "take-failed":
					fs = append(fs, e1.Fail("C07|"+fam+"|stranded", "values %v: after %d removals TakeWithTimeout failed with %v while Count()=%v", label, e.Args[0], e.Args[1], e.Args[2]))
				}
			}
			if len(fs) == 0 && fmt.Sprint(got) != fmt.Sprint(want) {
				fs = append(fs, e1.Fail("C07|"+fam+"|wrong-values", "values %s: accepted %v, delivered %v", label, want, got))
			}
			if c := e1.Index(r, "count"); c >= 0 && len(fs) == 0 && r.Events[c].Args[0].(int) != 0 {
				fs = append(fs, e1.Fail("C07|"+fam+"|count", "Count()=%v after everything was taken", r.Events[c].Args[0]))
			}
			return fs
		},
	}
}

func scenarios(tier string) []*vsched.Scenario {
	var out []*vsched.Scenario
	for c := 0; c <= 2; c++ {
		out = append(out, chanScenario(c, 2))
	}
	out = append(out, parkedProducerScenario(1))
	for pool := 1; pool <= 2; pool++ {
		out = append(out, bigBurstScenario(100, []int{600, 350, 450, 250, 300}, 2*time.Second, pool), bigBurstScenario(1000, []int{300, 600, 300, 700, 300}, 2*time.Second, pool), bigBurstScenario(100, []int{600, 350, 450, 250, 300}, 40*time.Millisecond, pool),
			bigBurstScenario(300, []int{257, 513, 257, 1025, 300}, 0, pool))
	}
	for _, idle := range []time.Duration{100 * time.Millisecond, 5 * time.Second, 10 * time.Minute} {
		out = append(out, rawChannelAfterIdle(2, 6, idle, 1), rawChannelAfterIdle(0, 3, idle, 1))
	}
	for _, kind := range []string{"channelqueue", "bufferedchannelqueue"} {
		out = append(out, pollersScenario(kind, 1, 2, 2), pollersScenario(kind, 2, 3, 2), pollersScenario(kind, 0, 2, 1))
	}
	out = append(out,
		payloadScenario("nil-and-pointers", []interface{}{nil, (*int)(nil), lib.P1, lib.P2, nil}, 1),
		payloadScenario("equal-neighbours", []interface{}{7, 7, 7, 7, 8, 8}, 1),
		payloadScenario("zero-values", []interface{}{0, "", math.Copysign(0, -1), false, 0.0, struct{}{}}, 1),
		payloadScenario("equal-structs-with-distinct-pointers", []interface{}{lib.Tagged{N: 1, P: lib.P1}, lib.Tagged{N: 1, P: lib.P2}, lib.Tagged{N: 1, P: lib.P1}, lib.ErrPayload}, 1))
	P1 := [][]string{{"offer", "offer", "offer"}}
	P1p := [][]string{{"put", "offer"}}
	P2 := [][]string{{"offer", "offer"}, {"offer"}}
	cons := [][][]string{{{"poll", "poll"}}, {{"take"}}, {{"taket", "chan"}}, {{"chan", "poll"}}}
	if tier != "thorough" {
		for c := 0; c <= 2; c++ {
			for b := 0; b <= 2; b++ {
				for ci, cs := range cons {
					if (c+b+ci)%2 == 1 && !(c == 1 && b == 1) {
						continue // quick: half of the matrix (every config, alternating consumer scripts)
					}
					out = append(out, bufScenario(c, b, P1, cs, 1, false))
				}
			}
		}
		out = append(out, bufScenario(1, 1, P2, [][]string{{"poll"}, {"take"}}, 2, true), bufScenario(1, 0, P1p, cons[0], 1, false))
		// concurrent producers at the capacity boundary, no consumer; blocking-Take drain
		out = append(out, bufScenario(1, 1, P2, nil, 2, false), bufScenario(0, 1, P2, nil, 1, false),
			bufScenarioD(1, 1, P1, [][]string{{"poll"}}, "take", 1, false), bufScenarioD(1, 2, P1, [][]string{{"taket"}}, "take", 1, false), bufScenarioD(2, 1, P1, nil, "take", 1, false),
			// unbuffered channel: the loader can only hand over to a consumer that is already waiting - a blocked Take is one
			bufScenarioD(0, 2, P1, nil, "take", 1, false), bufScenarioD(0, 1, P1p, [][]string{{"poll"}}, "take", 1, false))
		// the overflow limit lowered below what is already buffered: nothing more is accepted until it drains
		out = append(out, bufScenario(1, 3, [][]string{{"offer", "offer", "offer", "offer", "shrink1", "offer", "offer"}}, nil, 1, false),
			bufScenario(0, 2, [][]string{{"offer", "offer", "shrink1", "offer"}}, [][]string{{"take"}}, 1, false))
		// two bursts into the overflow buffer with a drain and an idle period between them (node hooks are
		// recycled through the queue's own list, trimmed by the free-node worker, and through sync.Pool)
		six := []string{"offer", "offer", "offer", "offer", "offer", "offer"}
		var rounds []string
		for k := 0; k < 4; k++ {
			rounds = append(append(rounds, six...), "drainall")
		}
		burst := [][]string{append(rounds, six...)}
		out = append(out, bufScenarioX(1, 5, burst, nil, "take", 0, false, "trim1"), bufScenarioX(1, 5, burst, nil, "take", 0, false, "trim2"))
		// longer: eight bursts of 4 to 9 values (a trim cuts off chains of different lengths, the nodes come back in
		// either order), the queue keeping 1 or 2 node hooks
		var long []string
		for k := 0; k < 8; k++ {
			for i := 0; i < 4+(k*5)%6; i++ {
				long = append(long, "offer")
			}
			long = append(long, "drainall")
		}
		long = append(long, six...)
		for _, m := range []string{"trim1h1", "trim2h1", "trim1h2", "trim2h2"} {
			out = append(out, bufScenarioX(1, 8, [][]string{long}, nil, "take", 0, false, m))
		}
		// every sequence of three bursts with 1-3 values in the overflow buffer, each drained completely before
		// the next (the buffer's node hooks are re-used from burst to burst), under the pool policies
		for code := 0; code < 27; code++ {
			var script []string
			for k, c := 0, code; k < 3; k, c = k+1, c/3 {
				for i := 0; i < c%3+2; i++ { // one value goes to the channel, 1-3 to the overflow buffer
					script = append(script, "offer")
				}
				script = append(script, "drainall")
			}
			script = append(script, "offer", "offer")
			out = append(out, bufScenarioX(1, 3, [][]string{script}, nil, "take", 0, false, fmt.Sprintf("reuse%d", code%2)))
		}
		// configured through the setters instead of the constructor
		out = append(out, bufScenarioX(1, 1, P1, cons[0], "poll", 1, false, "setters"), bufScenarioX(1, 0, P1, cons[1], "poll", 1, false, "setters"),
			bufScenarioX(2, 2, P1, nil, "take", 1, false, "setters"), bufScenarioX(0, 1, P1, cons[2], "poll", 1, false, "setters"))
		return out
	}
	for c := 0; c <= 2; c++ {
		for b := 0; b <= 2; b++ {
			for _, cs := range cons {
				out = append(out, bufScenario(c, b, P1, cs, 1, false), bufScenario(c, b, P1, cs, 3, true))
			}
			out = append(out, bufScenario(c, b, P2, [][]string{{"poll"}, {"take"}}, 3, true), bufScenario(c, b, P1p, cons[0], 1, false))
		}
	}
	out = append(out, bufScenario(1, 1, P1, cons[0], 2, false), bufScenario(1, 1, P1, cons[1], 2, false))
	for c := 0; c <= 2; c++ {
		for b := 0; b <= 2; b++ {
			out = append(out, bufScenarioX(c, b, P1, cons[(c+b)%4], "poll", 2, false, "setters"))
		}
	}
	for c := 0; c <= 2; c++ {
		for b := 0; b <= 2; b++ {
			out = append(out, bufScenario(c, b, P2, nil, 2, false))
			if c >= 1 || b >= 1 {
				out = append(out, bufScenarioD(c, b, P1, [][]string{{"poll"}}, "take", 1, false), bufScenarioD(c, b, P1, nil, "take", 2, false))
			}
		}
	}
	return out
}

func min(a, b int) int {
	if a < b {
		return a
	}
	return b
}
