package main

import (
	"fmt"
	"strings"
	"sync"
	"time"

	fpgo "github.com/TeaEntityLab/fpGo/v2"
	"github.com/TeaEntityLab/fpGo/v2/zzverif/vsched"
	"verifharness/lib"
	"verifharness/lib/e1"
	"verifharness/lib/lin"
)

// probe is a deliberately non-thread-safe slice container: every method does its read, yields,
// then its write, and records an overlap when a mutating call is inside together with any other
// call. The wrapper cannot know what it wraps, so "as if one at a time" is decided against the
// most hostile inner object.
type probe struct {
	items  []int
	inside int
	lifo   bool
	bound  int // > 0: a bounded container, insertions on a full one are refused (never block)
	poison int // != 0: inserting this value panics inside the container (a validating container), nothing is stored
}

func (p *probe) enter(name string) {
	if p.inside > 0 {
		vsched.Event("overlap", name)
	}
	p.inside++
}
func (p *probe) leave() { p.inside-- }

func (p *probe) add(v int) error {
	p.enter("add")
	cur := p.items
	vsched.Yield()
	if p.poison != 0 && v == p.poison {
		p.leave()
		panic("the wrapped container rejects this value")
	}
	if p.bound > 0 && len(cur) >= p.bound {
		p.leave()
		if p.lifo {
			return fpgo.ErrStackIsFull
		}
		return fpgo.ErrQueueIsFull
	}
	p.items = append(append([]int{}, cur...), v)
	p.leave()
	return nil
}

func (p *probe) rem(empty error) (int, error) {
	p.enter("remove")
	defer p.leave()
	cur := p.items
	vsched.Yield()
	if len(cur) == 0 {
		return 0, empty
	}
	if p.lifo {
		p.items = cur[:len(cur)-1]
		return cur[len(cur)-1], nil
	}
	p.items = cur[1:]
	return cur[0], nil
}

func (p *probe) Put(v int) error    { return p.add(v) }
func (p *probe) Offer(v int) error  { return p.add(v) }
func (p *probe) Take() (int, error) { return p.rem(fpgo.ErrQueueIsEmpty) }
func (p *probe) Poll() (int, error) { return p.rem(fpgo.ErrQueueIsEmpty) }
func (p *probe) Push(v int) error   { return p.add(v) }
func (p *probe) Pop() (int, error)  { return p.rem(fpgo.ErrStackIsEmpty) }

// a script step: kind in {offer, put, poll, take, push, pop}
type stepSpec struct {
	kind string
	arg  int
}

func o(v int) stepSpec  { return stepSpec{"offer", v} }
func pu(v int) stepSpec { return stepSpec{"put", v} }
func po() stepSpec      { return stepSpec{"poll", 0} }
func ta() stepSpec      { return stepSpec{"take", 0} }
func ps(v int) stepSpec { return stepSpec{"push", v} }
func pp() stepSpec      { return stepSpec{"pop", 0} }

func scriptName(ts [][]stepSpec) string {
	s := ""
	for i, t := range ts {
		if i > 0 {
			s += "|"
		}
		for _, st := range t {
			if st.arg != 0 {
				s += fmt.Sprintf("%s%d.", st.kind, st.arg)
			} else {
				s += st.kind + "."
			}
		}
	}
	return s
}

func conScenario(stack bool, inner string, preload []int, threads [][]stepSpec, bound int) *vsched.Scenario {
	fam := "queue-" + inner
	if stack {
		fam = "stack-" + inner
	}
	name := fmt.Sprintf("%s/pre%v/%s", fam, preload, scriptName(threads))
	nops := 0
	return &vsched.Scenario{
		Name:  name,
		Bound: bound,
		Body: func() {
			var q fpgo.Queue[int]
			var s fpgo.Stack[int]
			lin.Cap = 0
			if inner == "probe" || inner == "probe-nested" {
				p := &probe{lifo: stack}
				q, s = p, p
			} else if inner == "poison-probe" {
				p := &probe{lifo: stack, poison: 666}
				q, s = p, p
			} else if inner == "bounded-probe" {
				p := &probe{lifo: stack, bound: 2}
				q, s = p, p
				lin.Cap = 2
			} else {
				l := fpgo.NewLinkedListQueue[int]()
				q, s = l, l
			}
			cq := fpgo.NewConcurrentQueue[int](q)
			cs := fpgo.NewConcurrentStack[int](s)
			// "probe-nested": the wrapper is wrapped once more (a ConcurrentQueue is a Queue); the odd clients go through
			// the outer handle, the even ones keep using the inner one - still one call at a time on the container
			cqIn, csIn := cq, cs
			cqOut, csOut := cq, cs
			if inner == "probe-nested" {
				cqOut, csOut = fpgo.NewConcurrentQueue[int](cq), fpgo.NewConcurrentStack[int](cs)
			}
			for _, v := range preload {
				if stack {
					cs.Push(v)
				} else {
					cq.Offer(v)
				}
			}
			id := 0
			do := func(client int, st stepSpec) {
				id++
				my := id
				vsched.Event("call", my, client, st.kind, st.arg)
				cq, cs := cqIn, csIn
				if client%2 == 1 {
					cq, cs = cqOut, csOut
				}
				var v int
				var err error
				// (a panic of the wrapped container passes through the wrapper to the caller, who recovers: the
				// call counts as a refused insertion, and the wrapper must stay usable for everybody)
				pan := lib.Catch(func() {
					switch st.kind {
					case "offer":
						err = cq.Offer(st.arg)
					case "put":
						err = cq.Put(st.arg)
					case "poll":
						v, err = cq.Poll()
					case "take":
						v, err = cq.Take()
					case "push":
						err = cs.Push(st.arg)
					case "pop":
						v, err = cs.Pop()
					}
				})
				es := ""
				if err != nil {
					es = err.Error()
				}
				if pan != "" {
					es = "PANIC:" + pan
				}
				vsched.Event("ret", my, v, es)
			}
			var wg sync.WaitGroup
			for ci, script := range threads {
				ci, script := ci, script
				wg.Add(1)
				vsched.GoNamed(fmt.Sprintf("client%d", ci), func() {
					for _, st := range script {
						do(ci, st)
					}
					wg.Done()
				})
			}
			wg.Wait()
			// final sequential drain: everything offered must come out exactly once
			total := len(preload)
			for _, t := range threads {
				total += len(t)
			}
			for i := 0; i <= total; i++ {
				if stack {
					do(99, pp())
				} else {
					do(99, po())
				}
			}
			nops = id
		},
		Check: func(r *vsched.Result) []vsched.Failure {
			fs := e1.Basic("C08", fam, r, nil)
			if n := e1.Count(r, "overlap"); n > 0 {
				fs = append(fs, e1.Fail("C08|"+fam+"|overlap", "a mutating call entered the wrapped %s while another call was inside it (%d times): calls are not executed one at a time", inner, n))
			}
			if len(r.Panics) > 0 || len(r.Parked) > 1 {
				return fs
			}
			// build the history
			ops := map[int]*lin.Op{}
			var order []int
			for i, e := range r.Events {
				switch e.Kind {
				case "call":
					k := e.Args[2].(string)
					op := &lin.Op{Client: e.Args[1].(int), Arg: e.Args[3].(int), Call: int64(i), Ret: -1}
					switch k {
					case "offer", "put", "push":
						op.Kind = "add"
					default:
						op.Kind = "rem"
					}
					ops[e.Args[0].(int)] = op
					order = append(order, e.Args[0].(int))
				case "ret":
					op := ops[e.Args[0].(int)]
					op.Ret = int64(i)
					es := e.Args[2].(string)
					if op.Kind == "rem" {
						op.Val = e.Args[1].(int)
						if es != "" {
							op.Empty = true
							want := fpgo.ErrQueueIsEmpty.Error()
							if stack {
								want = fpgo.ErrStackIsEmpty.Error()
							}
							if es != want {
								fs = append(fs, e1.Fail("C08|"+fam+"|wrong-error", "removal failed with %q", es))
							}
						}
					} else if es != "" {
						full := fpgo.ErrQueueIsFull.Error()
						if stack {
							full = fpgo.ErrStackIsFull.Error()
						}
						if inner == "bounded-probe" && es == full {
							op.Full = true
						} else if inner == "poison-probe" && op.Arg == 666 && strings.HasPrefix(es, "PANIC:") {
							op.Full = true // refused: nothing was stored
						} else {
							fs = append(fs, e1.Fail("C08|"+fam+"|add-failed", "add failed with %q", es))
						}
					}
				}
			}
			var h []lin.Op
			for _, id := range order {
				if ops[id].Ret < 0 {
					return fs // incomplete (reported as blocked by Basic)
				}
				h = append(h, *ops[id])
			}
			_ = nops
			lin.Cap, lin.Poison = 0, 0
			if inner == "bounded-probe" {
				lin.Cap = 2
			}
			if inner == "poison-probe" {
				lin.Poison = 666
			}
			if !lin.Linearizable(stack, preloadOrder(preload), h) {
				fs = append(fs, e1.Fail("C08|"+fam+"|not-linearizable", "history has no sequential explanation consistent with real time: %v", h))
			}
			return fs
		},
	}
}

// wrappedBufferedScenario: "over any wrapped queue" - a ConcurrentQueue over a BufferedChannelQueue (whose Take
// waits for its loader while Poll does not, and whose Put is not its Offer in general) behaves like that queue:
// three values put, three taken, in order, none reported missing while it sits in the overflow buffer.
func wrappedBufferedScenario(bound int) *vsched.Scenario {
	fam := "queue-over-bufferedchannelqueue"
	return &vsched.Scenario{
		Name:  "queue-over-bufferedchannelqueue/put3-take3",
		Bound: bound,
		Body: func() {
			inner := fpgo.NewBufferedChannelQueue[int](1, 3, 100)
			cq := fpgo.NewConcurrentQueue[int](inner)
			for v := 1; v <= 3; v++ {
				if err := cq.Put(v); err != nil {
					vsched.Event("put-failed", v, err.Error())
				}
			}
			for i := 1; i <= 3; i++ {
				v, err := cq.Take()
				es := ""
				if err != nil {
					es = err.Error()
				}
				vsched.Event("took", i, v, es)
			}
			inner.Close()
		},
		Check: func(r *vsched.Result) []vsched.Failure {
			fs := e1.Basic("C08", fam, r, nil)
			if len(fs) > 0 {
				return fs
			}
			if e1.Count(r, "put-failed") > 0 {
				fs = append(fs, e1.Fail("C08|"+fam+"|add-failed", "Put through the wrapper failed: %v", r.Events))
			}
			for i := 1; i <= 3; i++ {
				if e1.Count(r, "took", i, i, "") != 1 {
					fs = append(fs, e1.Fail("C08|"+fam+"|wrong-result", "values 1, 2, 3 put through the wrapper; Take #%d did not return %d: %v", i, i, r.Events))
					break
				}
			}
			return fs
		},
	}
}

// afterIdleScenario: a ConcurrentQueue over a LinkedListQueue that has been through a backlog of `backlog` values (so it
// holds that many spare nodes), is left alone for `idle` of (virtual) time, and is then used by a remover and an adder
// at once: the remover gets the head, the adder's values go to the tail, nothing else moves (housekeeping that a wrapper
// does "once in a while" must happen under its lock).
func afterIdleScenario(backlog int, idle time.Duration, pool, bound int) *vsched.Scenario {
	fam := "concurrentqueue-after-idle"
	keep := 4
	return &vsched.Scenario{
		Name:     fmt.Sprintf("linkedlist/backlog%d/idle-%v/poll-vs-offer-offer/sync.Pool-policy%d", backlog, idle, pool),
		Bound:    bound,
		MaxSteps: 2000000,
		IdleGap:  int64(3 * time.Hour),
		Body: func() {
			vsched.PoolRetain = pool
			cq := fpgo.NewConcurrentQueue[int](fpgo.NewLinkedListQueue[int]())
			for v := 1; v <= backlog+keep; v++ {
				cq.Offer(v)
			}
			for v := 1; v <= backlog; v++ {
				if got, err := cq.Poll(); err != nil || got != v {
					vsched.Event("setup-wrong", v, got)
				}
			}
			time.Sleep(idle)
			var wg sync.WaitGroup
			wg.Add(2)
			vsched.GoNamed("remover", func() {
				got, err := cq.Poll()
				vsched.Event("removed", got, err == nil)
				got, err = cq.Take()
				vsched.Event("removed2", got, err == nil)
				wg.Done()
			})
			vsched.GoNamed("adder", func() {
				vsched.Event("added", cq.Offer(1001) == nil, cq.Offer(1002) == nil, cq.Put(1003) == nil)
				wg.Done()
			})
			wg.Wait()
			var rest []int
			for {
				v, err := cq.Poll()
				if err != nil {
					break
				}
				rest = append(rest, v)
				if len(rest) > 50 {
					break
				}
			}
			vsched.Event("rest", fmt.Sprint(rest))
		},
		Check: func(r *vsched.Result) []vsched.Failure {
			fs := e1.Basic("C08", fam, r, nil)
			if len(fs) > 0 {
				return fs
			}
			var want []int
			for v := backlog + 3; v <= backlog+keep; v++ {
				want = append(want, v)
			}
			want = append(want, 1001, 1002, 1003)
			if e1.Count(r, "setup-wrong") > 0 || e1.Count(r, "removed", backlog+1, true) != 1 || e1.Count(r, "removed2", backlog+2, true) != 1 || e1.Count(r, "added", true, true, true) != 1 || e1.Count(r, "rest", fmt.Sprint(want)) != 1 {
				fs = append(fs, e1.Fail("C08|"+fam+"|wrong-result", "after a backlog of %d and %v of idleness, Poll+Take against Offer+Offer+Put on a queue holding %d..%d: want removed %d, %d and the rest %v; got %v", backlog, idle, backlog+1, backlog+keep, backlog+1, backlog+2, want, r.Events))
			}
			return fs
		},
	}
}

func preloadOrder(p []int) []int { return p }

func scenarios(tier string) []*vsched.Scenario {
	b, b3 := 2, 2
	if tier == "thorough" {
		b, b3 = 4, 3
	}
	var out []*vsched.Scenario
	type sc struct {
		pre []int
		ts  [][]stepSpec
	}
	queue := []sc{
		{[]int{7}, [][]stepSpec{{po()}, {po()}}},
		{nil, [][]stepSpec{{o(1)}, {po()}}},
		{[]int{7}, [][]stepSpec{{ta()}, {pu(1)}}},
		{[]int{7, 8}, [][]stepSpec{{po()}, {po()}}},
		{nil, [][]stepSpec{{o(1), o(2)}, {po(), po()}}},
		{nil, [][]stepSpec{{o(1), po()}, {o(2), po()}}},
		{[]int{7}, [][]stepSpec{{po()}, {po()}, {o(1)}}},
		// every removal entry point also on an empty (or emptied) queue, against an insertion or another removal
		{nil, [][]stepSpec{{ta()}, {o(1)}}},
		{nil, [][]stepSpec{{ta()}, {pu(1)}}},
		{[]int{7}, [][]stepSpec{{ta()}, {ta()}}},
		{nil, [][]stepSpec{{ta()}, {po()}}},
		{nil, [][]stepSpec{{po(), ta()}, {pu(1), o(2)}}},
		// two takers on an empty queue (each call is still one exclusive step on the wrapped container), with and without a producer
		{nil, [][]stepSpec{{ta()}, {ta()}}},
		{nil, [][]stepSpec{{ta()}, {ta()}, {pu(1)}}},
	}
	stack := []sc{
		{[]int{7}, [][]stepSpec{{pp()}, {pp()}}},
		{nil, [][]stepSpec{{ps(1)}, {pp()}}},
		{[]int{7, 8}, [][]stepSpec{{pp()}, {pp()}}},
		{nil, [][]stepSpec{{ps(1), pp()}, {ps(2), pp()}}},
		{[]int{7}, [][]stepSpec{{pp()}, {pp()}, {ps(1)}}},
		{nil, [][]stepSpec{{pp()}, {pp()}}},
		{nil, [][]stepSpec{{pp(), pp()}, {ps(1), ps(2)}}},
	}
	for _, idle := range []time.Duration{time.Millisecond, 3 * time.Second, 10 * time.Minute} {
		out = append(out, afterIdleScenario(70, idle, 1, 1), afterIdleScenario(3, idle, 2, 2))
	}
	if tier == "thorough" {
		queue = append(queue,
			sc{[]int{7, 8}, [][]stepSpec{{po(), o(1)}, {po(), o(2)}}},
			sc{nil, [][]stepSpec{{o(1)}, {o(2)}, {po(), po()}}},
			sc{[]int{7}, [][]stepSpec{{ta()}, {ta()}, {ta()}}},
			sc{nil, [][]stepSpec{{o(1), po(), o(3)}, {o(2), ta(), po()}}},
			sc{[]int{7}, [][]stepSpec{{po(), pu(1)}, {ta(), o(2)}, {po()}}},
			sc{nil, [][]stepSpec{{o(1), o(2)}, {po(), po()}, {ta(), o(3)}}},
			sc{[]int{7, 8, 9}, [][]stepSpec{{po(), po()}, {ta(), ta()}}})
		stack = append(stack,
			sc{nil, [][]stepSpec{{ps(1)}, {ps(2)}, {pp(), pp()}}},
			sc{[]int{7, 8}, [][]stepSpec{{pp(), ps(1)}, {pp(), ps(2)}}},
			sc{nil, [][]stepSpec{{ps(1), pp(), ps(3)}, {ps(2), pp(), pp()}}},
			sc{[]int{7}, [][]stepSpec{{pp(), ps(1)}, {pp(), ps(2)}, {pp()}}},
			sc{[]int{7, 8, 9}, [][]stepSpec{{pp(), pp()}, {pp(), pp()}}})
	}
	// a bounded wrapped container (2 slots, refuses instead of blocking): insertions that find it full
	for _, s := range []sc{
		{[]int{7, 8}, [][]stepSpec{{pu(1)}, {po()}}},
		{[]int{7, 8}, [][]stepSpec{{o(1)}, {ta()}}},
		{[]int{7}, [][]stepSpec{{pu(1), pu(2)}, {po()}}},
		{[]int{7, 8}, [][]stepSpec{{pu(1)}, {o(2)}}},
	} {
		out = append(out, conScenario(false, "bounded-probe", s.pre, s.ts, b))
	}
	for _, s := range []sc{
		{[]int{7, 8}, [][]stepSpec{{ps(1)}, {pp()}}},
		{[]int{7}, [][]stepSpec{{ps(1), ps(2)}, {pp()}}},
	} {
		out = append(out, conScenario(true, "bounded-probe", s.pre, s.ts, b))
	}
	out = append(out, wrappedBufferedScenario(1),
		conScenario(false, "probe-nested", []int{7}, [][]stepSpec{{po()}, {po()}}, b),
		conScenario(false, "probe-nested", nil, [][]stepSpec{{o(1), po()}, {o(2), ta()}}, b),
		conScenario(true, "probe-nested", []int{7}, [][]stepSpec{{pp()}, {ps(1), pp()}}, b))
	// a wrapped container that panics on one value (the caller recovers): the wrapper stays usable
	for _, s := range []sc{
		{nil, [][]stepSpec{{o(666), o(1)}, {po()}}},
		{[]int{7}, [][]stepSpec{{pu(666)}, {po(), o(2)}}},
		{nil, [][]stepSpec{{o(666)}, {pu(1)}, {ta()}}},
	} {
		out = append(out, conScenario(false, "poison-probe", s.pre, s.ts, b))
	}
	for _, s := range []sc{
		{nil, [][]stepSpec{{ps(666), ps(1)}, {pp()}}},
		{[]int{7}, [][]stepSpec{{ps(666)}, {pp(), ps(2)}}},
	} {
		out = append(out, conScenario(true, "poison-probe", s.pre, s.ts, b))
	}
	for _, inner := range []string{"probe", "linked"} {
		for _, s := range queue {
			bb := b
			if len(s.ts) == 3 && bb > b3 {
				bb = b3
			}
			out = append(out, conScenario(false, inner, s.pre, s.ts, bb))
		}
		for _, s := range stack {
			bb := b
			if len(s.ts) == 3 && bb > b3 {
				bb = b3
			}
			out = append(out, conScenario(true, inner, s.pre, s.ts, bb))
		}
	}
	return out
}
