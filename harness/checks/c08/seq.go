package main

import (
	"fmt"

	fpgo "github.com/TeaEntityLab/fpGo/v2"
	"github.com/TeaEntityLab/fpGo/v2/zzverif/vsched"
	"verifharness/lib"
)

// Sequential part (one goroutine, same instrumented build): the wrappers around the real LinkedListQueue
// behave as a FIFO / LIFO container for every operation history up to a depth and for deep bursts -
// "returned by exactly one removal once the queue is drained" also when the wrapped queue recycles its
// nodes. Run under the three sync.Pool policies of the model.
func sequentialWrappers(r *lib.Report, tier string) (int64, int64, []interface{}) {
	var states, trans int64
	depth := 7
	if tier == "thorough" {
		depth = 9
	}
	ops := []string{"offer", "put", "poll", "take", "push", "pop"}
	for pool := 0; pool < 3; pool++ {
		vsched.PoolRetain = pool
		// all histories over the six operations (queue and stack wrapper share one wrapped LinkedListQueue)
		var hist []int
		var rec func()
		rec = func() {
			if len(hist) > 0 {
				trans++
				if msg := replayWrappers(ops, hist); msg != "" {
					names := make([]string, len(hist))
					for i, o := range hist {
						names[i] = ops[o]
					}
					r.Violation("C08|sequential|wrong-result", fmt.Sprintf("history %v on ConcurrentQueue / ConcurrentStack over one LinkedListQueue (sync.Pool policy %d): %s", names, pool, msg),
						map[string]interface{}{"history": names, "sync_pool_policy": pool})
					return
				}
				states++
			}
			if len(hist) == depth {
				return
			}
			for o := range ops {
				hist = append(hist, o)
				rec()
				hist = hist[:len(hist)-1]
			}
		}
		rec()
		// the same with the node pool of the wrapped LinkedListQueue trimmed in between (KeepNodePoolCount(0) /
		// ClearNodePool hand recycled nodes to the sync.Pool; under the retaining policies they come back): all
		// histories to depth 8 over offer, poll, pop and the two trims
		trimOps := []string{"offer", "poll", "pop", "trim-keep0", "trim-clear"}
		trimDepth := 8
		var rec2 func()
		rec2 = func() {
			if n := len(hist); n > 0 && trimOps[hist[n-1]] != "trim-keep0" && trimOps[hist[n-1]] != "trim-clear" {
				trans++
				if msg := replayWrappers(trimOps, hist); msg != "" {
					names := make([]string, len(hist))
					for i, o := range hist {
						names[i] = trimOps[o]
					}
					r.Violation("C08|sequential|wrong-result|node-pool-trimmed", fmt.Sprintf("history %v on ConcurrentQueue / ConcurrentStack over one LinkedListQueue whose node pool is trimmed in between (sync.Pool policy %d): %s", names, pool, msg),
						map[string]interface{}{"history": names, "sync_pool_policy": pool})
					return
				}
				states++
			}
			if len(hist) == trimDepth {
				return
			}
			for o := range trimOps {
				hist = append(hist, o)
				rec2()
				hist = hist[:len(hist)-1]
			}
		}
		hist = hist[:0]
		rec2()
		// bursts: fill n, drain n+1, on one queue, for sizes that cross any node-recycling threshold below 1200
		for _, sizes := range [][]int{{3, 1, 3}, {16, 1, 16}, {300, 300, 300}, {1100, 1100, 3}, {2, 1200, 2, 1200}} {
			trans++
			q := fpgo.NewConcurrentQueue[int](fpgo.NewLinkedListQueue[int]())
			next, fail := 0, ""
			p := lib.Catch(func() {
				for _, n := range sizes {
					first := next + 1
					for i := 0; i < n; i++ {
						next++
						if err := q.Offer(next); err != nil {
							fail = fmt.Sprintf("Offer(%d) failed: %v", next, err)
							return
						}
					}
					for i := 0; i < n; i++ {
						v, err := q.Poll()
						if err != nil || v != first+i {
							fail = fmt.Sprintf("burst of %d: removal %d returned (%d, %v), want %d", n, i+1, v, err, first+i)
							return
						}
					}
					if v, err := q.Take(); err != fpgo.ErrQueueIsEmpty {
						fail = fmt.Sprintf("burst of %d drained: Take returned (%d, %v), want ErrQueueIsEmpty", n, v, err)
						return
					}
				}
			})
			if p != "" {
				fail = "panic: " + p
			}
			if fail != "" {
				r.Violation("C08|sequential|burst", fmt.Sprintf("bursts %v through one ConcurrentQueue over a LinkedListQueue (sync.Pool policy %d): %s", sizes, pool, fail), map[string]interface{}{"bursts": sizes, "sync_pool_policy": pool})
			}
			states++
		}
	}
	vsched.PoolRetain = 0
	// what the wrappers carry is opaque to them: the payload table (nil, typed nil pointers, zero values, equal
	// but distinct pointers, an error value ...) through every removal entry point, every rotation of the table
	pay := lib.Payloads()
	for rot := range pay {
		for _, mode := range []string{"poll", "take", "pop"} {
			trans++
			states++
			l := fpgo.NewLinkedListQueue[interface{}]()
			cq := fpgo.NewConcurrentQueue[interface{}](l)
			cs := fpgo.NewConcurrentStack[interface{}](l)
			fail := ""
			p := lib.Catch(func() {
				var in []interface{}
				for i := range pay {
					v := pay[(rot+i)%len(pay)]
					in = append(in, v)
					if i%2 == 0 {
						cq.Offer(v)
					} else {
						cq.Put(v)
					}
				}
				for i := range in {
					var got interface{}
					var err error
					want := in[i]
					switch mode {
					case "poll":
						got, err = cq.Poll()
					case "take":
						got, err = cq.Take()
					default:
						got, err = cs.Pop()
						want = in[len(in)-1-i]
					}
					if err != nil || lib.Show(got) != lib.Show(want) {
						fail = fmt.Sprintf("removal %d (%s) returned (%s, %v), the stored value is %s", i+1, mode, lib.Show(got), err, lib.Show(want))
						return
					}
				}
				if _, err := cq.Poll(); err != fpgo.ErrQueueIsEmpty {
					fail = fmt.Sprintf("after removing everything Poll returned %v", err)
				}
			})
			if p != "" {
				fail = "panic: " + p
			}
			if fail != "" {
				r.Violation("C08|sequential|payload", fmt.Sprintf("payload table rotated by %d through ConcurrentQueue / ConcurrentStack over LinkedListQueue[interface{}]: %s", rot, fail), map[string]interface{}{"rotation": rot, "mode": mode})
			}
		}
	}
	return states, trans, []interface{}{map[string]interface{}{"history": []string{"offer", "push", "poll", "pop", "take"}, "wrapped": "one LinkedListQueue behind ConcurrentQueue and ConcurrentStack"}}
}

// replayWrappers runs one history on fresh wrappers and compares every answer with an ideal deque.
func replayWrappers(ops []string, hist []int) string {
	l := fpgo.NewLinkedListQueue[int]()
	cq := fpgo.NewConcurrentQueue[int](l)
	cs := fpgo.NewConcurrentStack[int](l)
	var m []int
	msg := ""
	p := lib.Catch(func() {
		for i, o := range hist {
			v := 100 + i
			switch ops[o] {
			case "offer", "put", "push":
				var err error
				switch ops[o] {
				case "offer":
					err = cq.Offer(v)
				case "put":
					err = cq.Put(v)
				default:
					err = cs.Push(v)
				}
				if err != nil {
					msg = fmt.Sprintf("step %d %s failed: %v", i, ops[o], err)
					return
				}
				m = append(m, v)
			case "poll", "take":
				var got int
				var err error
				if ops[o] == "poll" {
					got, err = cq.Poll()
				} else {
					got, err = cq.Take()
				}
				if len(m) == 0 {
					if err != fpgo.ErrQueueIsEmpty {
						msg = fmt.Sprintf("step %d %s on an empty container returned (%d, %v)", i, ops[o], got, err)
						return
					}
				} else {
					if err != nil || got != m[0] {
						msg = fmt.Sprintf("step %d %s returned (%d, %v), the oldest value is %d", i, ops[o], got, err, m[0])
						return
					}
					m = m[1:]
				}
			case "trim-keep0":
				l.KeepNodePoolCount(0)
			case "trim-clear":
				l.ClearNodePool()
			case "pop":
				got, err := cs.Pop()
				if len(m) == 0 {
					if err != fpgo.ErrStackIsEmpty {
						msg = fmt.Sprintf("step %d pop on an empty container returned (%d, %v)", i, got, err)
						return
					}
				} else {
					if err != nil || got != m[len(m)-1] {
						msg = fmt.Sprintf("step %d pop returned (%d, %v), the newest value is %d", i, got, err, m[len(m)-1])
						return
					}
					m = m[:len(m)-1]
				}
			}
		}
	})
	if p != "" {
		return "panic: " + p
	}
	return msg
}
