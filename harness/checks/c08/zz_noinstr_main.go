// C08: ConcurrentQueue / ConcurrentStack are linearizable over any wrapped queue / stack.
package main

import (
	"time"

	"verifharness/lib/e1"
)

func main() {
	e1.Sequential = sequentialWrappers
	e1.Main("C08", scenarios, e1.Budget{Quick: 90 * time.Second, Thorough: 15 * time.Minute},
		[]string{"each history is judged by porcupine v1.3.0, cross-validated by a brute-force permutation search"})
}
