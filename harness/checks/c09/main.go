// C09: WorkerPool — accepted job runs exactly once, <= max concurrent, panics isolated.
package main

import (
	"time"

	"verifharness/lib/e1"
)

func main() {
	e1.Main("C09", scenarios, e1.Budget{Quick: 110 * time.Second, Thorough: 25 * time.Minute},
		[]string{"idle timers (worker expiry, jam detection) are 1 h: longer than any run, as the property's configuration domain requires"})
}
