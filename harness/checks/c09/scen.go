package main

import (
	"fmt"
	"math"
	"strings"
	"time"

	"github.com/TeaEntityLab/fpGo/v2/worker"
	"github.com/TeaEntityLab/fpGo/v2/zzverif/vsched"
	"verifharness/lib/e1"
	"verifharness/scenlib"
)

type jobSpec struct {
	kind string // plain | slow | panic
	via  string // schedule | timeout | invoke
}

func specName(subs [][]jobSpec) string {
	var parts []string
	for _, s := range subs {
		var js []string
		for _, j := range s {
			if j.kind == "" {
				js = append(js, j.via)
				continue
			}
			js = append(js, j.kind[:2]+"-"+j.via[:2])
		}
		parts = append(parts, strings.Join(js, "."))
	}
	return strings.Join(parts, "|")
}

func poolScenario(cfg scenlib.PoolCfg, subs [][]jobSpec, closeAtEnd bool, bound int, delay bool) *vsched.Scenario {
	return poolScenarioP(cfg, subs, closeAtEnd, 0, bound, delay)
}

// prealloc > 0: the driver calls PreAllocWorkerSize(prealloc) concurrently with the submitters.
func poolScenarioP(cfg scenlib.PoolCfg, subs [][]jobSpec, closeAtEnd bool, prealloc int, bound int, delay bool) *vsched.Scenario {
	return poolScenarioH(cfg, subs, closeAtEnd, prealloc, bound, delay, false)
}

// reentrantHandler: the panic handler calls back into the pool - it schedules a follow-up job (id 900), as a
// handler that re-queues or reports through the same pool does, and waits until that job has started (the
// pool has a second worker for it): the job is accepted and runs like any other, the handler returns.
func poolScenarioH(cfg scenlib.PoolCfg, subs [][]jobSpec, closeAtEnd bool, prealloc int, bound int, delay bool, reentrantHandler bool) *vsched.Scenario {
	fam := "pool"
	if reentrantHandler {
		fam = "pool-reentrant-handler"
	}
	if closeAtEnd {
		fam = "pool-closed-at-end"
	}
	var g *scenlib.Gauge
	type jinfo struct {
		spec jobSpec
		id   int
	}
	var all []jinfo
	id := 0
	for _, s := range subs {
		for _, j := range s {
			id++
			all = append(all, jinfo{j, id})
		}
	}
	replacesHandler := false
	for _, j := range all {
		if j.spec.via == "sethandler" {
			replacesHandler = true
		}
	}
	return &vsched.Scenario{
		Name:     fmt.Sprintf("%s/%s/%s/prealloc%d", fam, cfg, specName(subs), prealloc),
		Bound:    bound,
		Delay:    delay,
		TimerDev: true,
		MaxSteps: 6000,
		Horizon:  int64(300 * time.Millisecond),
		Body: func() {
			g = &scenlib.Gauge{}
			handler := func(v interface{}) { vsched.Event("panic-handler", fmt.Sprint(v)) }
			if replacesHandler {
				handler = func(v interface{}) { vsched.Event("panic-handler-replaced-one", fmt.Sprint(v)) }
			}
			var p *worker.DefaultWorkerPool
			if reentrantHandler {
				started := make(chan struct{})
				handler = func(v interface{}) {
					vsched.Event("panic-handler", fmt.Sprint(v))
					follow := scenlib.Job(900, "plain", g)
					err := p.Schedule(func() { close(started); follow() })
					vsched.Event("sched", 900, scenlib.SchedErr(err))
					if err == nil {
						<-started
					}
					vsched.Event("handler-returned")
				}
			}
			p = scenlib.NewPool(cfg, handler)
			next := 0
			done := make(chan int, len(subs))
			for si, script := range subs {
				si, script := si, script
				base := next
				next += len(script)
				vsched.GoNamed(fmt.Sprintf("submitter%d", si), func() {
					for k, js := range script {
						jid := base + k + 1
						job := scenlib.Job(jid, js.kind, g)
						switch js.via {
						case "sethandler": // replace the panic handler while workers exist: later panics go to the new one
							p.SetPanicHandler(func(v interface{}) { vsched.Event("panic-handler", fmt.Sprint(v)) })
							vsched.Event("sched", jid, "handler-replaced")
						case "late": // submitted after the running jobs have outlasted the jam duration
							time.Sleep(4 * time.Millisecond)
							vsched.Event("sched", jid, scenlib.SchedErr(p.Schedule(job)))
						case "schedule":
							vsched.Event("sched", jid, scenlib.SchedErr(p.Schedule(job)))
						case "timeout":
							vsched.Event("sched", jid, scenlib.SchedErr(p.ScheduleWithTimeout(job, 9*time.Millisecond)))
						case "timeout0", "timeout1ns", "timeout2ns", "timeout-neg": // degenerate timeouts (a third of them is 0)
							d := map[string]time.Duration{"timeout0": 0, "timeout1ns": 1, "timeout2ns": 2, "timeout-neg": -time.Millisecond}[js.via]
							vsched.Event("sched", jid, scenlib.SchedErr(p.ScheduleWithTimeout(job, d)))
						case "invoke-timeout0", "invoke-timeout": // the Invokable's blocking entry point, also with "do not wait"
							d := 9 * time.Millisecond
							if js.via == "invoke-timeout0" {
								d = 0
							}
							inv := worker.NewDefaultInvokable[int](p, func(v int) { job() })
							vsched.Event("sched", jid, scenlib.SchedErr(inv.InvokeWithTimeout(jid, d)))
						case "invoke-swap": // the callee is replaced right after the invocation was handed over: the job runs the callee it was invoked with
							inv := worker.NewDefaultInvokable[int](p, func(v int) { job() })
							inv.Invoke(jid)
							inv.SetCallee(func(v int) { vsched.Event("foreign-callee", v) })
							vsched.Event("sched", jid, "invoked")
						case "invoke":
							inv := worker.NewDefaultInvokable[int](p, func(v int) { job() })
							if jid%2 == 0 { // the same invokable assembled through its setters
								inv = worker.NewDefaultInvokable[int](nil, nil).SetWorkerPool(p).SetCallee(func(v int) { job() })
							}
							inv.Invoke(jid)
							vsched.Event("sched", jid, "invoked")
						}
					}
					done <- si
				})
			}
			if prealloc > 0 {
				p.PreAllocWorkerSize(prealloc)
			}
			if closeAtEnd {
				for range subs {
					<-done
				}
				p.Close()
				vsched.Event("pool-closed", p.IsClosed())
				vsched.Event("sched", 99, scenlib.SchedErr(p.Schedule(scenlib.Job(99, "plain", g))))
			}
		},
		Check: func(r *vsched.Result) []vsched.Failure {
			fs := e1.Basic("C09", fam, r, nil)
			if len(r.Panics) > 0 || r.Cap != "" {
				return fs
			}
			for _, j := range all {
				res := ""
				for _, e := range r.Events {
					if e.Kind == "sched" && e.Args[0].(int) == j.id {
						res = e.Args[1].(string)
					}
				}
				runs := e1.Count(r, "start", j.id)
				if j.spec.via == "sethandler" {
					continue
				}
				switch {
				case runs > 1:
					fs = append(fs, e1.Fail("C09|"+fam+"|ran-twice", "job %d (%s via %s) ran %d times", j.id, j.spec.kind, j.spec.via, runs))
				case res == "accepted" && runs == 0 && !closeAtEnd:
					key := "C09|" + fam + "|accepted-never-ran"
					if e1.Count(r, "panic-handler") > 0 {
						key += "|after-job-panic"
					}
					fs = append(fs, e1.Fail(key, "job %d (%s via %s) was accepted but has not run when nothing can happen any more (pool left open; %d job panic(s) before; workers parked: %v)", j.id, j.spec.kind, j.spec.via, e1.Count(r, "panic-handler"), r.Parked))
				case (res == "full" || res == "timeout" || res == "closed" || res == "queue-closed") && runs > 0:
					fs = append(fs, e1.Fail("C09|"+fam+"|rejected-ran", "job %d was rejected (%s) but ran", j.id, res))
				case strings.HasPrefix(res, "other:"), res == "queue-closed" && !closeAtEnd:
					fs = append(fs, e1.Fail("C09|"+fam+"|error-code", "job %d: Schedule returned %s", j.id, res))
				}
				if j.spec.kind == "panic-nilptr" {
					if n := e1.Count(r, "panic-handler", "<nil>"); n != runs {
						fs = append(fs, e1.Fail("C09|"+fam+"|panic-handler-count", "job %d, which panics with a typed nil pointer, ran %d time(s) but the panic handler was called %d time(s)", j.id, runs, n))
					}
				}
				if j.spec.kind == "panic" || j.spec.kind == "timed-panic" {
					want := fmt.Sprintf("boom-%d", j.id)
					if n := e1.Count(r, "panic-handler", want); n != runs {
						fs = append(fs, e1.Fail("C09|"+fam+"|panic-handler-count", "panicking job %d ran %d time(s) but the panic handler saw it %d time(s)", j.id, runs, n))
					}
				}
			}
			if n := e1.Count(r, "foreign-callee"); n > 0 {
				fs = append(fs, e1.Fail("C09|"+fam+"|wrong-callee", "an invocation handed over before SetCallee ran the callee installed afterwards (%d time(s)) instead of the one it was invoked with", n))
			}
			if reentrantHandler {
				acc, runs := e1.Count(r, "sched", 900, "accepted"), e1.Count(r, "start", 900)
				returned := 0
				for _, e := range r.Events {
					if e.Kind == "sched" && e.Args[0].(int) == 900 {
						returned++
					}
				}
				if e1.Count(r, "panic-handler") > 0 && returned == 0 {
					fs = append(fs, e1.Fail("C09|"+fam+"|handler-stuck", "the panic handler's call to Schedule on its own pool has not returned when nothing can happen any more"))
				} else if e1.Count(r, "panic-handler") != e1.Count(r, "handler-returned") {
					fs = append(fs, e1.Fail("C09|"+fam+"|handler-stuck", "the panic handler, waiting for the follow-up job it scheduled on its own pool (which has a second worker), never saw it start"))
				} else if runs != acc {
					fs = append(fs, e1.Fail("C09|"+fam+"|accepted-never-ran|after-job-panic", "the follow-up job scheduled by the panic handler was accepted %d time(s) and ran %d time(s)", acc, runs))
				}
			}
			for _, e := range r.Events {
				if e.Kind == "panic-handler" && !strings.HasPrefix(e.Args[0].(string), "boom-") && e.Args[0].(string) != "<nil>" {
					fs = append(fs, e1.Fail("C09|"+fam+"|panic-handler-foreign", "panic handler invoked for something that is not a job's panic: %v", e.Args[0]))
				}
			}
			if g.Max > cfg.Max {
				fs = append(fs, e1.Fail("C09|"+fam+"|concurrency", "%d jobs executing at once, workerSizeMaximum is %d", g.Max, cfg.Max))
			}
			if closeAtEnd {
				if e1.Count(r, "sched", 99, "closed") != 1 {
					fs = append(fs, e1.Fail("C09|"+fam+"|closed-error", "Schedule on a closed pool did not return ErrWorkerPoolIsClosed: %v", r.Events))
				}
				if e1.Count(r, "start", 99) > 0 {
					fs = append(fs, e1.Fail("C09|"+fam+"|rejected-ran", "job scheduled after Close ran"))
				}
			}
			return fs
		},
	}
}

func js(kind, via string) jobSpec { return jobSpec{kind, via} }

func scenarios(tier string) []*vsched.Scenario {
	var out []*vsched.Scenario
	S, T, I := "schedule", "timeout", "invoke"
	cfgs := []scenlib.PoolCfg{
		{Cap: 1, Buf: 1, Max: 1, StandBy: 1, Batch: 1},
		{Cap: 1, Buf: 0, Max: 1, StandBy: 1, Batch: 0},
		{Cap: 2, Buf: 1, Max: 2, StandBy: 1, Batch: 1},
		{Cap: 1, Buf: 2, Max: 2, StandBy: 0, Batch: 1},
	}
	scripts := [][][]jobSpec{
		{{js("plain", S)}},
		{{js("plain", S), js("plain", S)}},
		{{js("panic", S), js("plain", S)}},
		{{js("panic", S), js("plain", S), js("plain", S)}},
		{{js("plain", T), js("slow", T), js("plain", T)}},
		{{js("plain", I), js("panic", I), js("plain", S)}},
		{{js("plain", S)}, {js("plain", S)}},
		{{js("panic", S)}, {js("plain", S), js("plain", S)}},
	}
	if tier != "thorough" {
		// quick: single-submitter scripts under pre-emption bound 1, two-submitter scripts under delay bound 2
		for ci, c := range []scenlib.PoolCfg{cfgs[0], cfgs[1], cfgs[3]} {
			heavy := ci == 2 // two workers + overflow of 2: the three-job scripts go under delay bounding in the quick tier
			for _, si := range []int{0, 1, 2, 3, 5} {
				if heavy && si >= 3 {
					out = append(out, poolScenario(c, scripts[si], false, 2, true))
					continue
				}
				out = append(out, poolScenario(c, scripts[si], false, 1, false))
			}
			out = append(out, poolScenario(c, scripts[6], false, 2, true), poolScenario(c, scripts[7], false, 2, true))
			out = append(out, poolScenario(c, scripts[1], true, 1, heavy), poolScenario(c, scripts[6], true, 2, true))
		}
		out = append(out, poolScenario(cfgs[2], scripts[2], false, 1, false), poolScenario(cfgs[2], scripts[4], false, 2, true))
		// jobs that take virtual time (the spawn loop is idle again when they end / panic); PreAllocWorkerSize racing the spawn loop
		out = append(out,
			poolScenario(cfgs[0], [][]jobSpec{{js("timed-panic", S), js("plain", S)}}, false, 1, false),
			poolScenario(cfgs[1], [][]jobSpec{{js("timed", S), js("timed-panic", S), js("plain", T)}}, false, 1, false),
			poolScenario(cfgs[3], [][]jobSpec{{js("timed-panic", S), js("timed", S), js("plain", S)}}, false, 2, true),
			poolScenarioP(scenlib.PoolCfg{Cap: 2, Buf: 0, Max: 1, StandBy: 0, Batch: 1}, [][]jobSpec{{js("timed", S), js("timed", S)}}, false, 1, 1, false))
		// a job that panics with a typed nil pointer is a panicking job like any other
		out = append(out, poolScenario(scenlib.PoolCfg{Cap: 1, Buf: 1, Max: 1, StandBy: 1, Batch: 1}, [][]jobSpec{{js("panic-nilptr", S), js("plain", S)}}, false, 1, false))
		// a job that ends its worker's goroutine with runtime.Goexit (no return, no panic): the pool replaces the worker, the
		// later jobs still run (the worker's slot must not leak: three such jobs on a pool of at most one / two workers)
		for _, c := range []scenlib.PoolCfg{{Cap: 1, Buf: 1, Max: 1, StandBy: 1, Batch: 1}, {Cap: 1, Buf: 2, Max: 2, StandBy: 0, Batch: 1}, {Cap: 2, Buf: 2, Max: 2, StandBy: 2, Batch: 1}} {
			out = append(out, poolScenario(c, [][]jobSpec{{js("goexit", S), js("plain", S)}}, false, map[bool]int{true: 1, false: 0}[c.Max == 1], false),
				poolScenario(c, [][]jobSpec{{js("goexit", S), js("goexit", S), js("goexit", S), js("plain", S), js("plain", S)}}, false, 0, false))
		}
		// an on-demand pool (stand-by 0) whose batch size is "everything in one worker": the largest int and its neighbour
		for _, batch := range []int{math.MaxInt, math.MaxInt - 1} {
			out = append(out, poolScenario(scenlib.PoolCfg{Cap: 1, Buf: 2, Max: 1, StandBy: 0, Batch: batch}, scripts[3], false, 1, false))
		}
		// the panic handler replaced while a stand-by worker already exists; a closed pool whose queue stays open
		out = append(out,
			poolScenario(scenlib.PoolCfg{Cap: 1, Buf: 1, Max: 1, StandBy: 1, Batch: 1}, [][]jobSpec{{js("timed", S), js("", "sethandler"), js("panic", "late"), js("plain", S)}}, false, 1, false),
			poolScenario(scenlib.PoolCfg{Cap: 1, Buf: 1, Max: 1, StandBy: 1, Batch: 1, KeepQueue: true}, scripts[1], true, 1, false),
			poolScenario(scenlib.PoolCfg{Cap: 1, Buf: 2, Max: 2, StandBy: 0, Batch: 1, KeepQueue: true}, scripts[6], true, 2, true))
		// ScheduleWithTimeout with degenerate timeouts on a full queue (one worker busy, channel and overflow buffer taken)
		out = append(out, poolScenario(scenlib.PoolCfg{Cap: 1, Buf: 1, Max: 1, StandBy: 1, Batch: 1},
			[][]jobSpec{{js("timed", S), js("plain", S), js("plain", S), js("plain", "timeout0"), js("plain", "timeout2ns"), js("plain", "timeout-neg"), js("plain", "timeout1ns")}}, false, 0, false))
		// an on-demand pool whose only worker dies of a panic while a ScheduleWithTimeout caller is between two attempts:
		// the job accepted on the retry runs like one accepted at once
		out = append(out, poolScenario(scenlib.PoolCfg{Cap: 1, Buf: 0, Max: 1, StandBy: 0, Batch: 1}, [][]jobSpec{{js("timed", S), js("panic", S), js("plain", T)}}, false, 1, false),
			poolScenario(scenlib.PoolCfg{Cap: 1, Buf: 0, Max: 1, StandBy: 0, Batch: 1}, [][]jobSpec{{js("timed", S), js("timed-panic", S)}, {js("plain", T)}}, false, 1, true))
		// the Invokable's other entry points on a busy pool: InvokeWithTimeout with a real and with a zero timeout on a full
		// queue; SetCallee right after Invoke while the invocation is still queued
		I0, IT, IS := "invoke-timeout0", "invoke-timeout", "invoke-swap"
		out = append(out,
			poolScenario(scenlib.PoolCfg{Cap: 1, Buf: 0, Max: 1, StandBy: 1, Batch: 1}, [][]jobSpec{{js("timed", S), js("plain", S), js("plain", I0), js("plain", IT)}}, false, 1, false),
			poolScenario(scenlib.PoolCfg{Cap: 1, Buf: 1, Max: 1, StandBy: 1, Batch: 1}, [][]jobSpec{{js("timed", S), js("plain", IS), js("plain", S)}}, false, 1, false))
		// a panic handler that schedules a follow-up job on its own pool
		out = append(out,
			poolScenarioH(scenlib.PoolCfg{Cap: 2, Buf: 1, Max: 2, StandBy: 2, Batch: 1}, [][]jobSpec{{js("panic", S)}}, false, 0, 0, false, true)) // (bound 0: with two stand-by workers and their timers one deviation already takes minutes)
		// configured through a settings struct / SetDefaultWorkerPoolSettings + SetJobQueue instead of the individual setters
		out = append(out,
			poolScenario(scenlib.PoolCfg{Cap: 1, Buf: 1, Max: 1, StandBy: 1, Batch: 1, Via: "settings"}, scripts[2], false, 1, false),
			poolScenario(scenlib.PoolCfg{Cap: 1, Buf: 2, Max: 2, StandBy: 0, Batch: 1, Via: "set-settings"}, scripts[1], false, 1, false))
		// jammed pool: all workers busy for longer than workerJamDuration (3 ms) when a late submission wakes the spawn loop
		out = append(out,
			poolScenario(scenlib.PoolCfg{Cap: 2, Buf: 1, Max: 1, StandBy: 1, Batch: 1, Jam: 3 * time.Millisecond}, [][]jobSpec{{js("timed", S), js("timed", S), js("plain", "late")}}, false, 1, false),
			poolScenario(scenlib.PoolCfg{Cap: 2, Buf: 2, Max: 2, StandBy: 0, Batch: 1, Jam: 3 * time.Millisecond}, [][]jobSpec{{js("timed", S), js("timed", S), js("timed", S), js("plain", "late")}}, false, 1, true))
		return out
	}
	cfgs = append(cfgs, scenlib.PoolCfg{Cap: 2, Buf: 2, Max: 1, StandBy: 1, Batch: 1}, scenlib.PoolCfg{Cap: 1, Buf: 1, Max: 2, StandBy: 2, Batch: 0})
	scripts = append(scripts,
		[][]jobSpec{{js("slow", S), js("panic", S), js("plain", T), js("plain", S)}},
		[][]jobSpec{{js("plain", T), js("panic", T)}, {js("slow", S), js("plain", I)}})
	for _, c := range cfgs {
		for si, s := range scripts {
			out = append(out, poolScenario(c, s, false, 3, true)) // delay bound 3
			if si < 6 {
				out = append(out, poolScenario(c, s, false, 1, false)) // pre-emption bound 1
			}
		}
		out = append(out, poolScenario(c, scripts[1], true, 1, false), poolScenario(c, scripts[6], true, 3, true))
		out = append(out,
			poolScenario(c, [][]jobSpec{{js("timed-panic", S), js("plain", S)}}, false, 2, false),
			poolScenario(c, [][]jobSpec{{js("timed", S), js("timed-panic", S), js("plain", T)}}, false, 1, false),
			poolScenarioP(c, [][]jobSpec{{js("slow", S), js("slow", S), js("slow", S)}}, false, c.Max, 1, false),
			poolScenarioP(c, [][]jobSpec{{js("timed", S), js("timed", S)}}, false, c.Max, 1, false),
			poolScenarioP(c, [][]jobSpec{{js("slow", S), js("slow", S)}}, false, c.Max, 3, true))
		jc := c
		jc.Jam = 3 * time.Millisecond
		out = append(out,
			poolScenario(jc, [][]jobSpec{{js("timed", S), js("timed", S), js("plain", "late")}}, false, 2, false),
			poolScenario(jc, [][]jobSpec{{js("timed", S), js("timed", S), js("timed", S), js("plain", "late"), js("plain", "late")}}, false, 2, true))
	}
	return out
}
