package main

import (
	"fmt"
	"sync"
	"time"

	fpgo "github.com/TeaEntityLab/fpGo/v2"
	"github.com/TeaEntityLab/fpGo/v2/zzverif/vsched"
	"verifharness/lib/e1"
)

// concScenario: `pubs` publishing threads (values 1.., one each) against one thread that performs a
// script of subscribe / unsubscribe operations on subscribers 1..2; subscriber 0 is registered
// before and stays. Callbacks yield (a publisher can be parked between two deliveries).
func concScenario(pubs int, script []string, withHandler bool, bound int) *vsched.Scenario {
	fam := "concurrent"
	if withHandler {
		fam = "concurrent-handler"
	}
	return &vsched.Scenario{
		Name:  fmt.Sprintf("%s/pubs%d/%v", fam, pubs, script),
		Bound: bound,
		Body: func() {
			p := fpgo.PublisherNewGenerics[int]()
			var h *fpgo.HandlerDef
			if withHandler {
				h = fpgo.Handler.NewByCh(make(chan func(), 1))
				p.SubscribeOn(h)
			}
			mk := func(s int) fpgo.Subscription[int] {
				return fpgo.Subscription[int]{OnNext: func(v int) {
					vsched.Event("deliver", s, v, vsched.ThreadName())
					vsched.Yield()
					vsched.Event("deliver-end", s, v)
				}}
			}
			handles := map[int]*fpgo.Subscription[int]{}
			handles[0] = p.Subscribe(mk(0))
			handles[1] = p.Subscribe(mk(1))
			vsched.Event("sub-done", 0)
			vsched.Event("sub-done", 1)
			var wg sync.WaitGroup
			for k := 0; k < pubs; k++ {
				k := k
				wg.Add(1)
				vsched.GoNamed(fmt.Sprintf("publisher%d", k), func() {
					vsched.Event("pub-begin", k+1, vsched.ThreadName())
					p.Publish(k + 1)
					vsched.Event("pub-end", k+1)
					wg.Done()
				})
			}
			wg.Add(1)
			vsched.GoNamed("changer", func() {
				for _, op := range script {
					switch op {
					case "unsub1":
						vsched.Event("unsub-begin", 1)
						p.Unsubscribe(handles[1])
						vsched.Event("unsub-done", 1)
					case "sub2":
						handles[2] = p.Subscribe(mk(2))
						vsched.Event("sub-done", 2)
					case "unsub0":
						vsched.Event("unsub-begin", 0)
						p.Unsubscribe(handles[0])
						vsched.Event("unsub-done", 0)
					}
				}
				wg.Done()
			})
			wg.Wait()
		},
		Check: func(r *vsched.Result) []vsched.Failure {
			fs := e1.Basic("C10", fam, r, nil)
			if len(r.Panics) > 0 {
				return fs
			}
			idx := func(kind string, a ...interface{}) int { return e1.Index(r, kind, a...) }
			if withHandler {
				// "on h": one goroutine makes all the deliveries, one at a time
				on, inside := "", 0
				for _, e := range r.Events {
					switch e.Kind {
					case "deliver":
						if on == "" {
							on = e.Args[2].(string)
						} else if on != e.Args[2].(string) {
							fs = append(fs, e1.Fail("C10|"+fam+"|wrong-goroutine", "with SubscribeOn(h) deliveries ran on two different goroutines (%s and %s): they do not all happen on h", on, e.Args[2]))
						}
						if inside > 0 {
							fs = append(fs, e1.Fail("C10|"+fam+"|overlap", "with SubscribeOn(h) two deliveries ran at the same time"))
						}
						inside++
					case "deliver-end":
						inside--
					}
				}
			}
			for v := 1; v <= pubs; v++ {
				pb, pe := -1, -1
				pubThread := ""
				for i, e := range r.Events {
					if e.Kind == "pub-begin" && e.Args[0].(int) == v {
						pb = i
						pubThread = e.Args[1].(string)
					}
					if e.Kind == "pub-end" && e.Args[0].(int) == v {
						pe = i
					}
				}
				for s := 0; s <= 2; s++ {
					n := 0
					for _, e := range r.Events {
						if e.Kind == "deliver" && e.Args[0].(int) == s && e.Args[1].(int) == v {
							n++
							if withHandler && e.Args[2].(string) == pubThread {
								fs = append(fs, e1.Fail("C10|"+fam+"|wrong-goroutine", "with SubscribeOn(h) a delivery ran on the publishing goroutine"))
							}
						}
					}
					sd, ub, ud := idx("sub-done", s), idx("unsub-begin", s), idx("unsub-done", s)
					registeredBefore := sd >= 0 && sd < pb
					unsubBeforeBegin := ud >= 0 && ud < pb
					untouchedThrough := ub < 0 || ub > pe
					switch {
					case n > 1:
						fs = append(fs, e1.Fail("C10|"+fam+"|invoked-twice", "subscription %d invoked %d times for value %d", s, n, v))
					case registeredBefore && untouchedThrough && n != 1:
						fs = append(fs, e1.Fail("C10|"+fam+"|skipped", "subscription %d was registered before Publish(%d) began and still registered when it ended, but was invoked %d times", s, v, n))
					case (unsubBeforeBegin || sd < 0) && n != 0:
						fs = append(fs, e1.Fail("C10|"+fam+"|invoked-after-unsubscribe", "subscription %d received %d although its Unsubscribe completed before the Publish began (or it was never subscribed)", s, v))
					}
				}
			}
			return fs
		},
	}
}

// twoChangers: two goroutines change the subscriber list concurrently (each Subscribe must be
// registered, each Unsubscribe must stick), then, after both are done, a Publish shows who is
// registered.
func twoChangers(a, b []string, bound int) *vsched.Scenario {
	fam := "concurrent-changers"
	return &vsched.Scenario{
		Name:  fmt.Sprintf("%s/%v|%v", fam, a, b),
		Bound: bound,
		Body: func() {
			p := fpgo.PublisherNewGenerics[int]()
			handles := map[int]*fpgo.Subscription[int]{}
			mk := func(s int) fpgo.Subscription[int] {
				return fpgo.Subscription[int]{OnNext: func(v int) { vsched.Event("deliver", s, v) }}
			}
			handles[0] = p.Subscribe(mk(0))
			handles[1] = p.Subscribe(mk(1))
			handles[9] = p.Subscribe(mk(9)) // bystander: never touched by the changers
			var wg sync.WaitGroup
			var mu sync.Mutex
			run := func(name string, script []string) {
				wg.Add(1)
				vsched.GoNamed(name, func() {
					for _, op := range script {
						var id int
						fmt.Sscanf(op[len(op)-1:], "%d", &id)
						if op[:3] == "sub" {
							h := p.Subscribe(mk(id))
							mu.Lock()
							handles[id] = h
							mu.Unlock()
						} else {
							mu.Lock()
							h := handles[id]
							mu.Unlock()
							p.Unsubscribe(h)
						}
					}
					wg.Done()
				})
			}
			run("changerA", a)
			run("changerB", b)
			wg.Wait()
			p.Publish(7)
		},
		Check: func(r *vsched.Result) []vsched.Failure {
			fs := e1.Basic("C10", fam, r, nil)
			if len(r.Panics) > 0 {
				return fs
			}
			live := map[int]bool{0: true, 1: true, 9: true}
			for _, op := range append(append([]string{}, a...), b...) {
				var id int
				fmt.Sscanf(op[len(op)-1:], "%d", &id)
				live[id] = op[:3] == "sub"
			}
			for id, want := range live {
				n := e1.Count(r, "deliver", id, 7)
				if want && n != 1 {
					fs = append(fs, e1.Fail("C10|"+fam+"|skipped", "subscription %d was subscribed (its Subscribe returned) before Publish began but was invoked %d times", id, n))
				}
				if !want && n != 0 {
					fs = append(fs, e1.Fail("C10|"+fam+"|invoked-after-unsubscribe", "subscription %d received the value although its Unsubscribe completed before the Publish began", id))
				}
			}
			return fs
		},
	}
}

// slowSubscriber: SubscribeOn(h) with `subs` subscriptions of which the first keeps h busy for `busy` of (virtual) time
// - 300 ms, 3 s, 10 min - while the deliveries to the others queue up behind it: every delivery still happens exactly
// once, on h, one at a time, however long the others had to wait.
func slowSubscriber(subs, chCap int, busy time.Duration, bound int) *vsched.Scenario {
	fam := "slow-subscriber"
	return &vsched.Scenario{
		Name:    fmt.Sprintf("%s/subs%d/cap%d/busy-%v", fam, subs, chCap, busy),
		Bound:   bound,
		IdleGap: int64(2 * time.Hour),
		Body: func() {
			p := fpgo.PublisherNewGenerics[int]()
			h := fpgo.Handler.NewByCh(make(chan func(), chCap))
			p.SubscribeOn(h)
			for s := 0; s < subs; s++ {
				s := s
				p.Subscribe(fpgo.Subscription[int]{OnNext: func(v int) {
					vsched.Event("deliver", s, v, vsched.ThreadName())
					if s == 0 {
						time.Sleep(busy)
					}
					vsched.Event("deliver-end", s, v)
				}})
			}
			vsched.Event("pub-begin", 1, vsched.ThreadName())
			p.Publish(1)
			p.Publish(2)
			vsched.Event("pub-end")
			time.Sleep(3 * busy) // (the deliveries are asynchronous: give them all the time they may need)
			vsched.Event("settled")
		},
		Check: func(r *vsched.Result) []vsched.Failure {
			fs := e1.Basic("C10", fam, r, nil)
			if len(r.Panics) > 0 || e1.Index(r, "settled") < 0 {
				return fs
			}
			pubThread, on, inside := "", "", 0
			cnt := map[[2]int]int{}
			var order []string
			for _, e := range r.Events {
				switch e.Kind {
				case "pub-begin":
					pubThread = e.Args[1].(string)
				case "deliver":
					cnt[[2]int{e.Args[0].(int), e.Args[1].(int)}]++
					order = append(order, fmt.Sprintf("%d<-%d", e.Args[0], e.Args[1]))
					th := e.Args[2].(string)
					if th == pubThread {
						fs = append(fs, e1.Fail("C10|"+fam+"|wrong-goroutine", "with SubscribeOn(h) a delivery ran on the publishing goroutine (the first subscriber keeps h busy for %v)", busy))
					} else if on == "" {
						on = th
					} else if on != th {
						fs = append(fs, e1.Fail("C10|"+fam+"|wrong-goroutine", "with SubscribeOn(h) deliveries ran on two goroutines (%s, %s) while the first subscriber keeps h busy for %v", on, th, busy))
					}
					if inside > 0 {
						fs = append(fs, e1.Fail("C10|"+fam+"|overlap", "with SubscribeOn(h) two deliveries ran at the same time (the first subscriber keeps h busy for %v)", busy))
					}
					inside++
				case "deliver-end":
					inside--
				}
			}
			for s := 0; s < subs; s++ {
				for v := 1; v <= 2; v++ {
					if n := cnt[[2]int{s, v}]; n != 1 {
						fs = append(fs, e1.Fail("C10|"+fam+"|"+map[bool]string{true: "skipped", false: "invoked-twice"}[n == 0], "subscription %d received value %d %d time(s) although it stayed registered (the first subscriber keeps h busy for %v; deliveries %v)", s, v, n, busy, order))
					}
				}
			}
			return fs
		},
	}
}

func scenarios(tier string) []*vsched.Scenario {
	b := 2
	if tier == "thorough" {
		b = 3
	}
	var out []*vsched.Scenario
	scripts := [][]string{{"unsub1"}, {"sub2"}, {"unsub0"}, {"unsub0", "sub2"}, {"sub2", "unsub1"}}
	for _, s := range scripts {
		out = append(out, concScenario(1, s, false, b))
	}
	out = append(out, concScenario(2, scripts[0], false, 2), concScenario(2, scripts[2], false, 2),
		concScenario(1, scripts[0], true, b), concScenario(1, scripts[1], true, b), concScenario(2, nil, true, 2))
	out = append(out, twoChangers([]string{"sub2"}, []string{"sub3"}, b), twoChangers([]string{"sub2"}, []string{"unsub1"}, b), twoChangers([]string{"unsub0"}, []string{"unsub1"}, b))
	for _, busy := range []time.Duration{300 * time.Millisecond, 3 * time.Second, 10 * time.Minute} {
		out = append(out, slowSubscriber(3, 1, busy, 1), slowSubscriber(4, 0, busy, 1))
	}
	if tier == "thorough" {
		out = append(out, twoChangers([]string{"sub2", "sub4"}, []string{"sub3", "unsub0"}, 2))
		out = append(out, concScenario(2, scripts[3], false, 2), concScenario(2, scripts[4], true, 2))
		for _, sc := range scripts {
			out = append(out, concScenario(1, sc, false, 4), concScenario(2, sc, false, 3))
		}
		out = append(out, concScenario(3, scripts[0], false, 2), concScenario(3, scripts[2], true, 2),
			twoChangers([]string{"sub2", "unsub0"}, []string{"unsub1", "sub3"}, 3), twoChangers([]string{"unsub0"}, []string{"unsub1"}, 4))
	}
	return out
}
