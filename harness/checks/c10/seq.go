package main

import (
	"fmt"
	"strings"

	fpgo "github.com/TeaEntityLab/fpGo/v2"
	"verifharness/lib"
)

// Re-entrant histories (engine E2 style, sequential): up to 3 subscribers whose callbacks perform a
// scripted action on their first delivery; histories over {Sub(i), Unsub(i), Pub} up to a depth;
// optional Map hops in front. Every top-level and nested Publish call is checked against the
// delivery rule of the property.

// (the "@outer" variants ignore the values of nested publishes and act on the first value of a top-level
// Publish: the removal then happens after a nested Publish has come and gone inside the same outer Publish)
var behaviours = []string{"none", "unsub-self", "unsub-next", "unsub-prev", "sub-new", "publish-nested", "unsub-stale+self",
	"unsub-self@outer", "unsub-next@outer", "unsub-prev@outer"}

type seqLog struct {
	ev []string
}

type seqWorld struct {
	p     *fpgo.PublisherDef[int]    // the publisher the subscribers are registered on
	src   *fpgo.PublisherDef[int]    // the publisher the values are published on (p itself, or the origin of the Map chain that ends in p)
	off   int                        // what the Map chain adds to a value on its way from src to p
	subs  [9]*fpgo.Subscription[int] // live handle of subscriber i (nil: not subscribed)
	armed [9]bool
	beh   []string
	n     int // number of scripted subscribers (the extra one, index n, is added by sub-new)
	log   []logEv
}

type logEv struct {
	kind string // pub-begin, pub-end, deliver, sub, unsub
	s    int
	v    int
}

func (w *seqWorld) subscribe(i int) {
	if w.subs[i] != nil {
		return
	}
	w.log = append(w.log, logEv{"sub", i, 0})
	w.subs[i] = w.p.Subscribe(fpgo.Subscription[int]{OnNext: func(v int) { w.onNext(i, v) }})
}

func (w *seqWorld) unsubscribe(i int) {
	if w.subs[i] == nil {
		return
	}
	h := w.subs[i]
	w.subs[i] = nil
	w.p.Unsubscribe(h)
	w.log = append(w.log, logEv{"unsub", i, 0})
}

func (w *seqWorld) publish(v int) {
	w.log = append(w.log, logEv{"pub-begin", 0, v})
	if w.src != nil {
		w.src.Publish(v)
	} else {
		w.p.Publish(v)
	}
	w.log = append(w.log, logEv{"pub-end", 0, v})
}

func (w *seqWorld) onNext(i, v int) {
	v -= w.off
	w.log = append(w.log, logEv{"deliver", i, v})
	if i >= w.n || !w.armed[i] {
		return
	}
	if strings.HasSuffix(w.beh[i], "@outer") && v >= 100 {
		return
	}
	w.armed[i] = false
	switch strings.TrimSuffix(w.beh[i], "@outer") {
	case "unsub-self":
		w.unsubscribe(i)
	case "unsub-stale+self": // first a handle that is not registered (never was / already removed), then itself
		w.p.Unsubscribe(&fpgo.Subscription[int]{OnNext: func(int) {}})
		w.unsubscribe(i)
	case "unsub-next":
		w.unsubscribe((i + 1) % w.n)
	case "unsub-prev":
		w.unsubscribe((i + w.n - 1) % w.n)
	case "sub-new":
		w.subscribe(w.n)
	case "publish-nested":
		w.publish(v + 100)
	}
}

// checkLog replays the log against the rule: for every Publish call (nested included), with L the
// subscriptions live at its begin, R those removed and A those added during it: each s in L\R is
// delivered the value exactly once, s in R or A at most once, nobody else; deliveries to members of
// L follow L's order.
func checkLog(log []logEv) string {
	type frame struct {
		v        int
		L        []int
		removed  map[int]bool
		added    map[int]bool
		got      map[int]int
		sequence []int
	}
	var live []int
	var stack []*frame
	for _, e := range log {
		switch e.kind {
		case "sub":
			live = append(live, e.s)
			for _, f := range stack {
				f.added[e.s] = true
			}
		case "unsub":
			var nl []int
			for _, s := range live {
				if s != e.s {
					nl = append(nl, s)
				}
			}
			live = nl
			for _, f := range stack {
				f.removed[e.s] = true
			}
		case "pub-begin":
			stack = append(stack, &frame{v: e.v, L: append([]int{}, live...), removed: map[int]bool{}, added: map[int]bool{}, got: map[int]int{}})
		case "deliver":
			// attributed to the innermost publish of that value
			var f *frame
			for k := len(stack) - 1; k >= 0; k-- {
				if stack[k].v == e.v {
					f = stack[k]
					break
				}
			}
			if f == nil {
				return fmt.Sprintf("subscriber %d received %d outside any Publish of it", e.s, e.v)
			}
			f.got[e.s]++
			f.sequence = append(f.sequence, e.s)
		case "pub-end":
			f := stack[len(stack)-1]
			stack = stack[:len(stack)-1]
			inL := map[int]bool{}
			for _, s := range f.L {
				inL[s] = true
				n := f.got[s]
				switch {
				case f.removed[s]:
					if n > 1 {
						return fmt.Sprintf("Publish(%d): subscription %d (being removed) invoked %d times", f.v, s, n)
					}
				case n == 0:
					return fmt.Sprintf("Publish(%d): subscription %d was registered before the call and through it but was skipped (live at begin %v, removed during %v, deliveries %v)", f.v, s, f.L, keysOf(f.removed), f.sequence)
				case n > 1:
					return fmt.Sprintf("Publish(%d): subscription %d invoked %d times (live at begin %v, removed during %v, deliveries %v)", f.v, s, n, f.L, keysOf(f.removed), f.sequence)
				}
			}
			for s, n := range f.got {
				if !inL[s] {
					if !f.added[s] {
						return fmt.Sprintf("Publish(%d): subscription %d is not registered but was invoked", f.v, s)
					}
					if n > 1 {
						return fmt.Sprintf("Publish(%d): subscription %d (being added) invoked %d times", f.v, s, n)
					}
				}
			}
			// order among members of L
			pos := map[int]int{}
			for i, s := range f.L {
				pos[s] = i
			}
			last := -1
			for _, s := range f.sequence {
				if p, ok := pos[s]; ok {
					if p < last {
						return fmt.Sprintf("Publish(%d): deliveries %v do not follow subscription order %v", f.v, f.sequence, f.L)
					}
					last = p
				}
			}
		}
	}
	return ""
}

func keysOf(m map[int]bool) []int {
	var k []int
	for i := 0; i < 10; i++ {
		if m[i] {
			k = append(k, i)
		}
	}
	return k
}

func clauseOf(msg string) string {
	switch {
	case strings.Contains(msg, "skipped"):
		return "skipped"
	case strings.Contains(msg, "times"):
		return "invoked-twice"
	case strings.Contains(msg, "order"):
		return "order"
	}
	return "other"
}

func reentrant(r *lib.Report, tier string) (int64, int64, []interface{}) {
	depth := 4
	if tier == "thorough" {
		depth = 6
	}
	ops := []string{"sub0", "sub1", "sub2", "unsub0", "unsub1", "unsub2", "pub"}
	var states, trans int64
	var samples []interface{}
	seen := map[string]bool{}
	var hist []int
	var rec func(d int)
	run := func(beh [3]string, h []int, hops int) (string, string) {
		w := &seqWorld{p: fpgo.PublisherNewGenerics[int](), beh: beh[:], n: 3, armed: [9]bool{true, true, true}}
		if hops > 0 {
			// the subscribers sit on the last stage of a Map chain, the values enter at its origin
			w.src = w.p
			for k := 1; k <= hops; k++ {
				add := 1000 * k
				w.p = w.p.Map(func(v int) int { return v + add })
				w.off += add
			}
		}
		v := 0
		msg := lib.Catch(func() {
			for _, o := range h {
				switch {
				case o < 3:
					w.subscribe(o)
				case o < 6:
					w.unsubscribe(o - 3)
				default:
					v++
					w.publish(v)
				}
			}
		})
		if msg != "" {
			return msg, "panic"
		}
		if m := checkLog(w.log); m != "" {
			return m, clauseOf(m)
		}
		return "", fmt.Sprint(w.log)
	}
	var behs [][3]string
	for _, a := range behaviours {
		for _, b := range behaviours {
			for _, c := range behaviours {
				behs = append(behs, [3]string{a, b, c})
			}
		}
	}
	rec = func(d int) {
		if d > 0 && hist[len(hist)-1] == 6 {
			// evaluate every history that ends with a publish
			for _, beh := range behs {
				for hops := 0; hops <= 2; hops++ {
					trans++
					msg, aux := run(beh, hist, hops)
					aux = fmt.Sprintf("%s (subscribers %d Map hop(s) behind the publisher)", aux, hops)
					if msg != "" {
						names := make([]string, len(hist))
						for i, o := range hist {
							names[i] = ops[o]
						}
						r.Violation("C10|reentrant|"+aux, fmt.Sprintf("callbacks %v, history %v, subscribers %d Map hop(s) behind the publisher the values are published on: %s", beh, names, hops, msg),
							map[string]interface{}{"callback_behaviours": beh, "history": names, "map_hops": hops, "failure": msg})
					} else if !seen[aux] {
						seen[aux] = true
						states++
						if len(samples) < 2 && d >= 3 {
							names := make([]string, len(hist))
							for i, o := range hist {
								names[i] = ops[o]
							}
							samples = append(samples, map[string]interface{}{"callback_behaviours": beh, "history": names})
						}
					}
				}
			}
		}
		if d == depth {
			return
		}
		for o := range ops {
			hist = append(hist, o)
			rec(d + 1)
			hist = hist[:len(hist)-1]
		}
	}
	rec(0)
	// wider subscriber lists (4-6 subscribers, all registered, then two publishes): every vector of
	// removal behaviours, so that several removals fall into one Publish at every position
	wide := []string{"none", "unsub-self", "unsub-next", "unsub-prev", "unsub-stale+self"}
	for n := 4; n <= 6; n++ {
		if n == 6 && tier != "thorough" {
			break
		}
		total := 1
		for i := 0; i < n; i++ {
			total *= len(wide)
		}
		for code := 0; code < total; code++ {
			beh := make([]string, n)
			c := code
			for i := 0; i < n; i++ {
				beh[i] = wide[c%len(wide)]
				c /= len(wide)
			}
			w := &seqWorld{p: fpgo.PublisherNewGenerics[int](), beh: beh, n: n}
			trans++
			msg := lib.Catch(func() {
				for i := 0; i < n; i++ {
					w.armed[i] = true
					w.subscribe(i)
				}
				w.publish(1)
				w.publish(2)
			})
			clause := "panic"
			if msg == "" {
				msg = checkLog(w.log)
				clause = clauseOf(msg)
			}
			if msg != "" {
				r.Violation("C10|reentrant|"+clause, fmt.Sprintf("%d subscribers with callbacks %v, two publishes: %s", n, beh, msg),
					map[string]interface{}{"callback_behaviours": beh, "history": "subscribe all, publish, publish", "failure": msg})
			} else {
				k := fmt.Sprint(w.log)
				if !seen[k] {
					seen[k] = true
					states++
				}
			}
		}
	}
	// size sweep: n subscriptions for every n up to 70 (the registration list grows, and may be re-allocated,
	// at sizes the small histories never reach): publish, remove every third, publish, add three, publish
	// ... then one subscription (the first / the middle one / the last) removes ITSELF from inside its OnNext while
	// the value is being delivered: everybody registered when Publish was called still gets that value once, in order;
	// and the sizes continue around the powers of two up to 1025
	sweep := []int{}
	for n := 1; n <= 140; n++ {
		sweep = append(sweep, n)
	}
	for p := 256; p <= 1024; p *= 2 {
		sweep = append(sweep, p-1, p, p+1)
	}
	for _, n := range sweep {
		trans++
		states++
		p := fpgo.PublisherNewGenerics[int]()
		var got []string
		var handles []*fpgo.Subscription[int]
		var live []int
		leaver := -1
		sub := func(id int) {
			handles = append(handles, p.Subscribe(fpgo.Subscription[int]{OnNext: func(v int) {
				got = append(got, fmt.Sprintf("%d<-%d", id, v))
				if id == leaver && v >= 4 {
					leaver = -1
					p.Unsubscribe(handles[id])
				}
			}}))
			live = append(live, id)
		}
		expect := func(v int) string {
			var w []string
			for _, id := range live {
				w = append(w, fmt.Sprintf("%d<-%d", id, v))
			}
			return fmt.Sprint(w)
		}
		fail := ""
		step := func(what string, v int) {
			got = nil
			p.Publish(v)
			if fail == "" && fmt.Sprint(got) != expect(v) {
				fail = fmt.Sprintf("%s: Publish(%d) delivered %v, registered subscriptions in order %v", what, v, got, live)
			}
		}
		if msg := lib.Catch(func() {
			for id := 0; id < n; id++ {
				sub(id)
			}
			step(fmt.Sprintf("%d subscriptions", n), 1)
			var keep []int
			for i, id := range live {
				if i%3 == 2 {
					p.Unsubscribe(handles[id])
				} else {
					keep = append(keep, id)
				}
			}
			live = keep
			step(fmt.Sprintf("%d subscriptions, every third removed", n), 2)
			for k := 0; k < 3; k++ {
				sub(n + k)
			}
			step(fmt.Sprintf("%d subscriptions, every third removed, three added", n), 3)
			for round, pos := range []int{0, len(live) / 2, len(live) - 1} {
				if pos < 0 || pos >= len(live) {
					continue
				}
				who := live[pos]
				leaver = who
				step(fmt.Sprintf("%d subscriptions, every third removed, three added; subscription %d (position %d) removes itself during this delivery", n, who, pos), 4+2*round)
				live = append(append([]int{}, live[:pos]...), live[pos+1:]...)
				step(fmt.Sprintf("... after subscription %d removed itself", who), 5+2*round)
			}
		}); msg != "" {
			fail = msg
		}
		if fail != "" {
			r.Violation("C10|size-sweep|"+clauseOf(fail+" skipped"), fail, map[string]interface{}{"subscriptions": n, "failure": fail})
		}
	}
	// Map chains: a value published on ANY stage of a chain reaches every subscriber of every later stage
	// exactly once, transformed by exactly the functions between the two stages, and no earlier stage
	for hops := 1; hops <= 3; hops++ {
		for nsub := 1; nsub <= 2; nsub++ {
			trans++
			stages := []*fpgo.PublisherDef[int]{fpgo.PublisherNewGenerics[int]()}
			for h := 0; h < hops; h++ {
				k := (h + 1) * 1000
				stages = append(stages, stages[h].Map(func(v int) int { return v + k }))
			}
			got := make([][][]int, len(stages)) // per stage, per subscriber
			for si, st := range stages {
				got[si] = make([][]int, nsub)
				for sub := 0; sub < nsub; sub++ {
					si, sub := si, sub
					st.Subscribe(fpgo.Subscription[int]{OnNext: func(v int) { got[si][sub] = append(got[si][sub], v) }})
				}
			}
			want := make([][]int, len(stages))
			for from := len(stages) - 1; from >= 0; from-- { // also publish on the inner stages first
				for _, v := range []int{10*from + 1, 10*from + 2} {
					stages[from].Publish(v)
					acc := v
					for j := from; j < len(stages); j++ {
						if j > from {
							acc += j * 1000
						}
						want[j] = append(want[j], acc)
					}
				}
			}
			for si := range stages {
				for sub := 0; sub < nsub; sub++ {
					if fmt.Sprint(got[si][sub]) != fmt.Sprint(want[si]) {
						r.Violation("C10|map|value", fmt.Sprintf("chain of %d Map hop(s), values published on every stage (last stage first): subscriber %d of stage %d received %v, expected %v", hops, sub, si, got[si][sub], want[si]),
							map[string]interface{}{"hops": hops, "stage": si, "got": got[si][sub], "want": want[si]})
					}
				}
			}
			states++
		}
	}
	// what a publisher carries is opaque to it: the payload table (nil, typed nil pointers, zero values, an
	// error value, equal-but-distinct pointers) published on an origin of interface{} / *int and received
	// directly, through Map(identity) and through a Map that turns every value into nil
	{
		pay := lib.Payloads()
		trans++
		states++
		var direct, mapped, nils []string
		origin := fpgo.PublisherNewGenerics[interface{}]()
		origin.Subscribe(fpgo.Subscription[interface{}]{OnNext: func(v interface{}) { direct = append(direct, lib.Show(v)) }})
		origin.Map(func(v interface{}) interface{} { return v }).Subscribe(fpgo.Subscription[interface{}]{OnNext: func(v interface{}) { mapped = append(mapped, lib.Show(v)) }})
		origin.Map(func(v interface{}) interface{} { return nil }).Subscribe(fpgo.Subscription[interface{}]{OnNext: func(v interface{}) { nils = append(nils, lib.Show(v)) }})
		var ptrs []string
		po := fpgo.PublisherNewGenerics[*int]()
		po.Map(func(v *int) *int { return v }).Subscribe(fpgo.Subscription[*int]{OnNext: func(v *int) { ptrs = append(ptrs, lib.Show(v)) }})
		var want, wantNil, wantPtr []string
		msg := lib.Catch(func() {
			for _, v := range pay {
				origin.Publish(v)
				want = append(want, lib.Show(v))
				wantNil = append(wantNil, "untyped-nil")
			}
			for _, v := range []*int{lib.P1, nil, lib.P2, nil} {
				po.Publish(v)
				wantPtr = append(wantPtr, lib.Show(v))
			}
		})
		switch {
		case msg != "":
			r.Violation("C10|payload|panic", "publishing the payload table: "+msg, nil)
		case fmt.Sprint(direct) != fmt.Sprint(want):
			r.Violation("C10|payload|direct", fmt.Sprintf("a subscriber of Publisher[interface{}] received %v, published %v", direct, want), nil)
		case fmt.Sprint(mapped) != fmt.Sprint(want):
			r.Violation("C10|payload|map", fmt.Sprintf("a subscriber of Map(identity) received %v, the origin published %v", mapped, want), nil)
		case fmt.Sprint(nils) != fmt.Sprint(wantNil):
			r.Violation("C10|payload|map", fmt.Sprintf("a subscriber of Map(v -> nil) received %v for %d published values", nils, len(pay)), nil)
		case fmt.Sprint(ptrs) != fmt.Sprint(wantPtr):
			r.Violation("C10|payload|map", fmt.Sprintf("a subscriber of Publisher[*int].Map(identity) received %v, published %v", ptrs, wantPtr), nil)
		}
	}
	return states, trans, samples
}
