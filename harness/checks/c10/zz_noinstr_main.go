// C10: Publisher delivers each value exactly once per live subscription, in order.
package main

import (
	"time"

	"verifharness/lib/e1"
)

func main() {
	e1.Sequential = reentrant
	e1.Main("C10", scenarios, e1.Budget{Quick: 90 * time.Second, Thorough: 15 * time.Minute},
		[]string{"re-entrant histories are enumerated sequentially on the same instrumented build; concurrent histories under the scheduler"})
}
