package main

import (
	"fmt"
	"time"

	fpgo "github.com/TeaEntityLab/fpGo/v2"
	"github.com/TeaEntityLab/fpGo/v2/zzverif/vsched"
	"verifharness/lib/e1"
)

// handlerScenario: every combination of nil / fresh handler for ObserveOn and SubscribeOn; the same
// MonadIO is subscribed `subs` times; its effect returns a different value on every evaluation.
func handlerScenario(ob, sub bool, subs int, subCap int, bound int) *vsched.Scenario {
	return slowHandlerScenario(ob, sub, subs, subCap, 0, bound)
}

// slowHandlerScenario: as handlerScenario, and every effect / OnNext keeps its handler busy for `busy` of (virtual) time
// while the next subscriptions are already posted behind it.
func slowHandlerScenario(ob, sub bool, subs int, subCap int, busy time.Duration, bound int) *vsched.Scenario {
	fam := fmt.Sprintf("handlers-ob%v-sub%v", ob, sub)
	name := fmt.Sprintf("handlers/observeOn=%v/subscribeOn=%v/subscriptions%d/subCap%d", ob, sub, subs, subCap)
	if busy > 0 {
		fam += "-slow"
		name += fmt.Sprintf("/busy-%v", busy)
	}
	return &vsched.Scenario{
		Name:    name,
		Bound:   bound,
		IdleGap: int64(3 * time.Hour),
		Body: func() {
			n := 0
			m := fpgo.MonadIONewGenerics(func() int {
				n++
				vsched.Event("effect", n, vsched.ThreadName())
				vsched.Yield()
				k := n
				if busy > 0 {
					time.Sleep(busy)
				}
				vsched.Event("effect-end", k)
				return k * 11
			})
			vsched.Event("built", n)
			var h1, h2 *fpgo.HandlerDef
			if ob {
				h1 = fpgo.Handler.NewByCh(make(chan func(), 1))
				h1.Post(func() { vsched.Event("h1-thread", vsched.ThreadName()) })
				m.ObserveOn(h1)
			}
			if sub {
				h2 = fpgo.Handler.NewByCh(make(chan func(), subCap))
				h2.Post(func() { vsched.Event("h2-thread", vsched.ThreadName()) })
				m.SubscribeOn(h2)
			}
			vsched.Event("configured", n, vsched.ThreadName())
			for i := 1; i <= subs; i++ {
				i := i
				m.Subscribe(fpgo.Subscription[int]{OnNext: func(v int) {
					vsched.Event("onnext", i, v, vsched.ThreadName())
					if busy > 0 {
						time.Sleep(busy)
					}
				}})
			}
			if busy > 0 {
				time.Sleep(time.Duration(4*subs) * busy)
			}
		},
		Check: func(r *vsched.Result) []vsched.Failure {
			fs := e1.Basic("C11", fam, r, nil)
			if len(r.Panics) > 0 {
				return fs
			}
			if busy > 0 {
				inside := 0
				for _, e := range r.Events {
					switch e.Kind {
					case "effect":
						if inside > 0 && ob {
							fs = append(fs, e1.Fail("C11|"+fam+"|effect-overlap", "two evaluations of the effect ran at the same time although both run on the one goroutine of the ObserveOn handler (each keeps it busy for %v)", busy))
						}
						inside++
					case "effect-end":
						inside--
					}
				}
			}
			caller := ""
			thr := map[string]string{}
			for _, e := range r.Events {
				switch e.Kind {
				case "configured":
					caller = e.Args[1].(string)
					if e.Args[0].(int) != 0 {
						fs = append(fs, e1.Fail("C11|"+fam+"|lazy", "building / configuring the MonadIO ran its effect"))
					}
				case "h1-thread", "h2-thread":
					thr[e.Kind] = e.Args[0].(string)
				}
			}
			wantEffectThread, wantNextThread := caller, caller
			if ob {
				wantEffectThread, wantNextThread = thr["h1-thread"], thr["h1-thread"]
			}
			if sub {
				wantNextThread = thr["h2-thread"]
			}
			if e1.Count(r, "effect") != subs {
				fs = append(fs, e1.Fail("C11|"+fam+"|effect-count", "%d subscriptions ran the effect %d times", subs, e1.Count(r, "effect")))
			}
			for _, e := range r.Events {
				if e.Kind == "effect" && e.Args[1].(string) != wantEffectThread {
					fs = append(fs, e1.Fail("C11|"+fam+"|effect-goroutine", "the effect ran on %s, expected %s", e.Args[1], wantEffectThread))
				}
			}
			for i := 1; i <= subs; i++ {
				cnt := 0
				for _, e := range r.Events {
					if e.Kind == "onnext" && e.Args[0].(int) == i {
						cnt++
						if e.Args[1].(int) != i*11 {
							fs = append(fs, e1.Fail("C11|"+fam+"|onnext-value", "subscription %d: OnNext received %v, its own evaluation yielded %d", i, e.Args[1], i*11))
						}
						if e.Args[2].(string) != wantNextThread {
							fs = append(fs, e1.Fail("C11|"+fam+"|onnext-goroutine", "OnNext ran on %s, expected %s", e.Args[2], wantNextThread))
						}
					}
				}
				if cnt != 1 {
					fs = append(fs, e1.Fail("C11|"+fam+"|onnext-count", "subscription %d: OnNext invoked %d times", i, cnt))
				}
			}
			return fs
		},
	}
}

// isolationScenario: two MonadIOs obtained from the same constructor with the same argument are two
// programs: handlers given to the first (ObserveOn + SubscribeOn) do not route the second, which has
// none and therefore runs its effect and OnNext on the subscribing goroutine. `first` says whether the
// second one is constructed before or after the first one is configured.
func isolationScenario(ctor string, secondEarly bool, bound int) *vsched.Scenario {
	fam := "isolation-" + ctor
	mk := func() *fpgo.MonadIODef[interface{}] {
		switch ctor {
		case "Just(nil)":
			return fpgo.MonadIO.Just(nil)
		case "Just(7)":
			return fpgo.MonadIO.Just(7)
		case "JustGenerics(nil)":
			return fpgo.MonadIOJustGenerics[interface{}](nil)
		case "JustGenerics(7)":
			return fpgo.MonadIOJustGenerics[interface{}](7)
		default: // New
			return fpgo.MonadIO.New(func() interface{} { return 7 })
		}
	}
	return &vsched.Scenario{
		Name:  fmt.Sprintf("isolation/%s/secondEarly=%v", ctor, secondEarly),
		Bound: bound,
		Body: func() {
			var m2 *fpgo.MonadIODef[interface{}]
			if secondEarly {
				m2 = mk()
			}
			m1 := mk()
			h1 := fpgo.Handler.NewByCh(make(chan func(), 1))
			h2 := fpgo.Handler.NewByCh(make(chan func(), 1))
			m1.ObserveOn(h1).SubscribeOn(h2)
			if !secondEarly {
				m2 = mk()
			}
			vsched.Event("caller", vsched.ThreadName())
			m2.Subscribe(fpgo.Subscription[interface{}]{OnNext: func(v interface{}) {
				vsched.Event("onnext2", fmt.Sprint(v), vsched.ThreadName())
			}})
			vsched.Event("subscribed2", fmt.Sprint(m2.Eval()))
		},
		Check: func(r *vsched.Result) []vsched.Failure {
			fs := e1.Basic("C11", fam, r, nil)
			if len(r.Panics) > 0 {
				return fs
			}
			caller := ""
			seen := false
			for _, e := range r.Events {
				switch e.Kind {
				case "caller":
					caller = e.Args[0].(string)
				case "onnext2":
					if e.Args[1].(string) != caller {
						fs = append(fs, e1.Fail("C11|"+fam+"|onnext-goroutine", "a MonadIO with no handlers delivered OnNext on %s, not on the subscribing goroutine %s (another instance from the same constructor had handlers set)", e.Args[1], caller))
					}
					seen = true
				case "subscribed2":
					if !seen {
						fs = append(fs, e1.Fail("C11|"+fam+"|onnext-sync", "a MonadIO with no handlers had not delivered OnNext when Subscribe returned"))
					}
				}
			}
			if e1.Count(r, "onnext2") != 1 {
				fs = append(fs, e1.Fail("C11|"+fam+"|onnext-count", "OnNext invoked %d times", e1.Count(r, "onnext2")))
			}
			return fs
		},
	}
}

// reconfigureScenario: a subscription is routed by the handlers that were configured when Subscribe was
// called; re-configuring the MonadIO afterwards (as Cor.YieldFromIO does with SubscribeOn(nil)) while the
// first subscription's effect is still running does not re-route it.
func reconfigureScenario(toNil bool, bound int) *vsched.Scenario {
	fam := "reconfigure-in-flight"
	return &vsched.Scenario{
		Name:  fmt.Sprintf("reconfigure-in-flight/SubscribeOn(nil)=%v", toNil),
		Bound: bound,
		Body: func() {
			m := fpgo.MonadIONewGenerics(func() int {
				vsched.Event("effect", vsched.ThreadName())
				vsched.Yield()
				vsched.Yield()
				return 5
			})
			h1 := fpgo.Handler.NewByCh(make(chan func(), 1))
			h2 := fpgo.Handler.NewByCh(make(chan func(), 1))
			h3 := fpgo.Handler.NewByCh(make(chan func(), 1))
			h1.Post(func() { vsched.Event("h1-thread", vsched.ThreadName()) })
			h2.Post(func() { vsched.Event("h2-thread", vsched.ThreadName()) })
			m.ObserveOn(h1).SubscribeOn(h2)
			m.Subscribe(fpgo.Subscription[int]{OnNext: func(v int) { vsched.Event("onnext", v, vsched.ThreadName()) }})
			if toNil {
				m.SubscribeOn(nil)
			} else {
				m.SubscribeOn(h3)
			}
			vsched.Event("reconfigured")
		},
		Check: func(r *vsched.Result) []vsched.Failure {
			fs := e1.Basic("C11", fam, r, nil)
			if len(r.Panics) > 0 {
				return fs
			}
			h1t, h2t := "", ""
			for _, e := range r.Events {
				switch e.Kind {
				case "h1-thread":
					h1t = e.Args[0].(string)
				case "h2-thread":
					h2t = e.Args[0].(string)
				}
			}
			for _, e := range r.Events {
				if e.Kind == "effect" && e.Args[0].(string) != h1t {
					fs = append(fs, e1.Fail("C11|"+fam+"|effect-goroutine", "the effect ran on %s, the observe handler configured at Subscribe time is %s", e.Args[0], h1t))
				}
				if e.Kind == "onnext" && e.Args[1].(string) != h2t {
					fs = append(fs, e1.Fail("C11|"+fam+"|onnext-goroutine", "OnNext of a subscription made with SubscribeOn(h2) ran on %s, not on h2's goroutine %s, after the MonadIO was re-configured while its effect was running", e.Args[1], h2t))
				}
			}
			if e1.Count(r, "onnext") != 1 || e1.Count(r, "effect") != 1 {
				fs = append(fs, e1.Fail("C11|"+fam+"|onnext-count", "effect ran %d time(s), OnNext %d time(s)", e1.Count(r, "effect"), e1.Count(r, "onnext")))
			}
			return fs
		},
	}
}

// resetScenario: handlers that were set and then reset to nil are gone: "every combination of nil/non-nil observe
// and subscribe handlers" includes nil given after non-nil (Cor.YieldFromIO relies on SubscribeOn(nil)). Which of
// the two is reset is the parameter; what is reset runs on the subscribing goroutine again.
func resetScenario(resetOb, resetSub bool, bound int) *vsched.Scenario {
	fam := "handlers-reset-to-nil"
	return &vsched.Scenario{
		Name:  fmt.Sprintf("handlers-reset/observeOn(nil)=%v/subscribeOn(nil)=%v", resetOb, resetSub),
		Bound: bound,
		Body: func() {
			m := fpgo.MonadIONewGenerics(func() int {
				vsched.Event("effect", vsched.ThreadName())
				return 5
			})
			h1 := fpgo.Handler.NewByCh(make(chan func(), 1))
			h2 := fpgo.Handler.NewByCh(make(chan func(), 1))
			h1.Post(func() { vsched.Event("h1-thread", vsched.ThreadName()) })
			h2.Post(func() { vsched.Event("h2-thread", vsched.ThreadName()) })
			m.ObserveOn(h1).SubscribeOn(h2)
			if resetOb {
				m.ObserveOn(nil)
			}
			if resetSub {
				m.SubscribeOn(nil)
			}
			vsched.Event("caller", vsched.ThreadName())
			m.Subscribe(fpgo.Subscription[int]{OnNext: func(v int) { vsched.Event("onnext", v, vsched.ThreadName()) }})
		},
		Check: func(r *vsched.Result) []vsched.Failure {
			fs := e1.Basic("C11", fam, r, nil)
			if len(r.Panics) > 0 || len(fs) > 0 {
				return fs
			}
			thr := map[string]string{}
			for _, e := range r.Events {
				if e.Kind == "h1-thread" || e.Kind == "h2-thread" || e.Kind == "caller" {
					thr[e.Kind] = e.Args[0].(string)
				}
			}
			wantEffect, wantNext := thr["h1-thread"], thr["h2-thread"]
			if resetOb {
				wantEffect = thr["caller"]
			}
			if resetSub {
				wantNext = wantEffect // no subscribe handler: OnNext runs where the effect ran
			}
			for _, e := range r.Events {
				if e.Kind == "effect" && e.Args[0].(string) != wantEffect {
					fs = append(fs, e1.Fail("C11|"+fam+"|effect-goroutine", "after ObserveOn(h1).SubscribeOn(h2) and the resets ObserveOn(nil)=%v SubscribeOn(nil)=%v the effect ran on %s, expected %s", resetOb, resetSub, e.Args[0], wantEffect))
				}
				if e.Kind == "onnext" && e.Args[1].(string) != wantNext {
					fs = append(fs, e1.Fail("C11|"+fam+"|onnext-goroutine", "after ObserveOn(h1).SubscribeOn(h2) and the resets ObserveOn(nil)=%v SubscribeOn(nil)=%v OnNext ran on %s, expected %s", resetOb, resetSub, e.Args[1], wantNext))
				}
			}
			if e1.Count(r, "effect") != 1 || e1.Count(r, "onnext") != 1 {
				fs = append(fs, e1.Fail("C11|"+fam+"|onnext-count", "effect ran %d time(s), OnNext %d time(s)", e1.Count(r, "effect"), e1.Count(r, "onnext")))
			}
			return fs
		},
	}
}

// noOnNextScenario: "a Subscription without OnNext runs nothing" for every combination of handlers - neither
// the outer effect, nor the FlatMap function, nor the inner effect, on any goroutine, however long one waits
// (the run ends at quiescence of all handler goroutines); a normal subscription made afterwards runs each once.
func noOnNextScenario(ob, sub bool, bound int) *vsched.Scenario {
	fam := fmt.Sprintf("no-onnext-ob%v-sub%v", ob, sub)
	return &vsched.Scenario{
		Name:  fmt.Sprintf("no-onnext/observeOn=%v/subscribeOn=%v", ob, sub),
		Bound: bound,
		Body: func() {
			m := fpgo.MonadIONewGenerics(func() int {
				vsched.Event("effect", "outer")
				return 1
			}).FlatMap(func(v int) *fpgo.MonadIODef[int] {
				vsched.Event("effect", "flatmap-fn")
				return fpgo.MonadIONewGenerics(func() int {
					vsched.Event("effect", "inner")
					return v + 1
				})
			})
			if ob {
				m.ObserveOn(fpgo.Handler.NewByCh(make(chan func(), 1)))
			}
			if sub {
				m.SubscribeOn(fpgo.Handler.NewByCh(make(chan func(), 1)))
			}
			m.Subscribe(fpgo.Subscription[int]{})
			m.Subscribe(fpgo.Subscription[int]{OnNext: nil})
			vsched.Event("subscribed-without-onnext")
			vsched.Sleep(50 * time.Millisecond)
			vsched.Event("waited")
			m.Subscribe(fpgo.Subscription[int]{OnNext: func(v int) { vsched.Event("onnext", v) }})
		},
		Check: func(r *vsched.Result) []vsched.Failure {
			fs := e1.Basic("C11", fam, r, nil)
			if len(r.Panics) > 0 {
				return fs
			}
			var ran []string
			waited := false
			for _, e := range r.Events {
				switch e.Kind {
				case "waited":
					waited = true
				case "effect":
					ran = append(ran, e.Args[0].(string))
					if !waited {
						fs = append(fs, e1.Fail("C11|"+fam+"|no-onnext-ran", "a Subscription without OnNext ran the %s effect (observeOn handler %v, subscribeOn handler %v)", e.Args[0], ob, sub))
					}
				}
			}
			if fmt.Sprint(ran) != "[outer flatmap-fn inner]" && len(fs) == 0 {
				fs = append(fs, e1.Fail("C11|"+fam+"|effect-count", "two Subscriptions without OnNext and one with: effects run %v, expected [outer flatmap-fn inner]", ran))
			}
			if e1.Count(r, "onnext") != 1 && len(fs) == 0 {
				fs = append(fs, e1.Fail("C11|"+fam+"|onnext-count", "OnNext invoked %d times", e1.Count(r, "onnext")))
			}
			return fs
		},
	}
}

func scenarios(tier string) []*vsched.Scenario {
	b := 2
	if tier == "thorough" {
		b = 3
	}
	var out []*vsched.Scenario
	for _, ob := range []bool{false, true} {
		for _, sub := range []bool{false, true} {
			out = append(out, handlerScenario(ob, sub, 1, 1, b), handlerScenario(ob, sub, 2, 2, b))
		}
	}
	out = append(out, handlerScenario(true, true, 3, 3, 1))
	for _, busy := range []time.Duration{300 * time.Millisecond, 3 * time.Second, 10 * time.Minute} {
		out = append(out, slowHandlerScenario(true, true, 3, 1, busy, 1), slowHandlerScenario(true, false, 3, 1, busy, 1), slowHandlerScenario(false, true, 3, 1, busy, 1))
	}
	for _, ob := range []bool{false, true} {
		for _, sub := range []bool{false, true} {
			out = append(out, noOnNextScenario(ob, sub, b))
		}
	}
	for _, c := range []string{"Just(nil)", "Just(7)", "JustGenerics(nil)", "JustGenerics(7)", "New"} {
		out = append(out, isolationScenario(c, false, 1), isolationScenario(c, true, 1))
	}
	out = append(out, reconfigureScenario(true, b), reconfigureScenario(false, b))
	out = append(out, resetScenario(true, true, b), resetScenario(true, false, b), resetScenario(false, true, b))
	if tier == "thorough" {
		out = append(out, handlerScenario(true, true, 3, 1, 2), handlerScenario(false, true, 3, 3, 2))
	}
	return out
}
