package main

import (
	"fmt"
	"strings"

	fpgo "github.com/TeaEntityLab/fpGo/v2"
	"verifharness/lib"
)

// All compositions (engine E3): expressions over {Just(x), New(e_i), m.FlatMap(f_j)} are built level
// by level as ONE shared DAG (every expression of level k is the receiver of every continuation), so
// that sibling compositions share their prefix objects; afterwards each expression is evaluated 0, 1
// and 2 times by Eval and by Subscribe and compared with a reference interpreter of the monad.

type world struct {
	log   []string
	epoch int // effects return base+epoch: a different value on every evaluation
}

type expr struct {
	kind string // just | new | flatmap
	x    int    // just value
	e    int    // effect index
	recv *expr
	f    int
	real *fpgo.MonadIODef[int]
}

func (e *expr) String() string {
	switch e.kind {
	case "just":
		return fmt.Sprintf("Just(%d)", e.x)
	case "new":
		return fmt.Sprintf("New(e%d)", e.e)
	}
	return fmt.Sprintf("%s.FlatMap(f%d)", e.recv, e.f)
}

func effectVal(i, epoch int) int { return (i+1)*100 + epoch }

// reference semantics
func interp(e *expr, epoch int, log *[]string) int {
	switch e.kind {
	case "just":
		return e.x
	case "new":
		*log = append(*log, fmt.Sprintf("e%d", e.e))
		return effectVal(e.e, epoch)
	}
	v := interp(e.recv, epoch, log)
	return interpCont(e.f, v, epoch, log)
}

func interpCont(f, v, epoch int, log *[]string) int {
	*log = append(*log, fmt.Sprintf("f%d(%d)", f, v))
	switch f {
	case 0: // Just(v*2+1)
		return v*2 + 1
	case 1: // New(g): logs, returns v+7+epoch
		*log = append(*log, "g1")
		return v + 7 + epoch
	default: // New(g2).FlatMap(x -> Just(x-v))
		*log = append(*log, "g2")
		x := v*3 + epoch
		*log = append(*log, fmt.Sprintf("h2(%d)", x))
		return x - v
	}
}

func (w *world) effect(i int) func() int {
	return func() int {
		w.log = append(w.log, fmt.Sprintf("e%d", i))
		return effectVal(i, w.epoch)
	}
}

func (w *world) cont(f int) func(int) *fpgo.MonadIODef[int] {
	return func(v int) *fpgo.MonadIODef[int] {
		w.log = append(w.log, fmt.Sprintf("f%d(%d)", f, v))
		switch f {
		case 0:
			return fpgo.MonadIOJustGenerics(v*2 + 1)
		case 1:
			return fpgo.MonadIONewGenerics(func() int { w.log = append(w.log, "g1"); return v + 7 + w.epoch })
		default:
			return fpgo.MonadIONewGenerics(func() int { w.log = append(w.log, "g2"); return v*3 + w.epoch }).
				FlatMap(func(x int) *fpgo.MonadIODef[int] {
					w.log = append(w.log, fmt.Sprintf("h2(%d)", x))
					return fpgo.MonadIOJustGenerics(x - v)
				})
		}
	}
}

func compositions(r *lib.Report, tier string) (int64, int64, []interface{}) {
	depth := 4
	if tier == "thorough" {
		depth = 6
	}
	w := &world{}
	var states, trans int64
	var samples []interface{}
	fail := func(clause string, e *expr, format string, a ...interface{}) {
		r.Violation("C11|compose|"+clause, fmt.Sprintf("%s: %s", e, fmt.Sprintf(format, a...)), map[string]interface{}{"expression": e.String(), "failure": fmt.Sprintf(format, a...)})
	}
	// build the shared DAG
	levels := [][]*expr{{
		{kind: "just", x: 5, real: fpgo.MonadIOJustGenerics(5)},
		{kind: "new", e: 0, real: fpgo.MonadIONewGenerics(w.effect(0))},
		{kind: "new", e: 1, real: fpgo.MonadIONewGenerics(w.effect(1))},
	}}
	nF := 3
	for d := 1; d <= depth; d++ {
		var next []*expr
		prev := levels[d-1]
		if d >= 5 {
			prev = prev[:9] // deeper levels: a fixed slice of the previous level, still with 3 siblings each
		}
		for _, m := range prev {
			for f := 0; f < nF; f++ {
				next = append(next, &expr{kind: "flatmap", recv: m, f: f, real: m.real.FlatMap(w.cont(f))})
			}
		}
		levels = append(levels, next)
	}
	if len(w.log) != 0 {
		r.Violation("C11|compose|lazy", fmt.Sprintf("building the compositions ran user effects: %v", w.log[:min(len(w.log), 6)]), map[string]interface{}{"log": w.log})
		w.log = nil
	}
	// evaluate every expression (after ALL were built): Eval twice, Subscribe with and without OnNext
	for _, lv := range levels {
		for _, e := range lv {
			states++
			for k := 1; k <= 4; k++ {
				w.epoch = k
				w.log = nil
				var want []string
				wv := interp(e, k, &want)
				trans++
				how := "Eval"
				var gv int
				delivered := 0
				p := lib.Catch(func() {
					switch k {
					case 1, 2:
						gv = e.real.Eval()
					case 3:
						how = "Subscribe"
						e.real.Subscribe(fpgo.Subscription[int]{OnNext: func(v int) { delivered++; gv = v }})
					case 4:
						how = "Subscribe(no OnNext)"
						e.real.Subscribe(fpgo.Subscription[int]{})
					}
				})
				if p != "" {
					fail("panic", e, "%s: %s", how, p)
					continue
				}
				if k == 4 {
					if len(w.log) != 0 {
						fail("no-onnext-ran", e, "a Subscription without OnNext ran effects %v", w.log)
					}
					continue
				}
				if strings.Join(w.log, ",") != strings.Join(want, ",") {
					fail("effects", e, "%s #%d ran effects %v, the composition prescribes %v", how, k, w.log, want)
				} else if gv != wv {
					fail("value", e, "%s #%d yielded %d, the composition yields %d", how, k, gv, wv)
				}
				if k == 3 && delivered != 1 {
					fail("onnext-count", e, "OnNext invoked %d times", delivered)
				}
				if len(samples) < 2 && e.kind == "flatmap" && e.recv.kind == "flatmap" && k == 1 {
					samples = append(samples, map[string]interface{}{"expression": e.String(), "effects": want, "value": wv})
				}
			}
		}
	}
	// the three laws, as equality of (effects, value), for m in levels 0..2 and all f, g
	type obs struct {
		log string
		v   int
	}
	evalObs := func(m *fpgo.MonadIODef[int], epoch int) obs {
		w.epoch = epoch
		w.log = nil
		v := m.Eval()
		return obs{strings.Join(w.log, ","), v}
	}
	for _, x := range []int{0, 3} {
		for f := 0; f < nF; f++ {
			trans++
			a := evalObs(fpgo.MonadIOJustGenerics(x).FlatMap(w.cont(f)), 9)
			w.epoch, w.log = 9, nil
			fx := w.cont(f)(x) // f(x) itself logs its call
			bv := fx.Eval()
			b := obs{strings.Join(w.log, ","), bv}
			// f(x) logs its own call once in both
			if a != b {
				r.Violation("C11|law|left-identity", fmt.Sprintf("Just(%d).FlatMap(f%d) = %v but f%d(%d) = %v", x, f, a, f, x, b), nil)
			}
		}
	}
	var ms []*expr
	for d := 0; d <= 2; d++ {
		ms = append(ms, levels[d]...)
	}
	for _, m := range ms {
		trans++
		a := evalObs(m.real.FlatMap(func(v int) *fpgo.MonadIODef[int] { return fpgo.MonadIOJustGenerics(v) }), 7)
		b := evalObs(m.real, 7)
		if a != b {
			r.Violation("C11|law|right-identity", fmt.Sprintf("%s.FlatMap(Just) = %v but m = %v", m, a, b), nil)
		}
		for f := 0; f < nF; f++ {
			for g := 0; g < nF; g++ {
				trans++
				f, g := f, g
				l := evalObs(m.real.FlatMap(w.cont(f)).FlatMap(w.cont(g)), 8)
				rr := evalObs(m.real.FlatMap(func(v int) *fpgo.MonadIODef[int] { return w.cont(f)(v).FlatMap(w.cont(g)) }), 8)
				if l != rr {
					r.Violation("C11|law|associativity", fmt.Sprintf("(%s >>= f%d) >>= f%d gives %v, %s >>= (x -> f%d x >>= f%d) gives %v", m, f, g, l, m, f, g, rr), nil)
				}
			}
		}
	}
	// the value a MonadIO carries is opaque to it: Just(v) for the payload table - and for a MonadIO as a
	// value - yields exactly v from Eval, delivers exactly v once to OnNext, and Just(v).FlatMap(f) is f(v)
	{
		inner := fpgo.MonadIO.Just(5)
		pay := append(lib.Payloads(), inner)
		show := func(v interface{}) string {
			if m, ok := v.(*fpgo.MonadIODef[interface{}]); ok {
				return fmt.Sprintf("MonadIO@%p", m)
			}
			return lib.Show(v)
		}
		for _, v := range pay {
			v := v
			trans++
			states++
			msg := ""
			p := lib.Catch(func() {
				j := fpgo.MonadIO.Just(v)
				if got := show(j.Eval()); got != show(v) {
					msg = fmt.Sprintf("Just(%s).Eval() = %s", show(v), got)
					return
				}
				var seen []string
				j.Subscribe(fpgo.Subscription[interface{}]{OnNext: func(x interface{}) { seen = append(seen, show(x)) }})
				if fmt.Sprint(seen) != fmt.Sprint([]string{show(v)}) {
					msg = fmt.Sprintf("Just(%s).Subscribe delivered %v", show(v), seen)
					return
				}
				var fArg []string
				out := j.FlatMap(func(x interface{}) *fpgo.MonadIODef[interface{}] {
					fArg = append(fArg, show(x))
					return fpgo.MonadIO.Just("f-result")
				}).Eval()
				if fmt.Sprint(fArg) != fmt.Sprint([]string{show(v)}) || show(out) != show("f-result") {
					msg = fmt.Sprintf("Just(%s).FlatMap(f): f was applied to %v and the result is %s", show(v), fArg, show(out))
				}
				g := fpgo.MonadIONewGenerics(func() interface{} { return v })
				if got := show(g.FlatMap(func(x interface{}) *fpgo.MonadIODef[interface{}] { return fpgo.MonadIO.Just(x) }).Eval()); got != show(v) {
					msg = fmt.Sprintf("New(-> %s).FlatMap(Just).Eval() = %s", show(v), got)
				}
			})
			if p != "" {
				msg = "panic: " + p
			}
			if msg != "" {
				r.Violation("C11|payload|value", msg, map[string]interface{}{"value": show(v)})
			}
		}
	}
	// deep chains: d FlatMaps (d = every length to 40, then around the powers of two up to 4097) with steps that do not
	// commute (x -> 31x+k mod p), left-nested (m.FlatMap(f1).FlatMap(f2)...) and right-nested (m.FlatMap(x -> f1(x).FlatMap(
	// x -> f2(x)...))): nothing runs before Eval, each Eval runs effect 0 and then steps 1..d once, in that order, and
	// yields the value of the composition
	{
		var ds []int
		for d := 5; d <= 40; d++ {
			ds = append(ds, d)
		}
		for p := 64; p <= 4096; p *= 2 {
			ds = append(ds, p-1, p, p+1, p+2)
		}
		for _, d := range ds {
			for shape := 0; shape < 2; shape++ {
				states++
				var log []int
				step := func(k int) func(int) *fpgo.MonadIODef[int] {
					return func(x int) *fpgo.MonadIODef[int] {
						return fpgo.MonadIONewGenerics(func() int { log = append(log, k); return (x*31 + k) % 1000003 })
					}
				}
				m := fpgo.MonadIONewGenerics(func() int { log = append(log, 0); return 7 })
				var right func(k int) func(int) *fpgo.MonadIODef[int]
				right = func(k int) func(int) *fpgo.MonadIODef[int] {
					return func(x int) *fpgo.MonadIODef[int] {
						if k == d {
							return step(k)(x)
						}
						return step(k)(x).FlatMap(right(k + 1))
					}
				}
				msg := ""
				p := lib.Catch(func() {
					if shape == 0 {
						for k := 1; k <= d; k++ {
							m = m.FlatMap(step(k))
						}
					} else {
						m = m.FlatMap(right(1))
					}
					if len(log) != 0 {
						msg = fmt.Sprintf("%d effect(s) ran while the chain was being built", len(log))
						return
					}
					want := 7
					for k := 1; k <= d; k++ {
						want = (want*31 + k) % 1000003
					}
					for ev := 0; ev < 2 && msg == ""; ev++ {
						trans++
						log = log[:0]
						got := m.Eval()
						if len(log) != d+1 {
							msg = fmt.Sprintf("evaluation %d ran %d effects, want %d", ev+1, len(log), d+1)
							break
						}
						for i, k := range log {
							if i != k {
								msg = fmt.Sprintf("evaluation %d: effect #%d to run was step %d (composition order is 0..%d)", ev+1, i, k, d)
								break
							}
						}
						if msg == "" && got != want {
							msg = fmt.Sprintf("evaluation %d gave %d, the composition's value is %d", ev+1, got, want)
						}
					}
				})
				if p != "" {
					msg = "panic: " + p
				}
				if msg != "" {
					r.Violation("C11|deep-chain|"+[]string{"left", "right"}[shape]+"-nested", fmt.Sprintf("a chain of %d FlatMaps (%s-nested): %s", d, []string{"left", "right"}[shape], msg), nil)
				}
			}
		}
	}
	return states, trans, samples
}

func min(a, b int) int {
	if a < b {
		return a
	}
	return b
}
