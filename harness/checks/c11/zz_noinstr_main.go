// C11: MonadIO is lazy, runs its effect once per evaluation, and obeys the monad laws.
package main

import (
	"time"

	"verifharness/lib/e1"
)

func main() {
	e1.Sequential = compositions
	e1.Main("C11", scenarios, e1.Budget{Quick: 90 * time.Second, Thorough: 15 * time.Minute},
		[]string{"compositions are enumerated sequentially on the same instrumented build (all expression DAGs with shared sub-expressions up to a depth); handler routing under the scheduler"})
}
