// C12: Handler and Actor mailboxes run work serially, exactly once, in per-sender order.
package main

import (
	"time"

	"verifharness/lib/e1"
)

func main() {
	e1.Main("C12", scenarios, e1.Budget{Quick: 90 * time.Second, Thorough: 15 * time.Minute}, nil)
}
