package main

import (
	"fmt"
	"sync"
	"time"

	fpgo "github.com/TeaEntityLab/fpGo/v2"
	"github.com/TeaEntityLab/fpGo/v2/zzverif/vsched"
	"verifharness/lib"
	"verifharness/lib/e1"
)

// mailboxOracle checks the enter/leave log of one mailbox: every submission (s,k) of `senders`
// senders with `msgs` messages each ran exactly once, never overlapping, in per-sender order.
func mailboxOracle(family string, r *vsched.Result, senders, msgs int) []vsched.Failure {
	fs := e1.Basic("C12", family, r, nil)
	if len(r.Panics) > 0 {
		return fs
	}
	depth := 0
	last := map[int]int{}
	for _, e := range r.Events {
		switch e.Kind {
		case "enter":
			if depth > 0 {
				fs = append(fs, e1.Fail("C12|"+family+"|overlap", "two submissions were being processed at the same time on one mailbox (second: sender %v msg %v)", e.Args[0], e.Args[1]))
			}
			depth++
			s, k := e.Args[0].(int), e.Args[1].(int)
			if prev, ok := last[s]; ok && k < prev {
				fs = append(fs, e1.Fail("C12|"+family+"|sender-order", "sender %d: message %d processed after message %d", s, k, prev))
			}
			last[s] = k
		case "leave":
			depth--
		case "self-mismatch":
			fs = append(fs, e1.Fail("C12|"+family+"|self", "the effect did not receive the actor itself"))
		}
	}
	for s := 0; s < senders; s++ {
		for k := 0; k < msgs; k++ {
			n := e1.Count(r, "enter", s, k)
			if n == 0 {
				fs = append(fs, e1.Fail("C12|"+family+"|lost", "submission (sender %d, msg %d) was accepted but never processed", s, k))
			} else if n > 1 {
				fs = append(fs, e1.Fail("C12|"+family+"|duplicate", "submission (sender %d, msg %d) processed %d times", s, k, n))
			}
		}
	}
	return fs
}

func handlerScenario(capacity, senders, msgs, bound int) *vsched.Scenario {
	return idleHandlerScenario(capacity, senders, msgs, 0, bound)
}

// idleHandlerScenario / idleActorScenario: the mailbox exists, nothing is submitted for `idle` of (virtual) time - 3 s,
// 10 min - and then all senders start at the same instant (a mailbox that parks or releases its goroutine while idle
// must come back as ONE consumer).
func idleHandlerScenario(capacity, senders, msgs int, idle time.Duration, bound int) *vsched.Scenario {
	name := fmt.Sprintf("handler/cap%d/senders%d/msgs%d", capacity, senders, msgs)
	if idle > 0 {
		name += fmt.Sprintf("/after-%v-idle", idle)
	}
	return &vsched.Scenario{
		Name:    name,
		Bound:   bound,
		IdleGap: int64(3 * time.Hour),
		Body: func() {
			h := fpgo.Handler.NewByCh(make(chan func(), capacity))
			for s := 0; s < senders; s++ {
				s := s
				vsched.GoNamed(fmt.Sprintf("sender%d", s), func() {
					if idle > 0 {
						time.Sleep(idle)
					}
					for k := 0; k < msgs; k++ {
						k := k
						h.Post(func() {
							vsched.Event("enter", s, k)
							vsched.Yield()
							vsched.Event("leave", s, k)
						})
					}
				})
			}
		},
		Check: func(r *vsched.Result) []vsched.Failure { return mailboxOracle("handler", r, senders, msgs) },
	}
}

// backlogScenario: a Handler over a channel of `capacity` slots whose first function blocks until `posts` more have been
// submitted by `senders` goroutines (they all fit the channel): then everything runs exactly once, per sender in order,
// one at a time. Sizes far beyond the interleaving scenarios (a consumer that drains in batches of a fixed size).
func backlogScenario(capacity, senders, posts, bound int) *vsched.Scenario {
	return &vsched.Scenario{
		Name:       fmt.Sprintf("handler/cap%d/backlog-of-%d-from-%d-senders", capacity, posts, senders),
		Bound:      bound,
		MaxSteps:   4000000,
		FirstOnly:  bound == 0 && posts > 400,
		MaxThreads: 200,
		Body: func() {
			h := fpgo.Handler.NewByCh(make(chan func(), capacity))
			gate := make(chan struct{})
			h.Post(func() { <-gate })
			var wg sync.WaitGroup
			for s := 0; s < senders; s++ {
				s := s
				wg.Add(1)
				vsched.GoNamed(fmt.Sprintf("sender%d", s), func() {
					for k := 0; k < posts/senders; k++ {
						k := k
						h.Post(func() {
							vsched.Event("enter", s, k)
							vsched.Event("leave", s, k)
						})
					}
					wg.Done()
				})
			}
			wg.Wait()
			close(gate)
		},
		Check: func(r *vsched.Result) []vsched.Failure {
			fs := e1.Basic("C12", "handler-backlog", r, nil)
			if len(r.Panics) > 0 {
				return fs
			}
			cnt := map[[2]int]int{}
			last := map[int]int{}
			depth := 0
			for _, e := range r.Events {
				switch e.Kind {
				case "enter":
					s, k := e.Args[0].(int), e.Args[1].(int)
					cnt[[2]int{s, k}]++
					if prev, ok := last[s]; ok && k < prev && len(fs) < 3 {
						fs = append(fs, e1.Fail("C12|handler-backlog|sender-order", "a backlog of %d functions: sender %d's function %d ran after its function %d", posts, s, k, prev))
					}
					last[s] = k
					if depth > 0 && len(fs) < 3 {
						fs = append(fs, e1.Fail("C12|handler-backlog|overlap", "two functions ran at the same time"))
					}
					depth++
				case "leave":
					depth--
				}
			}
			lost, dup := 0, 0
			for s := 0; s < senders; s++ {
				for k := 0; k < posts/senders; k++ {
					switch n := cnt[[2]int{s, k}]; {
					case n == 0:
						lost++
					case n > 1:
						dup++
					}
				}
			}
			if lost > 0 {
				fs = append(fs, e1.Fail("C12|handler-backlog|lost", "a backlog of %d accepted functions on a Handler over a channel of %d: %d never ran", posts, capacity, lost))
			}
			if dup > 0 {
				fs = append(fs, e1.Fail("C12|handler-backlog|duplicate", "a backlog of %d accepted functions on a Handler over a channel of %d: %d ran more than once", posts, capacity, dup))
			}
			return fs
		},
	}
}

type amsg struct{ s, k int }

func actorScenario(capacity, senders, msgs, bound int) *vsched.Scenario {
	return idleActorScenario(capacity, senders, msgs, 0, bound)
}

func idleActorScenario(capacity, senders, msgs int, idle time.Duration, bound int) *vsched.Scenario {
	name := fmt.Sprintf("actor/cap%d/senders%d/msgs%d", capacity, senders, msgs)
	if idle > 0 {
		name += fmt.Sprintf("/after-%v-idle", idle)
	}
	return &vsched.Scenario{
		Name:    name,
		Bound:   bound,
		IdleGap: int64(3 * time.Hour),
		Body: func() {
			var a *fpgo.ActorDef[amsg]
			a = fpgo.ActorNewByOptionsGenerics(func(self *fpgo.ActorDef[amsg], m amsg) {
				if self != a {
					vsched.Event("self-mismatch")
				}
				vsched.Event("enter", m.s, m.k)
				vsched.Yield()
				vsched.Event("leave", m.s, m.k)
			}, make(chan amsg, capacity), map[string]interface{}{})
			for s := 0; s < senders; s++ {
				s := s
				vsched.GoNamed(fmt.Sprintf("sender%d", s), func() {
					if idle > 0 {
						time.Sleep(idle)
					}
					for k := 0; k < msgs; k++ {
						a.Send(amsg{s, k})
					}
				})
			}
		},
		Check: func(r *vsched.Result) []vsched.Failure { return mailboxOracle("actor", r, senders, msgs) },
	}
}

// closeScenario: work whose submission returned before Close was called runs exactly once; work
// submitted after Close returned never runs. (Close concurrent with a submission is C15.)
func closeScenario(kind string, capacity, before, bound int) *vsched.Scenario {
	return &vsched.Scenario{
		Name:  fmt.Sprintf("%s-close/cap%d/before%d", kind, capacity, before),
		Bound: bound,
		Body: func() {
			var post func(k int)
			var closeIt func()
			if kind == "handler-via-monadio-observe" || kind == "handler-via-monadio-subscribe" || kind == "handler-via-publisher" {
				// the same Handler reached through the features that deliver on one: what they submit after Close has
				// returned is dropped like a direct Post
				h := fpgo.Handler.NewByCh(make(chan func(), capacity))
				post = func(k int) {
					work := func() { vsched.Event("enter", 0, k); vsched.Yield(); vsched.Event("leave", 0, k) }
					switch kind {
					case "handler-via-monadio-observe":
						fpgo.MonadIONewGenerics(func() int { work(); return k }).ObserveOn(h).Subscribe(fpgo.Subscription[int]{OnNext: func(int) {}})
					case "handler-via-monadio-subscribe":
						fpgo.MonadIOJustGenerics(k).SubscribeOn(h).Subscribe(fpgo.Subscription[int]{OnNext: func(int) { work() }})
					default:
						p := fpgo.PublisherNewGenerics[int]()
						p.SubscribeOn(h)
						p.Subscribe(fpgo.Subscription[int]{OnNext: func(int) { work() }})
						p.Publish(k)
					}
				}
				closeIt = h.Close
			} else if kind == "handler" {
				h := fpgo.Handler.NewByCh(make(chan func(), capacity))
				post = func(k int) {
					h.Post(func() { vsched.Event("enter", 0, k); vsched.Yield(); vsched.Event("leave", 0, k) })
				}
				closeIt = h.Close
			} else {
				a := fpgo.ActorNewByOptionsGenerics(func(self *fpgo.ActorDef[int], k int) {
					vsched.Event("enter", 0, k)
					vsched.Yield()
					vsched.Event("leave", 0, k)
				}, make(chan int, capacity), map[string]interface{}{})
				post = a.Send
				closeIt = func() {
					a.Close()
					if !a.IsClosed() {
						vsched.Event("not-closed")
					}
				}
			}
			for k := 0; k < before; k++ {
				post(k)
			}
			closeIt()
			vsched.Event("closed")
			post(100)
			post(101)
		},
		Check: func(r *vsched.Result) []vsched.Failure {
			fs := mailboxOracle(kind+"-close", r, 1, before)
			if e1.Count(r, "enter", 0, 100)+e1.Count(r, "enter", 0, 101) > 0 {
				fs = append(fs, e1.Fail("C12|"+kind+"-close|ran-after-close", "work submitted after Close returned was run"))
			}
			if e1.Count(r, "not-closed") > 0 {
				fs = append(fs, e1.Fail("C12|"+kind+"-close|is-closed", "IsClosed() false after Close returned"))
			}
			return fs
		},
	}
}

// selfCloseScenario: the shutdown-message pattern. The actor closes itself from its effect (on message 1 of
// sender 0) while other senders are submitting: Close returns, what was processed was processed once and in
// per-sender order, and what is sent after the effect has returned from Close never runs.
func selfCloseScenario(capacity, others, bound int) *vsched.Scenario {
	return &vsched.Scenario{
		Name:  fmt.Sprintf("actor-self-close/cap%d/others%d", capacity, others),
		Bound: bound,
		Body: func() {
			var a *fpgo.ActorDef[amsg]
			a = fpgo.ActorNewByOptionsGenerics(func(self *fpgo.ActorDef[amsg], m amsg) {
				vsched.Event("enter", m.s, m.k)
				if m.s == 0 && m.k == 1 {
					self.Close()
					vsched.Event("closed")
				}
				vsched.Event("leave", m.s, m.k)
			}, make(chan amsg, capacity), map[string]interface{}{})
			for s := 1; s <= others; s++ {
				s := s
				vsched.GoNamed(fmt.Sprintf("sender%d", s), func() {
					a.Send(amsg{s, 0})
					a.Send(amsg{s, 1})
				})
			}
			a.Send(amsg{0, 0})
			a.Send(amsg{0, 1})
			a.Send(amsg{0, 2})
		},
		Check: func(r *vsched.Result) []vsched.Failure {
			fs := e1.Basic("C12", "actor-self-close", r, nil)
			if len(r.Panics) > 0 || len(fs) > 0 {
				return fs
			}
			closed := e1.Index(r, "closed")
			if closed < 0 {
				return append(fs, e1.Fail("C12|actor-self-close|close-stuck", "Close called from the actor's own effect did not return: %v", r.Events))
			}
			depth := 0
			last := map[int]int{}
			seen := map[string]int{}
			for i, e := range r.Events {
				switch e.Kind {
				case "enter":
					if depth > 0 {
						fs = append(fs, e1.Fail("C12|actor-self-close|overlap", "two messages were being processed at the same time"))
					}
					depth++
					s, k := e.Args[0].(int), e.Args[1].(int)
					if prev, ok := last[s]; ok && k < prev {
						fs = append(fs, e1.Fail("C12|actor-self-close|sender-order", "sender %d: message %d processed after message %d", s, k, prev))
					}
					last[s] = k
					seen[fmt.Sprint(s, k)]++
					if seen[fmt.Sprint(s, k)] > 1 {
						fs = append(fs, e1.Fail("C12|actor-self-close|duplicate", "message (%d,%d) processed twice", s, k))
					}
					if i > closed && !(s == 0 && k == 1) {
						// processed after Close returned: only what was already in the mailbox buffer may still run
						if capacity == 0 {
							fs = append(fs, e1.Fail("C12|actor-self-close|ran-after-close", "message (%d,%d) was processed after Close had returned on an unbuffered mailbox", s, k))
						}
					}
				case "leave":
					depth--
				}
			}
			if seen["0 2"] > 0 && capacity == 0 {
				fs = append(fs, e1.Fail("C12|actor-self-close|ran-after-close", "a message sent after the closing message was processed"))
			}
			return fs
		},
	}
}

// spawnScenario: children are independent mailboxes registered under their parent; a child of a
// closed parent is not registered. The parent's effect blocks until its child's effect has run: if
// the child were served by the parent's mailbox the execution would deadlock.
func spawnScenario(fromEffect bool, bound int) *vsched.Scenario {
	name := "spawn/from-driver"
	if fromEffect {
		name = "spawn/from-effect"
	}
	return &vsched.Scenario{
		Name:  name,
		Bound: bound,
		Body: func() {
			childDone := make(chan int, 4)
			var parent, child, grand *fpgo.ActorDef[int]
			childEffect := func(self *fpgo.ActorDef[int], m int) {
				vsched.Event("child-got", m, self == child || self == grand)
				childDone <- m
			}
			parent = fpgo.ActorNewGenerics(func(self *fpgo.ActorDef[int], m int) {
				vsched.Event("parent-got", m, self == parent)
				if m == 1 && fromEffect {
					child = self.Spawn(childEffect)
					vsched.Event("spawned")
				}
				if m == 2 {
					// wait for the child's effect: only possible if the child has its own mailbox goroutine
					<-childDone
					vsched.Event("parent-saw-child")
				}
			})
			if fromEffect {
				parent.Send(1)
			} else {
				child = parent.Spawn(childEffect)
			}
			parent.Send(2) // rendezvous: message 1 has been fully processed when this returns from the unbuffered send of 2? (no: only taken) -> use Send(3) below as a barrier
			vsched.GoNamed("feeder", func() {
				// by now message 2 was taken, so message 1's effect (the spawn) has completed
				child.Send(7)
			})
			parent.Send(3)
			vsched.Event("reg", child.GetParent() == parent, parent.GetChild(child.GetID()) == child, child.GetID() != parent.GetID())
			grand = child.Spawn(childEffect)
			vsched.Event("reg-grand", grand.GetParent() == child, child.GetChild(grand.GetID()) == grand, parent.GetChild(grand.GetID()) == nil)
			grand.Send(8)
			<-childDone
			// closed parent: the new actor is not registered, but works
			parent.Close()
			orphanDone := make(chan int, 1)
			orphan := parent.Spawn(func(self *fpgo.ActorDef[int], m int) { orphanDone <- m })
			vsched.Event("orphan", orphan.GetParent() == nil, parent.GetChild(orphan.GetID()) == nil)
			orphan.Send(9)
			vsched.Event("orphan-got", <-orphanDone)
			// an OPEN actor whose parent (and grandparent) is closed still registers what it spawns: the rule is
			// about the spawning actor itself being closed
			lateDone := make(chan int, 1)
			late := grand.Spawn(func(self *fpgo.ActorDef[int], m int) { lateDone <- m })
			vsched.Event("under-open-actor-with-closed-ancestor", late.GetParent() == grand, grand.GetChild(late.GetID()) == late)
			child.Close()
			late2 := grand.Spawn(func(self *fpgo.ActorDef[int], m int) { lateDone <- m })
			vsched.Event("under-open-actor-with-closed-parent", late2.GetParent() == grand, grand.GetChild(late2.GetID()) == late2)
			late.Send(10)
			vsched.Event("late-got", <-lateDone)
		},
		Check: func(r *vsched.Result) []vsched.Failure {
			fs := e1.Basic("C12", "spawn", r, nil)
			if len(fs) > 0 {
				return fs
			}
			want := []struct {
				kind string
				args []interface{}
			}{{"parent-got", []interface{}{2, true}}, {"parent-got", []interface{}{3, true}}, {"child-got", []interface{}{7, true}}, {"child-got", []interface{}{8, true}},
				{"parent-saw-child", nil}, {"reg", []interface{}{true, true, true}}, {"reg-grand", []interface{}{true, true, true}}, {"orphan", []interface{}{true, true}}, {"orphan-got", []interface{}{9}},
				{"under-open-actor-with-closed-ancestor", []interface{}{true, true}}, {"under-open-actor-with-closed-parent", []interface{}{true, true}}, {"late-got", []interface{}{10}}}
			for _, w := range want {
				if n := e1.Count(r, w.kind, w.args...); n != 1 || (w.args == nil && e1.Count(r, w.kind) != 1) {
					fs = append(fs, e1.Fail("C12|spawn|"+w.kind, "expected exactly one %s%v, events: %v", w.kind, w.args, r.Events))
				}
			}
			return fs
		},
	}
}

// twinScenario: two mailboxes obtained from the same constructor are independent: the first one's
// work blocks until the second one's work has run (served by one goroutine or one channel they would
// deadlock), and each processes exactly what was submitted to it. Covers every constructor.
func twinScenario(ctor string, bound int) *vsched.Scenario {
	fam := "twin-" + ctor
	return &vsched.Scenario{
		Name:  "twin-mailboxes/" + ctor,
		Bound: bound,
		Body: func() {
			gate := make(chan int, 1)
			var post [2]func(k int)
			for i := 0; i < 2; i++ {
				i := i
				work := func(k int) {
					vsched.Event("enter", i, k)
					if i == 0 {
						<-gate // until mailbox 1 has processed its message
					} else {
						gate <- 1
					}
					vsched.Event("leave", i, k)
				}
				switch ctor {
				case "Handler.New":
					h := fpgo.Handler.New()
					post[i] = func(k int) { h.Post(func() { work(k) }) }
				case "Handler.NewByCh":
					h := fpgo.Handler.NewByCh(make(chan func(), 1))
					post[i] = func(k int) { h.Post(func() { work(k) }) }
				case "Actor.New":
					a := fpgo.Actor.New(func(self *fpgo.ActorDef[interface{}], m interface{}) { work(m.(int)) })
					post[i] = func(k int) { a.Send(k) }
				case "Actor.NewByOptions":
					a := fpgo.Actor.NewByOptions(func(self *fpgo.ActorDef[interface{}], m interface{}) { work(m.(int)) }, make(chan interface{}, 1), map[string]interface{}{})
					post[i] = func(k int) { a.Send(k) }
				case "ActorNewGenerics":
					a := fpgo.ActorNewGenerics(func(self *fpgo.ActorDef[int], m int) { work(m) })
					post[i] = a.Send
				default: // ActorNewByOptionsGenerics
					a := fpgo.ActorNewByOptionsGenerics(func(self *fpgo.ActorDef[int], m int) { work(m) }, make(chan int, 1), nil)
					post[i] = a.Send
				}
			}
			vsched.GoNamed("sender0", func() { post[0](0) })
			vsched.GoNamed("sender1", func() { post[1](0) })
		},
		Check: func(r *vsched.Result) []vsched.Failure {
			fs := e1.Basic("C12", fam, r, nil)
			if len(r.Panics) > 0 {
				return fs
			}
			for i := 0; i < 2; i++ {
				if e1.Count(r, "enter", i, 0) != 1 || e1.Count(r, "leave", i, 0) != 1 {
					fs = append(fs, e1.Fail("C12|"+fam+"|exactly-once", "mailbox %d processed its message %d time(s) (completed %d)", i, e1.Count(r, "enter", i, 0), e1.Count(r, "leave", i, 0)))
				}
			}
			return fs
		},
	}
}

// payloadScenario: a message is opaque to the mailbox. One sender sends the payload table (nil, typed nil
// pointers, zero values, an error value ...) to an Actor[interface{}], then zero values to an Actor[int]
// whose buffered mailbox is closed with the backlog still queued: each message is processed exactly once, in order.
func payloadScenario(capacity int, bound int) *vsched.Scenario {
	fam := "payload"
	pay := lib.Payloads()
	return &vsched.Scenario{
		Name:  fmt.Sprintf("payload/cap%d", capacity),
		Bound: bound,
		Body: func() {
			a := fpgo.ActorNewByOptionsGenerics(func(self *fpgo.ActorDef[interface{}], m interface{}) {
				vsched.Event("got", lib.Show(m))
			}, make(chan interface{}, capacity), nil)
			for _, v := range pay {
				a.Send(v)
			}
			ints := fpgo.ActorNewByOptionsGenerics(func(self *fpgo.ActorDef[int], m int) {
				vsched.Event("got-int", m)
			}, make(chan int, 4), nil)
			for _, v := range []int{0, 0, 7, 0} {
				ints.Send(v)
			}
			ints.Close() // the backlog accepted before Close is still processed
			a.Close()
		},
		Check: func(r *vsched.Result) []vsched.Failure {
			fs := e1.Basic("C12", fam, r, nil)
			if len(fs) > 0 {
				return fs
			}
			var got, want []string
			var gotInts []int
			for _, e := range r.Events {
				if e.Kind == "got" {
					got = append(got, e.Args[0].(string))
				}
				if e.Kind == "got-int" {
					gotInts = append(gotInts, e.Args[0].(int))
				}
			}
			for _, v := range pay {
				want = append(want, lib.Show(v))
			}
			if fmt.Sprint(got) != fmt.Sprint(want) {
				fs = append(fs, e1.Fail("C12|"+fam+"|messages", "the actor processed %v, it was sent %v", got, want))
			}
			if fmt.Sprint(gotInts) != "[0 0 7 0]" {
				fs = append(fs, e1.Fail("C12|"+fam+"|zero-messages", "an Actor[int] with a buffered mailbox, sent [0 0 7 0] and then closed, processed %v", gotInts))
			}
			return fs
		},
	}
}

// askMixScenario: the mailbox of an actor that also answers Asks. One Ask times out on the asker's side
// (the effect replies late, or never); the messages sent to the same actor before and after it are each
// processed exactly once, in order - a reply nobody waits for any more must not wedge the mailbox.
func askMixScenario(late string, capacity, bound int) *vsched.Scenario {
	return askMixScenarioT(late, capacity, 5*time.Millisecond, bound)
}

func askMixScenarioT(late string, capacity int, timeout time.Duration, bound int) *vsched.Scenario {
	return &vsched.Scenario{
		Name:  fmt.Sprintf("actor/ask-times-out-reply-%s/cap%d/timeout%v", late, capacity, timeout),
		Bound: bound,
		Body: func() {
			actor := fpgo.ActorNewByOptionsGenerics(func(self *fpgo.ActorDef[interface{}], msg interface{}) {
				switch m := msg.(type) {
				case int:
					vsched.Event("enter", 0, m)
					vsched.Yield()
					vsched.Event("leave", 0, m)
				case *fpgo.AskDef[int, int]:
					// (the Ask is the sender's second submission: it is processed between the first and the third)
					vsched.Event("enter", 0, 1)
					if late == "late" {
						time.Sleep(20 * time.Millisecond)
						m.Reply(m.Message * 2)
					}
					vsched.Event("leave", 0, 1)
				}
			}, make(chan interface{}, capacity), map[string]interface{}{})
			actor.Send(0)
			_, err := fpgo.AskNewGenerics[int, int](21).AskOnceWithTimeout(actor, timeout)
			vsched.Event("asked", err == fpgo.ErrActorAskTimeout)
			actor.Send(2)
			actor.Send(3)
		},
		Check: func(r *vsched.Result) []vsched.Failure {
			return mailboxOracle("actor-ask-mix", r, 1, 4)
		},
	}
}

func scenarios(tier string) []*vsched.Scenario {
	b := 2
	caps := []int{0, 1, 2}
	var out []*vsched.Scenario
	if tier == "thorough" {
		b = 3
	}
	for _, c := range caps {
		for _, shape := range [][2]int{{1, 2}, {2, 1}, {2, 2}, {3, 1}} {
			if tier != "thorough" && shape == [2]int{2, 2} && c == 2 {
				continue
			}
			out = append(out, handlerScenario(c, shape[0], shape[1], b), actorScenario(c, shape[0], shape[1], b))
		}
		for _, before := range []int{0, 1, 2} {
			if before > c+1 {
				continue
			}
			out = append(out, closeScenario("handler", c, before, b), closeScenario("actor", c, before, b))
			if c <= 1 && before <= 1 {
				out = append(out, closeScenario("handler-via-monadio-observe", c, before, b), closeScenario("handler-via-monadio-subscribe", c, before, b), closeScenario("handler-via-publisher", c, before, b))
			}
		}
	}
	out = append(out, backlogScenario(64, 2, 40, 1), backlogScenario(512, 1, 300, 0), backlogScenario(2048, 4, 600, 0), backlogScenario(2048, 1, 1100, 0))
	for _, idle := range []time.Duration{3 * time.Second, 10 * time.Minute} {
		for _, c := range []int{0, 1} {
			out = append(out, idleHandlerScenario(c, 2, 2, idle, b), idleActorScenario(c, 2, 2, idle, b), idleActorScenario(c, 3, 1, idle, b))
		}
	}
	if tier == "thorough" {
		out = append(out, handlerScenario(1, 3, 2, 2), actorScenario(1, 3, 2, 2), handlerScenario(0, 4, 1, 2), actorScenario(0, 4, 1, 2))
		// deeper: bound 4 on the two-sender shapes, more senders / messages under bound 2, delay bound 3 with 6 senders
		for _, c := range caps {
			out = append(out, handlerScenario(c, 2, 2, 4), actorScenario(c, 2, 2, 4), handlerScenario(c, 2, 3, 2), actorScenario(c, 2, 3, 2),
				handlerScenario(c, 5, 1, 2), actorScenario(c, 5, 1, 2))
		}
	}
	out = append(out, selfCloseScenario(0, 1, b), selfCloseScenario(0, 2, 1), selfCloseScenario(1, 1, b))
	out = append(out, spawnScenario(false, b), spawnScenario(true, b), payloadScenario(0, 1), payloadScenario(3, 1))
	for _, c := range []int{0, 2} {
		out = append(out, askMixScenario("late", c, b), askMixScenario("never", c, b), askMixScenarioT("never", c, 0, b), askMixScenarioT("late", c, -time.Millisecond, b))
	}
	for _, c := range []string{"Handler.New", "Handler.NewByCh", "Actor.New", "Actor.NewByOptions", "ActorNewGenerics", "ActorNewByOptionsGenerics"} {
		out = append(out, twinScenario(c, b))
	}
	return out
}
