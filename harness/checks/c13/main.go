// C13: Ask/Reply — every asker gets its own answer; timeouts are clean.
package main

import (
	"time"

	"verifharness/lib/e1"
)

func main() {
	e1.Main("C13", scenarios, e1.Budget{Quick: 90 * time.Second, Thorough: 15 * time.Minute},
		[]string{"a timeout can fire early only as a bounded deviation (the asker was starved); durations are virtual"})
}
