package main

import (
	"fmt"
	"time"

	fpgo "github.com/TeaEntityLab/fpGo/v2"
	"github.com/TeaEntityLab/fpGo/v2/zzverif/vsched"
	"verifharness/lib/e1"
)

const (
	replyNow   = "now"
	replyYield = "yield"
	replyLate  = "late"  // after 20 ms; the asker's timeout is 10 ms
	replyNever = "never" // only for first-round requests (payload < 100)
)

func answer(p int) int { return p*10 + 1 }

// askScenario: n askers; each asks once with the given mode, then (if second) asks again with
// AskOnce, which must be answered whatever happened to the first request.
func askScenario(n int, mode, reply string, second bool, bound int) *vsched.Scenario {
	fam := mode + "-" + reply
	return &vsched.Scenario{
		Name:     fmt.Sprintf("ask/%s/reply-%s/askers%d/second=%v", mode, reply, n, second),
		Bound:    bound,
		TimerDev: true,
		Body: func() {
			actor := fpgo.ActorNewGenerics(func(self *fpgo.ActorDef[interface{}], msg interface{}) {
				a := msg.(*fpgo.AskDef[int, int])
				p := a.Message
				if p < 100 {
					switch reply {
					case replyYield:
						vsched.Yield()
					case replyLate:
						time.Sleep(20 * time.Millisecond)
					case replyNever:
						return
					}
				}
				vsched.Event("replying", p)
				a.Reply(answer(p))
				vsched.Event("replied", p)
			})
			for i := 0; i < n; i++ {
				i := i
				vsched.GoNamed(fmt.Sprintf("asker%d", i), func() {
					p := i + 1
					ask := fpgo.AskNewGenerics[int, int](p)
					switch mode {
					case "once":
						v := ask.AskOnce(actor)
						vsched.Event("got", p, v, "nil")
					case "channel":
						ch := ask.AskChannel(actor)
						v := <-ch
						vsched.Event("got", p, v, "nil")
					case "timeout":
						v, err := ask.AskOnceWithTimeout(actor, 10*time.Millisecond)
						es := "nil"
						if err == fpgo.ErrActorAskTimeout {
							es = "timeout"
						} else if err != nil {
							es = "other:" + err.Error()
						}
						vsched.Event("got", p, v, es)
					}
					if second {
						p2 := 100 + i
						v := fpgo.AskNewGenerics[int, int](p2).AskOnce(actor)
						vsched.Event("got", p2, v, "nil")
					}
				})
			}
		},
		Check: func(r *vsched.Result) []vsched.Failure {
			fs := e1.Basic("C13", fam, r, nil)
			if len(r.Panics) > 0 {
				return fs
			}
			for i := 0; i < n; i++ {
				ps := []int{i + 1}
				if second {
					ps = append(ps, 100+i)
				}
				for _, p := range ps {
					okN := e1.Count(r, "got", p, answer(p), "nil")
					toN := e1.Count(r, "got", p, 0, "timeout")
					all := 0
					for _, e := range r.Events {
						if e.Kind == "got" && e.Args[0].(int) == p {
							all++
						}
					}
					if all != 1 {
						// a blocked asker is already reported by Basic
						if all > 1 {
							fs = append(fs, e1.Fail("C13|"+fam+"|answered-twice", "request %d completed %d times", p, all))
						}
						continue
					}
					mayTimeout := mode == "timeout" && p < 100
					mustTimeout := mayTimeout && reply == replyNever
					switch {
					case okN == 1 && !mustTimeout:
					case toN == 1 && mayTimeout:
					default:
						fs = append(fs, e1.Fail("C13|"+fam+"|wrong-answer", "request with payload %d got %v (its own answer is %d)", p, r.Events[e1.Index(r, "got")].Args, answer(p)))
						for _, e := range r.Events {
							if e.Kind == "got" && e.Args[0].(int) == p {
								fs[len(fs)-1].Text = fmt.Sprintf("request with payload %d returned (%v, %v); its own answer is %d", p, e.Args[1], e.Args[2], answer(p))
							}
						}
					}
				}
			}
			return fs
		},
	}
}

func scenarios(tier string) []*vsched.Scenario {
	b := 2
	if tier == "thorough" {
		b = 3
	}
	var out []*vsched.Scenario
	for _, n := range []int{1, 2, 3} {
		bb := b
		if n == 3 && tier != "thorough" {
			bb = 1
		}
		if n == 3 && tier == "thorough" {
			bb = 2
		}
		out = append(out,
			askScenario(n, "once", replyNow, false, bb),
			askScenario(n, "once", replyYield, false, bb),
			askScenario(n, "channel", replyNow, false, bb))
		if n == 3 && tier != "thorough" {
			continue
		}
		out = append(out,
			askScenario(n, "timeout", replyNow, true, bb),
			askScenario(n, "timeout", replyYield, true, bb),
			askScenario(n, "timeout", replyLate, true, bb),
			askScenario(n, "timeout", replyNever, true, bb),
		)
	}
	return out
}
