package main

import (
	"fmt"
	"strings"
	"time"

	fpgo "github.com/TeaEntityLab/fpGo/v2"
	"github.com/TeaEntityLab/fpGo/v2/zzverif/vsched"
	"verifharness/lib"
	"verifharness/lib/e1"
)

const (
	replyNow   = "now"
	replyYield = "yield"
	replyLate  = "late"  // after 20 ms; the asker's timeout is 10 ms
	replyNever = "never" // only for first-round requests (payload < 100)
	// the effect hands a first-round ask to a helper goroutine, which replies after 20 ms (the effect itself returns at once)
	replyHelperLate = "helper-late"
)

func answer(p int) int { return p*10 + 1 }

// askScenario: n askers; each asks once with the given mode, then (if second) asks again with
// AskOnce, which must be answered whatever happened to the first request.
func askScenario(n int, mode, reply string, second bool, bound int) *vsched.Scenario {
	return askScenarioCh(n, mode, reply, second, -1, bound)
}

// own >= 0: the first-round Ask is built with AskNewByOptionsGenerics on a reply channel of that
// capacity supplied by the caller.
func askScenarioCh(n int, mode, reply string, second bool, own int, bound int) *vsched.Scenario {
	fam := mode + "-" + reply
	chn := ""
	if own >= 0 {
		chn = fmt.Sprintf("/own-channel-cap%d", own)
	}
	return &vsched.Scenario{
		Name:     fmt.Sprintf("ask/%s/reply-%s/askers%d/second=%v%s", mode, reply, n, second, chn),
		Bound:    bound,
		TimerDev: true,
		Body: func() {
			vsched.PoolRetain = 0
			actor := fpgo.ActorNewGenerics(func(self *fpgo.ActorDef[interface{}], msg interface{}) {
				a := msg.(*fpgo.AskDef[int, int])
				p := a.Message
				if p < 100 {
					switch reply {
					case replyYield:
						vsched.Yield()
					case replyLate:
						time.Sleep(20 * time.Millisecond)
					case replyNever:
						return
					case replyHelperLate:
						vsched.Go(func() {
							time.Sleep(20 * time.Millisecond)
							vsched.Event("replying", p)
							a.Reply(answer(p))
							vsched.Event("replied", p)
						})
						return
					}
				}
				vsched.Event("replying", p)
				a.Reply(answer(p))
				vsched.Event("replied", p)
			})
			for i := 0; i < n; i++ {
				i := i
				vsched.GoNamed(fmt.Sprintf("asker%d", i), func() {
					p := i + 1
					ask := fpgo.AskNewGenerics[int, int](p)
					if own >= 0 {
						ask = fpgo.AskNewByOptionsGenerics[int, int](p, make(chan int, own))
					}
					switch mode {
					case "once":
						v := ask.AskOnce(actor)
						vsched.Event("got", p, v, "nil")
					case "channel":
						ch := ask.AskChannel(actor)
						v := <-ch
						vsched.Event("got", p, v, "nil")
					case "timeout":
						v, err := ask.AskOnceWithTimeout(actor, 10*time.Millisecond)
						es := "nil"
						if err == fpgo.ErrActorAskTimeout {
							es = "timeout"
						} else if err != nil {
							es = "other:" + err.Error()
						}
						vsched.Event("got", p, v, es)
					}
					if second {
						p2 := 100 + i
						v := fpgo.AskNewGenerics[int, int](p2).AskOnce(actor)
						vsched.Event("got", p2, v, "nil")
					}
				})
			}
		},
		Check: func(r *vsched.Result) []vsched.Failure {
			fs := e1.Basic("C13", fam, r, nil)
			if len(r.Panics) > 0 {
				return fs
			}
			// Reply returns to its caller whatever became of the asker: what the effect (or a helper) does after
			// Reply still happens
			if len(fs) == 0 && r.Cap == "" {
				for _, e := range r.Events {
					if e.Kind == "replying" && e1.Count(r, "replied", e.Args[0]) != 1 {
						fs = append(fs, e1.Fail("C13|"+fam+"|reply-did-not-return", "Reply for request %v did not return to the code that called it (what follows Reply in the effect was skipped)", e.Args[0]))
					}
				}
			}
			for i := 0; i < n; i++ {
				ps := []int{i + 1}
				if second {
					ps = append(ps, 100+i)
				}
				for _, p := range ps {
					okN := e1.Count(r, "got", p, answer(p), "nil")
					toN := e1.Count(r, "got", p, 0, "timeout")
					all := 0
					for _, e := range r.Events {
						if e.Kind == "got" && e.Args[0].(int) == p {
							all++
						}
					}
					if all != 1 {
						// a blocked asker is already reported by Basic
						if all > 1 {
							fs = append(fs, e1.Fail("C13|"+fam+"|answered-twice", "request %d completed %d times", p, all))
						}
						continue
					}
					mayTimeout := mode == "timeout" && p < 100
					mustTimeout := mayTimeout && reply == replyNever
					switch {
					case okN == 1 && !mustTimeout:
					case toN == 1 && mayTimeout:
					default:
						fs = append(fs, e1.Fail("C13|"+fam+"|wrong-answer", "request with payload %d got %v (its own answer is %d)", p, r.Events[e1.Index(r, "got")].Args, answer(p)))
						for _, e := range r.Events {
							if e.Kind == "got" && e.Args[0].(int) == p {
								fs[len(fs)-1].Text = fmt.Sprintf("request with payload %d returned (%v, %v); its own answer is %d", p, e.Args[1], e.Args[2], answer(p))
							}
						}
					}
				}
			}
			return fs
		},
	}
}

// timeoutSeries: one asker issues AskOnceWithTimeout(10 ms) calls one after the other; the actor's
// latency for request k is lat[k] ("now", "edge" = exactly the timeout, "late" = 20 ms, "never").
// Timing oracle on the virtual clock: ErrActorAskTimeout is a legal result only if at least the
// timeout has elapsed between the call and its return (whatever an earlier ask left behind). pool
// selects the sync.Pool policy of the model (0 keeps nothing, 1 LIFO, 2 FIFO) in case the
// implementation recycles objects between asks.
func timeoutSeries(lat []string, pool int, bound int) *vsched.Scenario {
	return timeoutSeriesT(lat, pool, 10*time.Millisecond, bound)
}

// (timeouts of weeks are "practically forever": the answer comes long before)
func timeoutSeriesT(lat []string, pool int, timeout time.Duration, bound int) *vsched.Scenario {
	fam := "timeout-series"
	return &vsched.Scenario{
		Name:     fmt.Sprintf("ask/timeout-series/%v/timeout-%v/sync.Pool-policy%d", lat, timeout, pool),
		Bound:    bound,
		TimerDev: true,
		Body: func() {
			vsched.PoolRetain = pool
			actor := fpgo.ActorNewGenerics(func(self *fpgo.ActorDef[interface{}], msg interface{}) {
				a := msg.(*fpgo.AskDef[int, int])
				switch lat[a.Message-1] {
				case "edge":
					time.Sleep(timeout)
				case "late":
					time.Sleep(2 * timeout)
				case "never":
					return
				}
				a.Reply(answer(a.Message))
			})
			vsched.GoNamed("asker", func() {
				for k := range lat {
					p := k + 1
					t0 := vsched.Clock()
					v, err := fpgo.AskNewGenerics[int, int](p).AskOnceWithTimeout(actor, timeout)
					es := "nil"
					if err == fpgo.ErrActorAskTimeout {
						es = "timeout"
					} else if err != nil {
						es = "other:" + err.Error()
					}
					vsched.Event("got", p, v, es, vsched.Clock()-t0)
				}
			})
		},
		Check: func(r *vsched.Result) []vsched.Failure {
			fs := e1.Basic("C13", fam, r, nil)
			if len(r.Panics) > 0 {
				return fs
			}
			for _, e := range r.Events {
				if e.Kind != "got" {
					continue
				}
				p, v, es, el := e.Args[0].(int), e.Args[1].(int), e.Args[2].(string), e.Args[3].(int64)
				switch {
				case es == "nil" && v == answer(p) && lat[p-1] != "never":
				case es == "timeout" && v == 0 && el >= int64(timeout):
				case es == "timeout" && v == 0:
					fs = append(fs, e1.Fail("C13|"+fam+"|early-timeout", "request %d (actor latency %q) returned ErrActorAskTimeout %v after the call, the timeout is %v", p, lat[p-1], time.Duration(el), timeout))
				default:
					fs = append(fs, e1.Fail("C13|"+fam+"|wrong-answer", "request %d (actor latency %q) returned (%d, %s); its own answer is %d", p, lat[p-1], v, es, answer(p)))
				}
			}
			return fs
		},
	}
}

// askMethodScenario: the method-style constructors on the Ask utility instance (Ask.New,
// Ask.NewByOptions): n concurrent askers, each must get the answer to its own payload.
func askMethodScenario(n int, byOptions bool, bound int) *vsched.Scenario {
	return askMethodScenarioF(n, byOptions, false, bound)
}

// factory: New / NewByOptions are called on an Ask that was itself constructed (a typed "factory"
// instance), not on the zero-value utility instance: the derived asks are still independent requests.
func askMethodScenarioF(n int, byOptions, factory bool, bound int) *vsched.Scenario {
	fam := "ask-method"
	return &vsched.Scenario{
		Name:     fmt.Sprintf("ask/method-constructors/byOptions=%v/on-constructed-instance=%v/askers%d", byOptions, factory, n),
		Bound:    bound,
		TimerDev: true,
		Body: func() {
			vsched.PoolRetain = 0
			actor := fpgo.ActorNewGenerics(func(self *fpgo.ActorDef[interface{}], msg interface{}) {
				a := msg.(*fpgo.AskDef[interface{}, interface{}])
				vsched.Yield()
				a.Reply(answer(a.Message.(int)))
			})
			proto := &fpgo.Ask
			if factory {
				proto = fpgo.AskNewGenerics[interface{}, interface{}](0)
			}
			for i := 0; i < n; i++ {
				p := i + 1
				vsched.GoNamed(fmt.Sprintf("asker%d", i), func() {
					ask := proto.New(p)
					if byOptions {
						ask = proto.NewByOptions(p, make(chan interface{}))
					}
					v := ask.AskOnce(actor)
					vsched.Event("got", p, fmt.Sprint(v))
				})
			}
		},
		Check: func(r *vsched.Result) []vsched.Failure {
			fs := e1.Basic("C13", fam, r, nil)
			if len(r.Panics) > 0 {
				return fs
			}
			for i := 0; i < n; i++ {
				p := i + 1
				if e1.Count(r, "got", p, fmt.Sprint(answer(p))) != 1 {
					fs = append(fs, e1.Fail("C13|"+fam+"|wrong-answer", "the asker with payload %d did not get exactly its own answer %d: %v", p, answer(p), r.Events))
				}
			}
			return fs
		},
	}
}

// edgeScenario: (i) a timeout of zero or below: the ask itself may time out or be answered, and the actor
// must serve the next request whichever happened; (ii) one Ask object used for several requests in a
// row through AskChannel: every request is answered.
// payloadReplies: the reply is opaque to Ask: every value of the payload table (nil, a typed nil pointer, an
// error VALUE, zero values ...) comes back from AskOnceWithTimeout exactly, with a nil error, and from AskOnce.
func payloadReplies(bound int) *vsched.Scenario {
	fam := "payload-replies"
	pay := lib.Payloads()
	return &vsched.Scenario{
		Name:     "ask/payload-replies",
		Bound:    bound,
		TimerDev: true,
		Body: func() {
			vsched.PoolRetain = 0
			actor := fpgo.ActorNewGenerics(func(self *fpgo.ActorDef[interface{}], msg interface{}) {
				a := msg.(*fpgo.AskDef[int, interface{}])
				a.Reply(pay[a.Message])
			})
			vsched.GoNamed("asker", func() {
				for i := range pay {
					v, err := fpgo.AskNewGenerics[int, interface{}](i).AskOnceWithTimeout(actor, time.Hour)
					vsched.Event("got", i, lib.Show(v), err == nil)
					vsched.Event("got-once", i, lib.Show(fpgo.AskNewGenerics[int, interface{}](i).AskOnce(actor)))
				}
			})
		},
		Check: func(r *vsched.Result) []vsched.Failure {
			fs := e1.Basic("C13", fam, r, nil)
			if len(fs) > 0 {
				return fs
			}
			for i, v := range pay {
				if e1.Count(r, "got", i, lib.Show(v), true) != 1 || e1.Count(r, "got-once", i, lib.Show(v)) != 1 {
					fs = append(fs, e1.Fail("C13|"+fam+"|wrong-answer", "the actor replied %s to request %d; AskOnceWithTimeout / AskOnce returned: %v", lib.Show(v), i, r.Events))
					break
				}
			}
			return fs
		},
	}
}

func edgeScenario(kind string, bound int) *vsched.Scenario {
	fam := "edge-" + kind
	return &vsched.Scenario{
		Name:     "ask/edge/" + kind,
		Bound:    bound,
		TimerDev: true,
		Body: func() {
			vsched.PoolRetain = 0
			actor := fpgo.ActorNewGenerics(func(self *fpgo.ActorDef[interface{}], msg interface{}) {
				a := msg.(*fpgo.AskDef[int, int])
				vsched.Yield()
				if strings.HasSuffix(kind, "-never") && a.Message == 1 {
					return
				}
				a.Reply(answer(a.Message))
			})
			vsched.GoNamed("asker", func() {
				switch kind {
				case "timeout-zero", "timeout-negative", "timeout-zero-never", "timeout-negative-never":
					d := time.Duration(0)
					if strings.HasPrefix(kind, "timeout-negative") {
						d = -time.Millisecond
					}
					v, err := fpgo.AskNewGenerics[int, int](1).AskOnceWithTimeout(actor, d)
					vsched.Event("first", v, err == nil, err == fpgo.ErrActorAskTimeout)
					vsched.Event("second", fpgo.AskNewGenerics[int, int](2).AskOnce(actor))
				case "shared-reply-channel-cap1", "shared-reply-channel-cap2":
					// scatter-gather: several requests share one caller-supplied buffered reply channel that is smaller than
					// the number of requests in flight; the collector starts reading late. Every request gets its answer.
					shared := make(chan int, int(kind[len(kind)-1]-'0'))
					for p := 1; p <= 4; p++ {
						p := p
						vsched.GoNamed(fmt.Sprintf("scatter%d", p), func() {
							fpgo.AskNewByOptionsGenerics[int, int](p, shared).AskChannel(actor)
						})
					}
					time.Sleep(time.Millisecond)
					for i := 0; i < 4; i++ {
						vsched.Event("gathered", <-shared)
					}
					vsched.Event("gathered-all")
				case "ask-object-reused":
					a := fpgo.AskNewGenerics[int, int](3)
					for round := 1; round <= 3; round++ {
						vsched.Event("round", round, <-a.AskChannel(actor))
					}
				}
			})
		},
		Check: func(r *vsched.Result) []vsched.Failure {
			fs := e1.Basic("C13", fam, r, nil)
			if len(r.Panics) > 0 || len(fs) > 0 {
				return fs
			}
			if strings.HasPrefix(kind, "shared-reply-channel") {
				for p := 1; p <= 4; p++ {
					if e1.Count(r, "gathered", answer(p)) != 1 {
						fs = append(fs, e1.Fail("C13|"+fam+"|lost-reply", "four requests share one reply channel (%s) and the collector reads late: the answer to request %d arrived %d times: %v", kind, p, e1.Count(r, "gathered", answer(p)), r.Events))
						break
					}
				}
				return fs
			}
			if kind == "ask-object-reused" {
				for round := 1; round <= 3; round++ {
					if e1.Count(r, "round", round, answer(3)) != 1 {
						fs = append(fs, e1.Fail("C13|"+fam+"|wrong-answer", "request %d made with the same Ask object did not get its answer %d: %v", round, answer(3), r.Events))
					}
				}
				return fs
			}
			if strings.HasSuffix(kind, "-never") {
				if e1.Count(r, "first", 0, false, true) != 1 {
					fs = append(fs, e1.Fail("C13|"+fam+"|wrong-answer", "the ask with a timeout <= 0 that is never answered did not return (0, ErrActorAskTimeout): %v", r.Events))
				}
			} else if e1.Count(r, "first", answer(1), true, false)+e1.Count(r, "first", 0, false, true) != 1 {
				fs = append(fs, e1.Fail("C13|"+fam+"|wrong-answer", "the ask with a timeout <= 0 returned neither its answer nor (0, ErrActorAskTimeout): %v", r.Events))
			}
			if e1.Count(r, "second", answer(2)) != 1 {
				fs = append(fs, e1.Fail("C13|"+fam+"|later-request", "the request after the timed-out one was not answered with %d: %v", answer(2), r.Events))
			}
			return fs
		},
	}
}

func scenarios(tier string) []*vsched.Scenario {
	b := 2
	if tier == "thorough" {
		b = 3
	}
	var out []*vsched.Scenario
	for _, n := range []int{1, 2, 3} {
		bb := b
		if n == 3 && tier != "thorough" {
			bb = 1
		}
		if n == 3 && tier == "thorough" {
			bb = 2
		}
		out = append(out,
			askScenario(n, "once", replyNow, false, bb),
			askScenario(n, "once", replyYield, false, bb),
			askScenario(n, "channel", replyNow, false, bb))
		if n == 3 && tier != "thorough" {
			continue
		}
		out = append(out,
			askScenario(n, "timeout", replyNow, true, bb),
			askScenario(n, "timeout", replyYield, true, bb),
			askScenario(n, "timeout", replyLate, true, bb),
			askScenario(n, "timeout", replyNever, true, bb),
		)
		if n == 1 {
			out = append(out, askScenario(n, "timeout", replyHelperLate, true, bb))
		}
		if n <= 2 {
			for _, own := range []int{0, 1} {
				out = append(out,
					askScenarioCh(n, "timeout", replyLate, true, own, bb),
					askScenarioCh(n, "timeout", replyYield, true, own, bb),
					askScenarioCh(n, "once", replyYield, true, own, bb))
			}
		}
	}
	out = append(out, payloadReplies(0))
	out = append(out, edgeScenario("timeout-zero", b), edgeScenario("timeout-negative", b), edgeScenario("ask-object-reused", b),
		edgeScenario("timeout-zero-never", b), edgeScenario("timeout-negative-never", b), edgeScenario("shared-reply-channel-cap1", 1), edgeScenario("shared-reply-channel-cap2", 1))
	out = append(out, askMethodScenario(2, false, b), askMethodScenario(2, true, b), askMethodScenarioF(2, false, true, b), askMethodScenarioF(2, true, true, b))
	for _, pool := range []int{0, 1, 2} {
		for _, lat := range [][]string{{"edge", "now"}, {"now", "edge", "now"}, {"late", "now"}, {"never", "now", "now"}} {
			out = append(out, timeoutSeries(lat, pool, b))
		}
	}
	for _, days := range []int{24, 25, 30, 40, 45, 365, 106751} { // around the wrap of a 32-bit millisecond count, up to the largest Duration
		out = append(out, timeoutSeriesT([]string{"now", "now"}, 0, time.Duration(days)*24*time.Hour, 1))
	}
	if tier == "thorough" {
		out = append(out, timeoutSeries([]string{"edge", "edge", "now", "now"}, 1, 3), timeoutSeries([]string{"edge", "late", "edge", "now"}, 2, 3))
	}
	return out
}
