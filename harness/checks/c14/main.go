// C14: coroutines pair every YieldFrom with the matching YieldRef, in order, per caller.
package main

import (
	"time"

	"verifharness/lib/e1"
)

func main() {
	e1.Main("C14", scenarios, e1.Budget{Quick: 100 * time.Second, Thorough: 20 * time.Minute}, nil)
}
