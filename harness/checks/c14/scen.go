package main

import (
	"fmt"
	"time"

	fpgo "github.com/TeaEntityLab/fpGo/v2"
	"github.com/TeaEntityLab/fpGo/v2/zzverif/vsched"
	"verifharness/lib"
	"verifharness/lib/e1"
)

// generator shapes: next yielded value as a function of the requests seen so far
func nextY(shape string, i int, seen []int) int {
	switch shape {
	case "echo": // yields the x of the previous request (first: -1)
		if len(seen) == 0 {
			return -1
		}
		return seen[len(seen)-1]
	case "accumulate":
		s := 0
		for _, x := range seen {
			s += x
		}
		return s
	}
	return 1000 + i // fixed sequence
}

func reqX(c, j int) int { return (c+1)*100 + j }

// pairScenario: `callers` coroutines issue `reqs` YieldFrom calls each against one target that
// serves all of them.
func pairScenario(shape string, callers, reqs int, targetFirst bool, bound int, delay bool) *vsched.Scenario {
	return pairScenarioX(shape, callers, reqs, targetFirst, false, bound, delay)
}

// late: the target is started only after every caller has issued its first request (the callers are all queued
// or parked on the request buffer by then: the driver sleeps, and virtual time advances at quiescence only).
func pairScenarioX(shape string, callers, reqs int, targetFirst, late bool, bound int, delay bool) *vsched.Scenario {
	return pairScenarioL(shape, callers, reqs, targetFirst, late, time.Millisecond, bound, delay)
}

// lateFor: how long the queued / parked callers wait before the target starts (1 ms, 3 s, 10 min of virtual time): a
// request that was accepted is served however long the target took to get to it.
func pairScenarioL(shape string, callers, reqs int, targetFirst, late bool, lateFor time.Duration, bound int, delay bool) *vsched.Scenario {
	fam := "pairing-" + shape
	total := callers * reqs
	name := fmt.Sprintf("pairing/%s/callers%d/reqs%d/targetFirst=%v", shape, callers, reqs, targetFirst)
	if late {
		name += "/started-after-all-requests-are-queued"
		if lateFor != time.Millisecond {
			name += fmt.Sprintf("-and-%v-more", lateFor)
		}
	}
	return &vsched.Scenario{
		Name:  name,
		Bound: bound,
		Delay: delay,
		Body: func() {
			var target *fpgo.CorDef[int]
			target = fpgo.CorNewGenerics[int](func() {
				var seen []int
				for i := 0; i < total; i++ {
					x := target.YieldRef(nextY(shape, i, seen))
					seen = append(seen, x)
					vsched.Note("target-saw", i, x)
				}
				vsched.Event("target-done", target.IsStarted())
			})
			vsched.Event("flags-before", target.IsStarted(), target.IsDone())
			if targetFirst {
				target.Start()
			}
			for c := 0; c < callers; c++ {
				c := c
				var me *fpgo.CorDef[int]
				me = fpgo.CorNewGenerics[int](func() {
					for j := 0; j < reqs; j++ {
						v := me.YieldFrom(target, reqX(c, j))
						vsched.Note("answer", c, j, v)
					}
				})
				me.Start()
			}
			if !targetFirst {
				if late {
					time.Sleep(lateFor)
					vsched.Event("starting-late")
				}
				target.Start()
				vsched.Event("start-returned")
			}
			vsched.GoNamed("observer", func() {
				// IsDone becomes true once the effect has returned (sampled a few times, then at the end by the oracle)
				vsched.Note("sample", target.IsStarted(), target.IsDone())
			})
			tgt = target
		},
		Check: func(r *vsched.Result) []vsched.Failure {
			fs := e1.Basic("C14", fam, r, nil)
			if len(r.Panics) > 0 {
				return fs
			}
			if e1.Count(r, "flags-before", false, false) != 1 {
				fs = append(fs, e1.Fail("C14|"+fam+"|flags", "IsStarted/IsDone not false before Start"))
			}
			var order []int // x of the i-th request taken
			for _, e := range r.Events {
				if e.Kind == "target-saw" {
					if e.Args[0].(int) != len(order) {
						fs = append(fs, e1.Fail("C14|"+fam+"|target-order", "target events out of order"))
					}
					order = append(order, e.Args[1].(int))
				}
			}
			if len(order) != total {
				fs = append(fs, e1.Fail("C14|"+fam+"|lost-request", "the target took %d of %d requests: %v (parked: %v)", len(order), total, order, r.Parked))
				return fs
			}
			seenX := map[int]int{}
			for i, x := range order {
				seenX[x]++
				if seenX[x] > 1 {
					fs = append(fs, e1.Fail("C14|"+fam+"|duplicate-request", "request x=%d reached the target twice", x))
				}
				c, j := x/100-1, x%100
				if c < 0 || c >= callers || j >= reqs {
					fs = append(fs, e1.Fail("C14|"+fam+"|invented-request", "the target saw x=%d which nobody sent", x))
					continue
				}
				want := nextY(shape, i, order[:i])
				n := e1.Count(r, "answer", c, j, want)
				any := 0
				got := "nothing"
				for _, e := range r.Events {
					if e.Kind == "answer" && e.Args[0].(int) == c && e.Args[1].(int) == j {
						any++
						got = fmt.Sprint(e.Args[2])
					}
				}
				if n != 1 || any != 1 {
					fs = append(fs, e1.Fail("C14|"+fam+"|misrouted", "request #%d taken by the target (caller %d, its request %d, x=%d) must be answered with y=%d exactly once to that caller; it got %s (%d answers)", i, c, j, x, want, got, any))
				}
			}
			// per caller: its requests were taken in its own order
			last := map[int]int{}
			for _, x := range order {
				c, j := x/100-1, x%100
				if p, ok := last[c]; ok && j < p {
					fs = append(fs, e1.Fail("C14|"+fam+"|caller-order", "caller %d: request %d taken after request %d", c, j, p))
				}
				last[c] = j
			}
			if e1.Count(r, "target-done", true) != 1 {
				fs = append(fs, e1.Fail("C14|"+fam+"|flags", "IsStarted false inside the running effect"))
			}
			if tgt != nil && (!tgt.IsDone() || !tgt.IsStarted()) {
				fs = append(fs, e1.Fail("C14|"+fam+"|flags", "after the effect returned: IsStarted=%v IsDone=%v", tgt.IsStarted(), tgt.IsDone()))
			}
			return fs
		},
	}
}

var tgt *fpgo.CorDef[int]

// longLivedScenario: ONE target that has already served `warm` requests (one caller, one at a time) and then has three
// callers outstanding at once: the pairing is the same at the 70000th request as at the first (a slot table or counter
// inside the coroutine must not wrap). One execution (the default schedule): a smoke run over a very long history.
func longLivedScenario(warm int) *vsched.Scenario {
	fam := "long-lived-target"
	return &vsched.Scenario{
		Name:       fmt.Sprintf("pairing/echo/%d-requests-served-then-3-callers-at-once", warm),
		Bound:      0,
		FirstOnly:  true,
		MaxSteps:   4000000,
		MaxThreads: 100,
		Body: func() {
			var target *fpgo.CorDef[int]
			wrongEcho := 0
			target = fpgo.CorNewGenerics[int](func() {
				y := -1
				for i := 0; i < warm; i++ {
					x := target.YieldRef(y)
					if x != i {
						wrongEcho++
					}
					y = x + 1
				}
				vsched.Event("warm", wrongEcho)
				time.Sleep(time.Millisecond) // the three callers queue up meanwhile
				for i := 0; i < 3; i++ {
					x := target.YieldRef(y)
					vsched.Event("target-saw", x)
					y = x + 1
				}
			})
			target.Start()
			var first *fpgo.CorDef[int]
			first = fpgo.CorNewGenerics[int](func() {
				bad := 0
				for i := 0; i < warm; i++ {
					// the answer to request i is the y the target hands out with it: the previous x + 1 = i
					want := i
					if i == 0 {
						want = -1 // the first YieldRef hands out the target's initial y
					}
					if v := first.YieldFrom(target, i); v != want {
						bad++
					}
				}
				vsched.Event("caller-warm", bad)
				for c := 0; c < 3; c++ {
					c := c
					var me *fpgo.CorDef[int]
					me = fpgo.CorNewGenerics[int](func() {
						vsched.Event("answer", c, me.YieldFrom(target, 1000000*(c+1)))
					})
					me.Start()
				}
			})
			first.Start()
		},
		Check: func(r *vsched.Result) []vsched.Failure {
			fs := e1.Basic("C14", fam, r, nil)
			if len(fs) > 0 {
				return fs
			}
			if e1.Count(r, "warm", 0) != 1 || e1.Count(r, "caller-warm", 0) != 1 {
				fs = append(fs, e1.Fail("C14|"+fam+"|warm-up", "%d sequential round trips: wrong x at the target or wrong answer at the caller (%v)", warm, r.Events))
				return fs
			}
			// the answer to the request taken i-th is (the previous x taken) + 1; each caller's x reaches the target once
			var seen []int
			for _, e := range r.Events {
				if e.Kind == "target-saw" {
					seen = append(seen, e.Args[0].(int))
				}
			}
			ok := len(seen) == 3
			prev := warm - 1
			for _, x := range seen {
				c := x/1000000 - 1
				if x%1000000 != 0 || c < 0 || c > 2 || e1.Count(r, "answer", c, prev+1) != 1 {
					ok = false
				}
				prev = x
			}
			if !ok || e1.Count(r, "answer") != 3 {
				fs = append(fs, e1.Fail("C14|"+fam+"|misrouted", "after %d served requests, three callers at once: the target saw %v, events %v", warm, seen, r.Events[len(r.Events)-min(len(r.Events), 8):]))
			}
			return fs
		},
	}
}

func min(a, b int) int {
	if a < b {
		return a
	}
	return b
}

// startWithVal: the initial value goes to the first YieldRef, also when a caller's request races
// with the start.
func startWithValScenario(withCallerCfg bool, bound int) *vsched.Scenario {
	fam := "start-with-val"
	withCaller := withCallerCfg
	return &vsched.Scenario{
		Name:  fmt.Sprintf("start-with-val/caller=%v", withCaller),
		Bound: bound,
		Body: func() {
			withCaller = withCallerCfg
			var target *fpgo.CorDef[int]
			target = fpgo.CorNewGenerics[int](func() {
				a := target.YieldRef(1001)
				vsched.Event("first", a)
				if withCallerCfg {
					b := target.YieldRef(1002)
					vsched.Event("second", b)
				}
			})
			if withCallerCfg {
				var me *fpgo.CorDef[int]
				me = fpgo.CorNewGenerics[int](func() {
					// a request issued as soon as the target reports that it has started
					for i := 0; i < 3 && !target.IsStarted(); i++ {
						vsched.Yield()
					}
					if !target.IsStarted() {
						vsched.Event("caller-gave-up") // not started within the polling budget: no request
						return
					}
					v := me.YieldFrom(target, 9)
					vsched.Note("answer", v)
				})
				me.Start()
			}
			target.StartWithVal(5)
			target.StartWithVal(6) // a second start must be ignored
		},
		Check: func(r *vsched.Result) []vsched.Failure {
			fs := e1.Basic("C14", fam, r, nil)
			if len(r.Panics) > 0 {
				return fs
			}
			if e1.Count(r, "caller-gave-up") > 0 {
				// the target still has to get its initial value
				withCaller = false
			}
			if e1.Count(r, "first", 5) != 1 {
				fs = append(fs, e1.Fail("C14|"+fam+"|first-value", "the first YieldRef did not receive the StartWithVal value: %v", r.Events))
			}
			if withCaller {
				if e1.Count(r, "second", 9) != 1 || e1.Count(r, "answer", 1002) != 1 {
					fs = append(fs, e1.Fail("C14|"+fam+"|caller-pairing", "caller's request must be the second one and be answered with 1002: %v", r.Events))
				}
			}
			return fs
		},
	}
}

// doNotation / YieldFromIO return the effect's / the IO's value.
func doNotationScenario(bound int) *vsched.Scenario {
	fam := "do-notation"
	return &vsched.Scenario{
		Name:  "do-notation+yield-from-io",
		Bound: bound,
		Body: func() {
			var target *fpgo.CorDef[int]
			target = fpgo.CorNewGenerics[int](func() {
				x := target.YieldRef(70)
				vsched.Note("target-saw", 0, x)
			})
			target.Start()
			var c fpgo.CorDef[int]
			res := c.DoNotation(func(me *fpgo.CorDef[int]) int {
				v := me.YieldFrom(target, 3)
				io1 := me.YieldFromIO(fpgo.MonadIOJustGenerics(11))
				n := 0
				io2 := me.YieldFromIO(fpgo.MonadIONewGenerics(func() int { n++; return 20 + n }))
				return v*10000 + io1*100 + io2
			})
			vsched.Event("result", res)
		},
		Check: func(r *vsched.Result) []vsched.Failure {
			fs := e1.Basic("C14", fam, r, nil)
			if len(r.Panics) > 0 {
				return fs
			}
			if e1.Count(r, "result", 70*10000+11*100+21) != 1 || e1.Count(r, "target-saw", 0, 3) != 1 {
				fs = append(fs, e1.Fail("C14|"+fam+"|value", "DoNotation / YieldFromIO values wrong: %v", r.Events))
			}
			return fs
		},
	}
}

// ioOnHandlerScenario: the seam coroutine x MonadIO x Handler. A caller coroutine reaches the target through
// a MonadIO observed on a Handler: the IO's effect performs the YieldFrom (on the Handler's goroutine) and
// maps the answer; YieldFromIO returns the IO's value - the mapped answer of that very request - twice in a row.
func ioOnHandlerScenario(observe bool, bound int) *vsched.Scenario {
	fam := "yield-from-io-on-handler"
	return &vsched.Scenario{
		Name:  fmt.Sprintf("yield-from-io/effect-does-YieldFrom/observeOn-handler=%v", observe),
		Bound: bound,
		Body: func() {
			var target, caller *fpgo.CorDef[int]
			target = fpgo.CorNewGenerics[int](func() {
				for k := 1; k <= 2; k++ {
					vsched.Event("target-saw", k, target.YieldRef(k))
				}
			})
			target.Start()
			h := fpgo.Handler.NewByCh(make(chan func(), 1))
			caller = fpgo.CorNewGenerics[int](func() {
				for k := 1; k <= 2; k++ {
					x := 10 * k
					io := fpgo.MonadIONewGenerics(func() int { return caller.YieldFrom(target, x) + 1000 })
					if observe {
						io.ObserveOn(h)
					}
					vsched.Event("io-value", k, caller.YieldFromIO(io))
				}
			})
			caller.Start()
		},
		Check: func(r *vsched.Result) []vsched.Failure {
			fs := e1.Basic("C14", fam, r, nil)
			if len(r.Panics) > 0 || len(fs) > 0 {
				return fs
			}
			for k := 1; k <= 2; k++ {
				if e1.Count(r, "io-value", k, 1000+k) != 1 {
					fs = append(fs, e1.Fail("C14|"+fam+"|value", "YieldFromIO #%d did not return the IO's value %d (the target's answer %d mapped by the effect): %v", k, 1000+k, k, r.Events))
					break
				}
				if e1.Count(r, "target-saw", k, 10*k) != 1 {
					fs = append(fs, e1.Fail("C14|"+fam+"|request", "the target's YieldRef #%d did not receive the request value %d: %v", k, 10*k, r.Events))
					break
				}
			}
			return fs
		},
	}
}

// ctorScenario: the method-style constructors. The target comes from Cor.New (an interface{}
// coroutine), two callers from NewAndStart (each effect waits until its coroutine variable is assigned);
// echo generator: every caller gets its own x back, 2 requests each.
func ctorScenario(bound int) *vsched.Scenario {
	fam := "constructors"
	return &vsched.Scenario{
		Name:  "constructors/Cor.New+NewAndStart",
		Bound: bound,
		Body: func() {
			var target *fpgo.CorDef[interface{}]
			target = fpgo.Cor.New(func() {
				var prev interface{} = 0
				for i := 0; i < 4; i++ {
					prev = target.YieldRef(prev) // answers with the previous request's x
					vsched.Note("target-saw", i, prev.(int))
				}
			})
			target.Start()
			for c := 0; c < 2; c++ {
				c := c
				ready := make(chan struct{})
				var me *fpgo.CorDef[interface{}]
				me = target.NewAndStart(func() {
					<-ready
					for j := 0; j < 2; j++ {
						v := me.YieldFrom(target, reqX(c, j))
						vsched.Note("answer", c, j, v.(int))
					}
				})
				close(ready)
			}
		},
		Check: func(r *vsched.Result) []vsched.Failure {
			fs := e1.Basic("C14", fam, r, nil)
			if len(r.Panics) > 0 {
				return fs
			}
			var order []int
			for _, e := range r.Events {
				if e.Kind == "target-saw" {
					order = append(order, e.Args[1].(int))
				}
			}
			if len(order) != 4 {
				fs = append(fs, e1.Fail("C14|"+fam+"|lost-request", "the target took %d of 4 requests: %v", len(order), order))
				return fs
			}
			for i, x := range order {
				c, j := x/100-1, x%100
				want := 0
				if i > 0 {
					want = order[i-1]
				}
				if c < 0 || c > 1 || j > 1 || e1.Count(r, "answer", c, j, want) != 1 {
					fs = append(fs, e1.Fail("C14|"+fam+"|misrouted", "request #%d (x=%d) must be answered with %d exactly once to its caller: %v", i, x, want, r.Events))
				}
			}
			return fs
		},
	}
}

// payloadScenario: the values exchanged are opaque to the coroutine: the initial value given to StartWithVal
// (here nil / a typed nil pointer) reaches the first YieldRef, the x of every request and the y of every
// answer arrive as the very values that were passed (pointer identity, nil-ness, sign of zero).
// ioPayloadScenario: YieldFromIO returns the IO's value whatever it is - the payload table (nil, typed nil
// pointers, zero values, an error value ...) through MonadIO.Just / New, with and without an observe handler.
func ioPayloadScenario(observe bool, bound int) *vsched.Scenario {
	fam := "yield-from-io-payload"
	pay := lib.Payloads()
	return &vsched.Scenario{
		Name:  fmt.Sprintf("yield-from-io/payload/observeOn-handler=%v", observe),
		Bound: bound,
		Body: func() {
			h := fpgo.Handler.NewByCh(make(chan func(), 1))
			var caller *fpgo.CorDef[interface{}]
			caller = fpgo.CorNewGenerics[interface{}](func() {
				for j, v := range pay {
					v := v
					io := fpgo.MonadIO.Just(v)
					if j%2 == 1 {
						io = fpgo.MonadIO.New(func() interface{} { return v })
					}
					if observe {
						io.ObserveOn(h)
					}
					vsched.Note("io-value", j, lib.Show(caller.YieldFromIO(io)))
				}
			})
			caller.Start()
		},
		Check: func(r *vsched.Result) []vsched.Failure {
			fs := e1.Basic("C14", fam, r, nil)
			if len(fs) > 0 {
				return fs
			}
			for j, v := range pay {
				if e1.Count(r, "io-value", j, lib.Show(v)) != 1 {
					fs = append(fs, e1.Fail("C14|"+fam+"|value", "YieldFromIO of an IO whose value is %s did not return it: %v", lib.Show(v), r.Events))
					break
				}
			}
			return fs
		},
	}
}

func payloadScenario(initial interface{}, bound int) *vsched.Scenario {
	fam := "payload"
	pay := lib.Payloads()
	return &vsched.Scenario{
		Name:  "payload/initial=" + lib.Show(initial),
		Bound: bound,
		Body: func() {
			var target *fpgo.CorDef[interface{}]
			target = fpgo.CorNewGenerics[interface{}](func() {
				for i := 0; i <= len(pay); i++ {
					y := interface{}(i)
					if i < len(pay) {
						y = pay[len(pay)-1-i]
					}
					x := target.YieldRef(y)
					vsched.Note("target-saw", i, lib.Show(x))
				}
			})
			var caller *fpgo.CorDef[interface{}]
			caller = fpgo.CorNewGenerics[interface{}](func() {
				for j, x := range pay {
					vsched.Note("answer", j, lib.Show(caller.YieldFrom(target, x)))
				}
			})
			target.StartWithVal(initial)
			caller.Start()
		},
		Check: func(r *vsched.Result) []vsched.Failure {
			fs := e1.Basic("C14", fam, r, nil)
			if len(fs) > 0 {
				return fs
			}
			// the target sees: initial, x0, x1, ...; request j (the (j+1)-th value taken) is answered with the y yielded then
			if e1.Count(r, "target-saw", 0, lib.Show(initial)) != 1 {
				fs = append(fs, e1.Fail("C14|"+fam+"|start-with-val", "StartWithVal(%s): the first YieldRef did not return it: %v", lib.Show(initial), r.Events))
				return fs
			}
			for j, x := range pay {
				if e1.Count(r, "target-saw", j+1, lib.Show(x)) != 1 {
					fs = append(fs, e1.Fail("C14|"+fam+"|request-value", "request %d carried %s, the target's YieldRef returned something else: %v", j, lib.Show(x), r.Events))
					return fs
				}
				var y interface{} = j + 1
				if j+1 < len(pay) {
					y = pay[len(pay)-1-(j+1)]
				}
				if e1.Count(r, "answer", j, lib.Show(y)) != 1 {
					fs = append(fs, e1.Fail("C14|"+fam+"|answer-value", "request %d must be answered with the yielded value %s: %v", j, lib.Show(y), r.Events))
					return fs
				}
			}
			return fs
		},
	}
}

func scenarios(tier string) []*vsched.Scenario {
	b := 2
	if tier == "thorough" {
		b = 3
	}
	var out []*vsched.Scenario
	for _, shape := range []string{"fixed", "echo", "accumulate"} {
		out = append(out, pairScenario(shape, 1, 3, true, b, false), pairScenario(shape, 2, 1, false, b, false))
	}
	out = append(out,
		pairScenario("fixed", 1, 7, false, b, false), // more requests than the channel buffer (5)
		pairScenario("fixed", 2, 2, true, 3, true),   // delay bounding: the pre-emption-bounded space of 2x2 requests is large
		pairScenario("echo", 3, 1, false, 3, true),
		pairScenario("fixed", 7, 1, false, 1, true), // 7 pending requests at once (> buffer): delay bounding
		pairScenarioX("fixed", 7, 1, false, true, 1, true), pairScenarioX("echo", 6, 1, false, true, 1, true), pairScenarioX("fixed", 2, 1, false, true, 1, true),
		pairScenarioL("fixed", 7, 1, false, true, 3*time.Second, 1, true), pairScenarioL("echo", 6, 1, false, true, 10*time.Minute, 1, true), pairScenarioL("fixed", 2, 3, false, true, 3*time.Second, 1, true),
		startWithValScenario(false, b), startWithValScenario(true, b), doNotationScenario(b), ioPayloadScenario(false, 0), ioPayloadScenario(true, 0), ioOnHandlerScenario(true, b), ioOnHandlerScenario(false, b), ctorScenario(1), payloadScenario(nil, 0), payloadScenario((*int)(nil), 0), payloadScenario(0, 0))
	// the three callers arrive exactly when a counter of 8 / 15 / 16 bits inside the target would wrap
	for _, w := range []int{300, 70000} {
		out = append(out, longLivedScenario(w))
	}
	for _, p := range []int{1 << 8, 1 << 15, 1 << 16} {
		for w := p - 4; w <= p+2; w++ {
			out = append(out, longLivedScenario(w))
		}
	}
	if tier == "thorough" {
		out = append(out, pairScenario("accumulate", 2, 2, false, 1, false), pairScenario("fixed", 2, 2, true, 1, false), pairScenario("echo", 3, 1, false, 1, false), pairScenario("fixed", 3, 2, true, 3, true),
			pairScenario("echo", 4, 1, false, 2, false), pairScenario("fixed", 8, 1, false, 2, true), pairScenario("accumulate", 7, 1, true, 2, true))
	}
	return out
}
