// C15: shutdown is safe at any moment — closing never panics concurrent users.
package main

import (
	"time"

	"verifharness/lib/e1"
)

func main() {
	e1.Main("C15", scenarios, e1.Budget{Quick: 100 * time.Second, Thorough: 20 * time.Minute}, nil)
}
