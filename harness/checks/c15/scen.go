package main

import (
	"fmt"
	"strings"
	"sync"
	"time"

	fpgo "github.com/TeaEntityLab/fpGo/v2"
	"github.com/TeaEntityLab/fpGo/v2/worker"
	"github.com/TeaEntityLab/fpGo/v2/zzverif/vsched"
	"verifharness/lib/e1"
	"verifharness/scenlib"
)

func errName(err error) string {
	switch err {
	case nil:
		return "nil"
	case fpgo.ErrQueueIsClosed:
		return "closed"
	case fpgo.ErrQueueIsFull:
		return "full"
	case fpgo.ErrQueueIsEmpty:
		return "empty"
	case fpgo.ErrQueueTakeTimeout:
		return "take-timeout"
	}
	return "other:" + err.Error()
}

// ---- Handler / Actor ----

func mailboxClose(kind string, capacity, users int, fromEffect bool, bound int) *vsched.Scenario {
	fam := kind
	if fromEffect {
		fam += "-close-in-effect"
	}
	return &vsched.Scenario{
		Name:  fmt.Sprintf("%s/cap%d/users%d", fam, capacity, users),
		Bound: bound,
		Body: func() {
			var submit func(k int)
			var closeIt func()
			if kind == "handler" {
				h := fpgo.Handler.NewByCh(make(chan func(), capacity))
				submit = func(k int) { h.Post(func() { vsched.Event("ran", k) }) }
				closeIt = h.Close
			} else {
				var a *fpgo.ActorDef[int]
				a = fpgo.ActorNewByOptionsGenerics(func(self *fpgo.ActorDef[int], k int) {
					vsched.Event("ran", k)
					if fromEffect && k == 0 {
						self.Close()
						vsched.Event("closed")
					}
				}, make(chan int, capacity), map[string]interface{}{})
				submit = a.Send
				closeIt = a.Close
			}
			for u := 0; u < users; u++ {
				u := u
				vsched.GoNamed(fmt.Sprintf("user%d", u), func() {
					submit(u)
					vsched.Event("submitted", u)
				})
			}
			if !fromEffect {
				closeIt()
				vsched.Event("closed")
				vsched.Event("late-begin")
				submit(100)
			}
		},
		Check: func(r *vsched.Result) []vsched.Failure {
			fs := e1.Basic("C15", fam, r, nil)
			if len(r.Panics) > 0 {
				return fs
			}
			if e1.Count(r, "ran", 100) > 0 {
				fs = append(fs, e1.Fail("C15|"+fam+"|ran-after-close", "work submitted after Close returned was run"))
			}
			for u := 0; u < users; u++ {
				if e1.Count(r, "ran", u) > 1 {
					fs = append(fs, e1.Fail("C15|"+fam+"|duplicate", "submission %d ran twice", u))
				}
			}
			return fs
		},
	}
}

// ---- BufferedChannelQueue ----

func queueClose(capacity, buf, preload int, op string, bound int) *vsched.Scenario {
	fam := "queue-" + op
	return &vsched.Scenario{
		Name:     fmt.Sprintf("queue/cap%d/buf%d/pre%d/%s", capacity, buf, preload, op),
		Bound:    bound,
		TimerDev: true,
		Body: func() {
			q := fpgo.NewBufferedChannelQueue[int](capacity, buf, 100)
			for i := 0; i < preload; i++ {
				q.Offer(10 + i)
			}
			use := func(tag string) {
				switch op {
				case "offer":
					vsched.Event(tag, "offer", errName(q.Offer(1)))
				case "put":
					vsched.Event(tag, "put", errName(q.Put(1)))
				case "take":
					_, err := q.Take()
					vsched.Event(tag, "take", errName(err))
				case "take-timeout":
					_, err := q.TakeWithTimeout(5 * time.Millisecond)
					vsched.Event(tag, "take-timeout", errName(err))
				case "take-timeout-zero", "take-timeout-negative":
					d := time.Duration(0)
					if op == "take-timeout-negative" {
						d = -time.Second
					}
					_, err := q.TakeWithTimeout(d)
					vsched.Event(tag, op, errName(err))
				case "poll":
					_, err := q.Poll()
					vsched.Event(tag, "poll", errName(err))
				case "channel":
					if tag == "after" {
						// closed: the receive must return at once (a blocked receive is reported as blocked-forever)
						_, ok := <-q.GetChannel()
						vsched.Event(tag, "channel", fmt.Sprint(ok))
						return
					}
					select {
					case _, ok := <-q.GetChannel():
						vsched.Event(tag, "channel", fmt.Sprint(ok))
					case <-time.After(5 * time.Millisecond):
						vsched.Event(tag, "channel", "timeout")
					}
				case "count":
					vsched.Event(tag, "count", q.Count())
				}
			}
			var wg sync.WaitGroup
			wg.Add(1)
			vsched.GoNamed("user", func() { use("during"); wg.Done() })
			q.Close()
			vsched.Event("closed", q.IsClosed())
			use("after")
			// once the racing call is over, too: every entry point still returns (a call that lost the race against
			// Close must not leave the queue's lock behind). (A second Close is not tried: the property quantifies over
			// one closing goroutine, and BufferedChannelQueue.Close, like close(ch), panics when repeated.)
			wg.Wait()
			_, pollErr := q.Poll()
			_, takeErr := q.TakeWithTimeout(time.Millisecond)
			vsched.Event("final", q.Count(), q.GetChannel() != nil, errName(q.Offer(2)), errName(q.Put(3)), errName(pollErr), errName(takeErr))
			vsched.Event("final-done", q.IsClosed())
		},
		Check: func(r *vsched.Result) []vsched.Failure {
			fs := e1.Basic("C15", fam, r, nil)
			if len(r.Panics) > 0 {
				return fs
			}
			if e1.Count(r, "closed", true) != 1 {
				fs = append(fs, e1.Fail("C15|"+fam+"|is-closed", "IsClosed() false after Close returned"))
			}
			if len(fs) == 0 && r.Cap == "" {
				if e1.Count(r, "final-done", true) != 1 {
					fs = append(fs, e1.Fail("C15|"+fam+"|final-battery", "the calls made after the racing call had returned did not all return, or IsClosed() turned false"))
				}
				for _, e := range r.Events {
					if e.Kind == "final" && (e.Args[2] != "closed" || e.Args[3] != "closed" || e.Args[4] != "closed" || e.Args[5] != "closed") {
						fs = append(fs, e1.Fail("C15|"+fam+"|after-close-result", "calls made well after Close returned: Offer %v, Put %v, Poll %v, TakeWithTimeout %v (all must report the close)", e.Args[2], e.Args[3], e.Args[4], e.Args[5]))
					}
				}
			}
			for _, e := range r.Events {
				if e.Kind != "after" {
					continue
				}
				res := fmt.Sprint(e.Args[1])
				ok := false
				switch op {
				case "offer", "put", "take", "take-timeout", "take-timeout-zero", "take-timeout-negative", "poll":
					ok = res == "closed"
				case "channel":
					// the channel is closed: a receive reports it (items left behind may still be drained)
					ok = res == "false" || res == "true"
				case "count":
					ok = res == "0"
				}
				if !ok {
					fs = append(fs, e1.Fail("C15|"+fam+"|after-close-result", "%s begun after Close returned gave %s", op, res))
				}
			}
			return fs
		},
	}
}

// ---- Cor ----

// corFinish: callers' YieldFrom race with the target finishing (the target serves `serves` requests
// and returns). No goroutine may panic. A caller whose request was never served is, by
// construction of the API, not answered: those callers are allowed to stay parked in YieldFrom
// only if allowUnserved (see DESIGN: the nothing-blocks clause is decided separately).
// queueCloseBacklog: a BufferedChannelQueue whose channel (capacity `capacity`) has just been emptied while `capacity`
// more values wait in the overflow buffer, so that ONE loader pass moves hundreds of values; Close arrives while that
// pass is under way (every order of the loader and the closer at their blocking / yielding points, no pre-emption):
// no goroutine of the library panics, Close returns, later use reports "closed".
func queueCloseBacklog(capacity, bound int) *vsched.Scenario {
	fam := "queue-close-backlog"
	return &vsched.Scenario{
		Name:     fmt.Sprintf("bufferedchannelqueue/cap%d/backlog%d/close-during-one-loader-pass", capacity, capacity),
		Bound:    bound,
		MaxSteps: 4000000,
		Horizon:  int64(time.Second),
		Body: func() {
			q := fpgo.NewBufferedChannelQueue[int](capacity, 4*capacity, 100)
			for v := 0; v < 2*capacity; v++ {
				if err := q.Offer(v); err != nil {
					vsched.Event("offer-failed", v, errName(err))
				}
			}
			ch := q.GetChannel()
			for v := 0; v < capacity; v++ {
				<-ch // (straight from the channel: the loader is not woken per value, it finds the whole room at once)
			}
			var wg sync.WaitGroup
			wg.Add(2)
			vsched.GoNamed("closer", func() {
				q.Close()
				vsched.Event("close-returned")
				wg.Done()
			})
			vsched.GoNamed("taker", func() {
				_, err := q.Poll() // wakes the loader
				vsched.Event("polled", errName(err))
				wg.Done()
			})
			wg.Wait()
			vsched.Event("after", errName(q.Offer(-1)))
		},
		Check: func(r *vsched.Result) []vsched.Failure {
			fs := e1.Basic("C15", fam, r, nil)
			if len(fs) > 0 {
				return fs
			}
			if e1.Count(r, "offer-failed") > 0 || e1.Count(r, "close-returned") != 1 || e1.Count(r, "after", "closed") != 1 {
				fs = append(fs, e1.Fail("C15|"+fam+"|wrong-result", "Close during a long loader pass: %v", r.Events[len(r.Events)-min(len(r.Events), 6):]))
			}
			return fs
		},
	}
}

func corFinish(callers, serves, bound int) *vsched.Scenario {
	fam := "cor-finish"
	return &vsched.Scenario{
		Name:  fmt.Sprintf("cor/target-finishing/callers%d/serves%d", callers, serves),
		Bound: bound,
		Delay: callers > 5, // 8+ symmetric threads: delay bounding (polynomial)
		Body: func() {
			var target *fpgo.CorDef[int]
			target = fpgo.CorNewGenerics[int](func() {
				for i := 0; i < serves; i++ {
					x := target.YieldRef(100 + i)
					vsched.Event("served", x)
				}
			})
			for c := 0; c < callers; c++ {
				c := c
				var me *fpgo.CorDef[int]
				me = fpgo.CorNewGenerics[int](func() {
					v := me.YieldFrom(target, c+1)
					vsched.Event("answer", c+1, v)
				})
				me.Start()
			}
			target.Start()
		},
		Check: func(r *vsched.Result) []vsched.Failure {
			fs := e1.Basic("C15", fam, r, nil)
			if len(r.Panics) > 0 {
				return fs
			}
			// "without deadlock": a YieldFrom that races with (or follows) the target's completion must
			// return (with the zero value when its request is not served), not block forever
			for c := 0; c < callers; c++ {
				if e1.Count(r, "answer") < callers && !hasAnswer(r, c+1) {
					key := "C15|" + fam + "|yieldfrom-blocked-forever"
					if callers > 5 {
						key += "|more-than-5-pending" // more requests than the request buffer holds
					}
					fs = append(fs, e1.Fail(key, "caller %d is blocked forever in YieldFrom: the target finished without serving its request (target served %d of %d callers)", c+1, e1.Count(r, "served"), callers))
					break
				}
			}
			return fs
		},
	}
}

func hasAnswer(r *vsched.Result, c int) bool {
	for _, e := range r.Events {
		if e.Kind == "answer" && e.Args[0].(int) == c {
			return true
		}
	}
	return false
}

// corExternal: a goroutine calls YieldFrom on a coroutine object whose own effect is finishing, so
// the target's reply races with the close of the caller's channels.
func corExternal(bound int) *vsched.Scenario {
	fam := "cor-caller-finishing"
	return &vsched.Scenario{
		Name:  "cor/caller-finishing",
		Bound: bound,
		Body: func() {
			var target, caller *fpgo.CorDef[int]
			target = fpgo.CorNewGenerics[int](func() {
				x := target.YieldRef(100)
				vsched.Event("served", x)
				x = target.YieldRef(101)
				vsched.Event("served", x)
			})
			caller = fpgo.CorNewGenerics[int](func() { vsched.Yield() })
			target.Start()
			vsched.GoNamed("outside", func() {
				v := caller.YieldFrom(target, 7)
				vsched.Event("answer", v, caller.IsDone())
			})
			caller.Start()
		},
		Check: func(r *vsched.Result) []vsched.Failure {
			return e1.Basic("C15", fam, r, func(p vsched.ParkedInfo) bool { return false })
		},
	}
}

// ---- WorkerPool ----

// poolClose: Close lands anywhere relative to Schedule calls and to idle / busy workers. No job
// panics here, so the panic handler must stay silent; no goroutine (submitter, worker, spawn loop,
// loader) may panic; a Schedule begun after Close returned reports ErrWorkerPoolIsClosed and its
// job never runs.
func poolClose(cfg scenlib.PoolCfg, jobs int, kind string, when string, bound int, delay bool, keepQueue bool) *vsched.Scenario {
	fam := "pool-close"
	var g *scenlib.Gauge
	qn := ""
	if keepQueue {
		qn = "/queue-left-open"
	}
	return &vsched.Scenario{
		Name:     fmt.Sprintf("pool-close/%s/jobs%d-%s/close-%s%s", cfg, jobs, kind, when, qn),
		Bound:    bound,
		Delay:    delay,
		TimerDev: true,
		MaxSteps: 6000,
		Horizon:  int64(300 * time.Millisecond),
		Body: func() {
			g = &scenlib.Gauge{}
			p := scenlib.NewPool(cfg, func(v interface{}) { vsched.Event("panic-handler", fmt.Sprint(v)) })
			if keepQueue {
				p.SetIsJobQueueClosedWhenClose(false) // Close leaves the (possibly shared) job queue open
			}
			started := make(chan int, jobs+1)
			scheduled := make(chan int, 1)
			vsched.GoNamed("submitter", func() {
				for j := 1; j <= jobs; j++ {
					job := scenlib.Job(j, kind, g)
					vsched.Event("sched", j, scenlib.SchedErr(p.Schedule(func() { started <- 1; job() })))
				}
				scheduled <- 1
			})
			switch when {
			case "scheduled": // workers may be idle, spawning or busy
				<-scheduled
			case "started": // a worker is inside a job
				<-started
			case "idle": // everything has run, workers are parked on the job channel
				time.Sleep(100 * time.Millisecond)
			}
			p.Close()
			vsched.Event("pool-closed", p.IsClosed())
			// every entry point that submits work, begun after Close returned
			vsched.Event("late-sched", scenlib.SchedErr(p.Schedule(scenlib.Job(99, "plain", g))))
			vsched.Event("late-sched-timeout", scenlib.SchedErr(p.ScheduleWithTimeout(scenlib.Job(98, "plain", g), 6*time.Millisecond)))
			inv := worker.NewDefaultInvokable[int](p, func(id int) { scenlib.Job(id, "plain", g)() })
			inv.Invoke(97)
			vsched.Event("late-invoke-timeout", scenlib.SchedErr(inv.InvokeWithTimeout(96, 6*time.Millisecond)))
		},
		Check: func(r *vsched.Result) []vsched.Failure {
			fs := e1.Basic("C15", fam, r, nil)
			if len(r.Panics) > 0 || r.Cap != "" {
				return fs
			}
			if n := e1.Count(r, "panic-handler"); n > 0 && !strings.Contains(kind, "panic") {
				fs = append(fs, e1.Fail("C15|"+fam+"|panic-handler-invoked", "the pool's panic handler was invoked %d time(s) although no job panics: %v", n, r.Events[e1.Index(r, "panic-handler")].Args))
			}
			if e1.Count(r, "pool-closed", true) != 1 {
				fs = append(fs, e1.Fail("C15|"+fam+"|is-closed", "IsClosed() false after Close returned"))
			}
			if e1.Count(r, "late-sched", "closed") != 1 {
				fs = append(fs, e1.Fail("C15|"+fam+"|after-close-result", "Schedule begun after Close returned did not report ErrWorkerPoolIsClosed: %v", r.Events))
			}
			if e1.Count(r, "late-sched-timeout", "closed") != 1 {
				fs = append(fs, e1.Fail("C15|"+fam+"|after-close-result|ScheduleWithTimeout", "ScheduleWithTimeout begun after Close returned did not report ErrWorkerPoolIsClosed: %v", r.Events))
			}
			if e1.Count(r, "late-invoke-timeout", "closed") != 1 {
				fs = append(fs, e1.Fail("C15|"+fam+"|after-close-result|InvokeWithTimeout", "InvokeWithTimeout begun after Close returned did not report ErrWorkerPoolIsClosed: %v", r.Events))
			}
			for id, via := range map[int]string{99: "Schedule", 98: "ScheduleWithTimeout", 97: "Invoke", 96: "InvokeWithTimeout"} {
				if e1.Count(r, "start", id) > 0 {
					fs = append(fs, e1.Fail("C15|"+fam+"|ran-after-close|"+via, "a job submitted through %s after Close returned was run", via))
				}
			}
			for j := 1; j <= jobs; j++ {
				if e1.Count(r, "start", j) > 1 {
					fs = append(fs, e1.Fail("C15|"+fam+"|duplicate", "job %d ran twice", j))
				}
				for _, e := range r.Events {
					if e.Kind == "sched" && e.Args[0].(int) == j {
						res := e.Args[1].(string)
						if res != "accepted" && res != "closed" && res != "queue-closed" && res != "full" {
							fs = append(fs, e1.Fail("C15|"+fam+"|error-code", "Schedule concurrent with Close returned %s", res))
						}
						if res != "accepted" && e1.Count(r, "start", j) > 0 {
							fs = append(fs, e1.Fail("C15|"+fam+"|rejected-ran", "job %d was rejected (%s) but ran", j, res))
						}
					}
				}
			}
			return fs
		},
	}
}

func scenarios(tier string) []*vsched.Scenario {
	b := 2
	if tier == "thorough" {
		b = 3
	}
	var out []*vsched.Scenario
	for _, c := range []int{0, 1} {
		for _, users := range []int{1, 2} {
			out = append(out, mailboxClose("handler", c, users, false, b), mailboxClose("actor", c, users, false, b))
		}
		out = append(out, mailboxClose("actor", c, 2, true, b))
	}
	if tier == "thorough" {
		out = append(out, mailboxClose("handler", 2, 3, false, 2), mailboxClose("actor", 2, 3, false, 2), mailboxClose("actor", 1, 3, true, 2))
	}
	ops := []string{"offer", "put", "take", "take-timeout", "take-timeout-zero", "take-timeout-negative", "poll", "channel", "count"}
	type cfg struct{ c, b, pre int }
	cfgs := []cfg{{1, 1, 0}, {1, 1, 2}, {0, 1, 1}}
	if tier == "thorough" {
		cfgs = append(cfgs, cfg{1, 2, 3}, cfg{2, 0, 1}, cfg{0, 0, 0})
	}
	for _, cf := range cfgs {
		for _, op := range ops {
			out = append(out, queueClose(cf.c, cf.b, cf.pre, op, b))
		}
	}
	out = append(out, queueCloseBacklog(3, 1), queueCloseBacklog(70, 0), queueCloseBacklog(300, 0), queueCloseBacklog(1100, 0))
	pc := []scenlib.PoolCfg{{Cap: 1, Buf: 1, Max: 1, StandBy: 1, Batch: 1}, {Cap: 1, Buf: 0, Max: 2, StandBy: 0, Batch: 1}}
	for _, c := range pc {
		for _, when := range []string{"now", "scheduled", "started", "idle"} {
			out = append(out, poolClose(c, 1, "plain", when, 1, false, false), poolClose(c, 2, "slow", when, 2, true, false), poolClose(c, 1, "plain", when, 1, false, true))
			if when == "started" || when == "scheduled" {
				// the job in flight while Close happens ends with its own panic afterwards (5 virtual ms later)
				out = append(out, poolClose(c, 1, "timed-panic", when, 1, false, false), poolClose(c, 2, "timed-panic", when, 1, false, true))
			}
			if tier == "thorough" {
				out = append(out, poolClose(c, 2, "plain", when, 2, false, false), poolClose(c, 3, "slow", when, 3, true, false), poolClose(c, 2, "slow", when, 2, true, true))
			}
		}
	}
	out = append(out, corFinish(1, 1, b), corFinish(2, 1, b), corFinish(2, 2, b), corExternal(b))
	out = append(out, corFinish(6, 0, 1), corFinish(7, 1, 1)) // more pending requests than the request buffer (5)
	if tier == "thorough" {
		out = append(out, corFinish(3, 2, 2), corFinish(3, 1, 2), corFinish(7, 1, 2), corFinish(8, 2, 2))
	}
	return out
}

func min(a, b int) int {
	if a < b {
		return a
	}
	return b
}
