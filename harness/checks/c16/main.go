// C16: PMap is Map run in parallel: same results, each element once, bounded workers, terminates.
package main

import (
	"time"

	"verifharness/lib/e1"
)

func main() {
	e1.Main("C16", scenarios, e1.Budget{Quick: 100 * time.Second, Thorough: 20 * time.Minute}, nil)
}
