package main

import (
	"time"
	"fmt"
	"math"
	"sort"

	fpgo "github.com/TeaEntityLab/fpGo/v2"
	"github.com/TeaEntityLab/fpGo/v2/zzverif/vsched"
	"verifharness/lib"
	"verifharness/lib/e1"
)

const noOption = -99

func image(v int) int { return v*10 + 1 }

func pmapScenario(n, pool int, random bool, bound int) *vsched.Scenario {
	mode := "ordered"
	if random {
		mode = "random"
	}
	ps := fmt.Sprint(pool)
	if pool == noOption {
		ps = "nil-option"
	}
	fam := "pmap-" + mode
	var result []int
	var maxGauge, gaugeAtReturn int
	return &vsched.Scenario{
		Name:       fmt.Sprintf("pmap/%s/len%d/pool-%s", mode, n, ps),
		Bound:      bound,
		MaxThreads: 200, // a list of at most 4 elements never needs more (a pool sized by the raw FixedPool would)
		Body: func() {
			result, maxGauge, gaugeAtReturn = nil, 0, -1
			gauge := 0
			list := make([]int, n)
			for i := range list {
				list[i] = i + 1
			}
			f := func(v int) int {
				gauge++
				if gauge > maxGauge {
					maxGauge = gauge
				}
				vsched.Event("apply", v)
				yields := 1
				if v%2 == 0 {
					yields = 3 // data-dependent duration
				}
				for i := 0; i < yields; i++ {
					vsched.Yield()
				}
				vsched.Event("applied", v)
				gauge--
				return image(v)
			}
			var opt *fpgo.PMapOption
			if pool != noOption {
				opt = &fpgo.PMapOption{FixedPool: pool, RandomOrder: random}
			} else if random {
				opt = &fpgo.PMapOption{RandomOrder: true}
			}
			res := fpgo.PMap(f, opt, list...)
			gaugeAtReturn = gauge
			result = append([]int{}, res...)
			vsched.Event("returned", len(res))
		},
		Check: func(r *vsched.Result) []vsched.Failure {
			fs := e1.Basic("C16", fam, r, nil)
			if len(fs) > 0 {
				return fs
			}
			want := make([]int, n)
			for i := range want {
				want[i] = image(i + 1)
			}
			got := append([]int{}, result...)
			if random {
				sort.Ints(got)
			}
			if fmt.Sprint(got) != fmt.Sprint(want) {
				what := "Map(f, list)"
				if random {
					what = "a permutation of Map(f, list)"
				}
				fs = append(fs, e1.Fail("C16|"+fam+"|result", "PMap returned %v, expected %s = %v", result, what, want))
			}
			for v := 1; v <= n; v++ {
				if c := e1.Count(r, "apply", v); c != 1 {
					fs = append(fs, e1.Fail("C16|"+fam+"|apply-count", "f applied %d times to element %d", c, v))
				}
			}
			if c := e1.Count(r, "apply"); c != n {
				fs = append(fs, e1.Fail("C16|"+fam+"|apply-count", "f applied %d times in total to a list of %d", c, n))
			}
			limit := n
			if pool != noOption && pool > 0 && pool < n {
				limit = pool
			}
			if maxGauge > limit {
				fs = append(fs, e1.Fail("C16|"+fam+"|concurrency", "f ran on %d goroutines at once, bound is min(FixedPool, len) = %d", maxGauge, limit))
			}
			ret := e1.Index(r, "returned")
			for i, e := range r.Events {
				if ret >= 0 && i > ret && (e.Kind == "apply" || e.Kind == "applied") {
					fs = append(fs, e1.Fail("C16|"+fam+"|active-after-return", "f still running after PMap returned"))
					break
				}
			}
			if gaugeAtReturn > 0 {
				fs = append(fs, e1.Fail("C16|"+fam+"|active-after-return", "%d applications of f in flight when PMap returned", gaugeAtReturn))
			}
			return fs
		},
	}
}

// sharedOptionScenario: one *PMapOption is reused for several calls (an empty list first): each call must
// keep the bound the option states.
func sharedOptionScenario(random bool, bound int) *vsched.Scenario {
	fam := "pmap-shared-option"
	var maxGauge int
	var results [][]int
	return &vsched.Scenario{
		Name:  fmt.Sprintf("pmap/shared-option/random=%v", random),
		Bound: bound,
		Body: func() {
			maxGauge, results = 0, nil
			gauge := 0
			f := func(v int) int {
				// (entry / exit are markers in the global log: the number of applications in flight is then a
				// function of the happens-before state, which the state cache relies on)
				vsched.Event("in", v)
				gauge++
				if gauge > maxGauge {
					maxGauge = gauge
				}
				vsched.Yield()
				gauge--
				vsched.Event("out", v)
				return image(v)
			}
			opt := &fpgo.PMapOption{FixedPool: 1, RandomOrder: random}
			results = append(results, fpgo.PMap(f, opt))       // empty list
			results = append(results, fpgo.PMap(f, opt, 1, 2)) // must still run on one goroutine
			vsched.Event("option-after", opt.FixedPool, opt.RandomOrder)
		},
		Check: func(r *vsched.Result) []vsched.Failure {
			fs := e1.Basic("C16", fam, r, nil)
			if len(fs) > 0 {
				return fs
			}
			if maxGauge > 1 {
				fs = append(fs, e1.Fail("C16|"+fam+"|concurrency", "with one option {FixedPool: 1} used for PMap(empty) and then PMap([1 2]), f ran on %d goroutines at once", maxGauge))
			}
			got := append([]int{}, results[1]...)
			sort.Ints(got)
			if len(results[0]) != 0 || fmt.Sprint(got) != fmt.Sprint([]int{image(1), image(2)}) {
				fs = append(fs, e1.Fail("C16|"+fam+"|result", "results %v", results))
			}
			return fs
		},
	}
}

// twoCallsScenario: two PMap calls one after the other in one process, different functions and lists of the
// same element types, under a sync.Pool policy of the model (the implementation may recycle objects
// between calls): the second result is the second call's alone.
func twoCallsScenario(random bool, pool int, bound int) *vsched.Scenario {
	fam := "pmap-two-calls"
	var results [][]int
	return &vsched.Scenario{
		Name:  fmt.Sprintf("pmap/two-calls/random=%v/sync.Pool-policy%d", random, pool),
		Bound: bound,
		Body: func() {
			vsched.PoolRetain = pool
			results = nil
			opt := &fpgo.PMapOption{FixedPool: 2, RandomOrder: random}
			results = append(results, fpgo.PMap(func(v int) int { return v + 100 }, opt, 1, 2, 3))
			results = append(results, fpgo.PMap(func(v int) int { return v + 500 }, opt, 7, 8))
			results = append(results, fpgo.PMap(func(v int) int { return v + 900 }, nil, 4))
			vsched.PoolRetain = 0
		},
		Check: func(r *vsched.Result) []vsched.Failure {
			fs := e1.Basic("C16", fam, r, nil)
			if len(fs) > 0 || len(results) != 3 {
				return fs
			}
			want := [][]int{{101, 102, 103}, {507, 508}, {904}}
			for i := range want {
				got := append([]int{}, results[i]...)
				if random {
					sort.Ints(got)
				}
				if fmt.Sprint(got) != fmt.Sprint(want[i]) {
					fs = append(fs, e1.Fail("C16|"+fam+"|result", "call %d of three consecutive PMap calls returned %v, want %v (all results: %v)", i+1, results[i], want[i], results))
				}
			}
			return fs
		},
	}
}

// payloadScenario: PMap is generic in the element type: the payload table as a []interface{} (nil, typed nil
// pointers, zero values ...) and a []*int with nils: f is applied exactly once to every element, also to
// the nil ones, and the result is Map(f, list).
func payloadScenario(random bool, bound int) *vsched.Scenario {
	fam := "pmap-payload"
	pay := []interface{}{nil, (*int)(nil), lib.P1, 0, ""}
	var applied, result []string
	var ptrApplied int
	var ptrResult []int
	return &vsched.Scenario{
		Name:  fmt.Sprintf("pmap/payload/random=%v", random),
		Bound: bound,
		Body: func() {
			vsched.PoolRetain = 0
			applied, result, ptrApplied, ptrResult = nil, nil, 0, nil
			opt := &fpgo.PMapOption{FixedPool: 2, RandomOrder: random}
			res := fpgo.PMap(func(v interface{}) string {
				vsched.Event("apply", lib.Show(v))
				return "f(" + lib.Show(v) + ")"
			}, opt, pay...)
			result = append(result, res...)
			// results of an interface type, some of them the nil interface (an error-returning f that mostly succeeds)
			for _, v := range fpgo.PMap(func(v interface{}) error {
				if v == nil || v == interface{}(0) {
					return lib.ErrPayload
				}
				return nil
			}, opt, pay...) {
				result = append(result, "err:"+lib.Show(v))
			}
			ptrResult = fpgo.PMap(func(p *int) int {
				vsched.Event("apply-ptr", p == nil)
				if p == nil {
					return -1
				}
				return *p
			}, opt, lib.P1, nil, lib.P2, nil)
		},
		Check: func(r *vsched.Result) []vsched.Failure {
			fs := e1.Basic("C16", fam, r, nil)
			if len(fs) > 0 {
				return fs
			}
			var want, got []string
			for _, v := range pay {
				want = append(want, "f("+lib.Show(v)+")")
			}
			for _, v := range pay {
				var e error
				if v == nil || v == interface{}(0) {
					e = lib.ErrPayload
				}
				want = append(want, "err:"+lib.Show(e))
			}
			for _, e := range r.Events {
				if e.Kind == "apply" {
					applied = append(applied, "f("+e.Args[0].(string)+")")
				}
				if e.Kind == "apply-ptr" {
					ptrApplied++
				}
			}
			got = append(got, result...)
			pr := append([]int{}, ptrResult...)
			if random {
				sort.Strings(got)
				sort.Strings(want)
				sort.Ints(pr)
			}
			sort.Strings(applied)
			var ws []string
			for _, v := range pay {
				ws = append(ws, "f("+lib.Show(v)+")")
			}
			sort.Strings(ws)
			if fmt.Sprint(applied) != fmt.Sprint(ws) {
				fs = append(fs, e1.Fail("C16|"+fam+"|applications", "f was applied to %v, the list is %v", applied, ws))
			}
			if fmt.Sprint(got) != fmt.Sprint(want) {
				fs = append(fs, e1.Fail("C16|"+fam+"|result", "PMap over the payload table returned %v, Map gives %v", got, want))
			}
			wp := []int{5, -1, 5, -1}
			if random {
				sort.Ints(wp)
			}
			if ptrApplied != 4 || fmt.Sprint(pr) != fmt.Sprint(wp) {
				fs = append(fs, e1.Fail("C16|"+fam+"|result", "PMap over [P1 nil P2 nil]: f applied %d times, result %v, Map gives %v", ptrApplied, pr, wp))
			}
			return fs
		},
	}
}

// longListScenario: a list far longer than the pool and than small buffers (3 000 elements; 70 000 in the thorough tier), one schedule.
func longListScenario(random bool, n int) *vsched.Scenario {
	fam := "pmap-long-list"
	var sum, count int
	return &vsched.Scenario{
		Name:      fmt.Sprintf("pmap/long-list-%d/random=%v", n, random),
		Bound:     0,
		FirstOnly: true,
		MaxSteps:  20000000,
		Body: func() {
			vsched.PoolRetain = 0
			list := make([]int, n)
			for i := range list {
				list[i] = i
			}
			res := fpgo.PMap(func(v int) int { return v + 1 }, &fpgo.PMapOption{FixedPool: 3, RandomOrder: random}, list...)
			sum, count = 0, len(res)
			for i, v := range res {
				sum += v
				if !random && v != i+1 {
					sum = -1
					break
				}
			}
		},
		Check: func(r *vsched.Result) []vsched.Failure {
			fs := e1.Basic("C16", fam, r, nil)
			if len(fs) > 0 {
				return fs
			}
			if r.Cap != "" {
				return append(fs, e1.Fail("C16|"+fam+"|no-termination", "PMap over %d elements had not returned after %s", n, r.Cap))
			}
			if count != n || sum != n*(n+1)/2 {
				fs = append(fs, e1.Fail("C16|"+fam+"|result", "PMap over %d elements returned %d elements with sum %d", n, count, sum))
			}
			return fs
		},
	}
}

// nestedScenario: "for every function f" includes an f that itself calls PMap (a re-entrant f): the outer call
// over `outer` elements (no pool size: one goroutine per element) maps each element through an inner PMap over
// `inner` elements. Small sizes are explored like the other scenarios; the large one is a declared smoke run
// (default schedule) - any process-wide limit on PMap goroutines that an outer call can exhaust shows there.
func nestedScenario(outer, inner int, random bool, bound int, firstOnly bool) *vsched.Scenario {
	fam := "pmap-nested"
	var sum, count int
	return &vsched.Scenario{
		Name:      fmt.Sprintf("pmap/nested/outer%d/inner%d/random=%v", outer, inner, random),
		Bound:     bound,
		FirstOnly: firstOnly,
		MaxSteps:  20000000,
		Body: func() {
			sum, count = 0, -1
			list := make([]int, outer)
			for i := range list {
				list[i] = i + 1
			}
			in := make([]int, inner)
			for i := range in {
				in[i] = i + 1
			}
			var opt *fpgo.PMapOption
			if random {
				opt = &fpgo.PMapOption{RandomOrder: true}
			}
			res := fpgo.PMap(func(v int) int {
				// (f takes a little virtual time before it maps its own list: every outer goroutine that has an
				// element is inside f by then, as it would be on a machine with enough processors)
				time.Sleep(time.Millisecond)
				t := 0
				for _, w := range fpgo.PMap(func(u int) int { return u * v }, opt, in...) {
					t += w
				}
				return t
			}, opt, list...)
			count = len(res)
			for _, v := range res {
				sum += v
			}
		},
		Check: func(r *vsched.Result) []vsched.Failure {
			fs := e1.Basic("C16", fam, r, nil)
			if len(fs) > 0 {
				return fs
			}
			if r.Cap != "" {
				return append(fs, e1.Fail("C16|"+fam+"|no-termination", "the nested PMap had not returned after %s", r.Cap))
			}
			want := (outer * (outer + 1) / 2) * (inner * (inner + 1) / 2)
			if count != outer || sum != want {
				fs = append(fs, e1.Fail("C16|"+fam+"|result", "nested PMap (%d x %d) returned %d elements with sum %d, expected %d elements with sum %d", outer, inner, count, sum, outer, want))
			}
			return fs
		},
	}
}

// shapeSweepScenario: every (list length, pool size) pair up to a bound, one default-schedule run each (a
// declared smoke run): how the work is divided among the workers is arithmetic on the two numbers, and an
// uneven division (5 elements over 4 workers) is a shape the exhaustively explored small lists do not have.
func shapeSweepScenario(random bool, maxN int) *vsched.Scenario {
	fam := "pmap-shape-sweep"
	var bad []string
	done := 0
	return &vsched.Scenario{
		Name:      fmt.Sprintf("pmap/shape-sweep-to-%d/random=%v", maxN, random),
		Bound:     0,
		FirstOnly: true,
		MaxSteps:  20000000,
		Body: func() {
			bad, done = nil, 0
			for n := 0; n <= maxN; n++ {
				list := make([]int, n)
				for i := range list {
					list[i] = i + 1
				}
				for pool := 1; pool <= n+2; pool++ {
					applied := make([]int, n+2)
					res := fpgo.PMap(func(v int) int { applied[v]++; return v * 10 }, &fpgo.PMapOption{FixedPool: pool, RandomOrder: random}, list...)
					got := append([]int{}, res...)
					if random {
						sort.Ints(got)
					}
					ok := len(got) == n
					for i := 0; ok && i < n; i++ {
						ok = got[i] == (i+1)*10 && applied[i+1] == 1
					}
					if !ok {
						bad = append(bad, fmt.Sprintf("len %d pool %d: result %v, applications per element %v", n, pool, res, applied[1:n+1]))
					}
					done++
				}
			}
		},
		Check: func(r *vsched.Result) []vsched.Failure {
			fs := e1.Basic("C16", fam, r, nil)
			if len(fs) > 0 {
				return fs
			}
			if r.Cap != "" {
				return append(fs, e1.Fail("C16|"+fam+"|no-termination", "the sweep had not finished after %s (%d calls returned)", r.Cap, done))
			}
			if len(bad) > 0 {
				fs = append(fs, e1.Fail("C16|"+fam+"|result", "RandomOrder=%v: %s", random, bad[0]))
			}
			return fs
		},
	}
}

func scenarios(tier string) []*vsched.Scenario {
	var out []*vsched.Scenario
	maxLen, b, longN := 3, 2, 3000
	if tier == "thorough" {
		maxLen, b, longN = 4, 3, 70000
	}
	out = append(out, sharedOptionScenario(false, 2), sharedOptionScenario(true, 2), payloadScenario(false, 0), payloadScenario(true, 0), longListScenario(false, longN), longListScenario(true, longN), shapeSweepScenario(false, 33), shapeSweepScenario(true, 33),
		nestedScenario(2, 1, false, 1, false), nestedScenario(2, 1, true, 1, false))
	if tier == "thorough" {
		// more outer goroutines than any plausible process-wide cap (two default-schedule smoke runs of ~5000 threads)
		out = append(out, nestedScenario(1100, 1, false, 0, true), nestedScenario(1100, 1, true, 0, true))
	}
	for _, pool := range []int{1, 2} {
		out = append(out, twoCallsScenario(false, pool, 1), twoCallsScenario(true, pool, 1))
	}
	for n := 0; n <= maxLen; n++ {
		pools := []int{noOption, -1, 0, 1, 2, n, n + 1}
		if n <= 2 {
			// "unlimited" and nonsensical pool sizes, in both order modes
			pools = append(pools, n+7, math.MaxInt32, math.MaxInt, math.MinInt)
		}
		seen := map[int]bool{}
		for _, p := range pools {
			if seen[p] {
				continue
			}
			seen[p] = true
			for _, random := range []bool{false, true} {
				bb := b
				if n >= 3 && tier != "thorough" {
					bb = 1
				}
				if n >= 3 && tier == "thorough" {
					bb = 2
				}
				if n == 4 {
					bb = 1
				}
				out = append(out, pmapScenario(n, p, random, bb))
			}
		}
	}
	return out
}
