// C17: SimpleAPI sends exactly the request it was defined with, lazily, and decodes it.
// Engine E3: constructors x templates x PathParam subsets x bodies x default headers x injected
// faults, over a stub transport (no sockets); every MonadIO is evaluated twice.
package main

import (
	"bytes"
	"context"
	"encoding/json"
	"errors"
	"fmt"
	"github.com/TeaEntityLab/fpGo/v2/zzverif/vsched"
	"io"
	"mime"
	"mime/multipart"
	"net/http"
	"net/url"
	"sort"
	"strings"
	"time"

	fpgo "github.com/TeaEntityLab/fpGo/v2"
	"github.com/TeaEntityLab/fpGo/v2/network"
	"verifharness/lib"
)

type captured struct {
	method, url, body string
	header            http.Header
}

// ctxBody behaves like a real transport's body: reading after the request context was cancelled fails.
type ctxBody struct {
	ctx     context.Context
	r       io.Reader
	fail    error
	failEOF error // what the body reports once its bytes are used up (a dropped connection: io.ErrUnexpectedEOF)
}

func (b *ctxBody) Read(p []byte) (int, error) {
	if b.fail != nil {
		return 0, b.fail
	}
	if err := b.ctx.Err(); err != nil {
		return 0, err
	}
	n, err := b.r.Read(p)
	if err == io.EOF && b.failEOF != nil {
		err = b.failEOF
	}
	return n, err
}
func (b *ctxBody) Close() error { return nil }

type stub struct {
	reqs        []captured
	transport   error // injected transport failure
	readErr     error // injected body-read failure
	truncated   bool  // the response announces more bytes than arrive: the connection drops after respBody
	unannounced bool  // no Content-Length (-1: chunked / until close)
	respBody    string
}

func (s *stub) RoundTrip(req *http.Request) (*http.Response, error) {
	c := captured{method: req.Method, url: req.URL.String(), header: req.Header.Clone()}
	if req.Body != nil {
		b, _ := io.ReadAll(req.Body)
		c.body = string(b)
	}
	s.reqs = append(s.reqs, c)
	// a transport may touch the header it was given: this must not reach DefaultHeader
	req.Header.Add("X-Transport-Saw", "1")
	// ... also in place: it rewrites the first value of every field and appends one to each (a copy of
	// DefaultHeader that shares its value slices, or their spare capacity, would pass both on)
	for k, v := range req.Header {
		if len(v) > 0 && k != "Content-Type" {
			v[0] = "rewritten-by-transport"
			req.Header[k] = append(v, "appended-by-transport")
		}
	}
	if s.transport != nil {
		return nil, s.transport
	}
	resp := &http.Response{StatusCode: 200, Status: "200 OK", Proto: "HTTP/1.1", ProtoMajor: 1, ProtoMinor: 1, Header: http.Header{},
		Body: &ctxBody{ctx: req.Context(), r: strings.NewReader(s.respBody), fail: s.readErr}, Request: req, ContentLength: int64(len(s.respBody))}
	if s.unannounced {
		resp.ContentLength = -1
	}
	if s.truncated {
		resp.ContentLength = int64(len(s.respBody)) + 100
		resp.Body.(*ctxBody).failEOF = io.ErrUnexpectedEOF
	}
	return resp, nil
}

type payload struct {
	A int    `json:"a"`
	B string `json:"b"`
}
type reply struct {
	A int `json:"A"`
}

var r *lib.Report
var evals, inputs, nontrivial int64

func bad(clause, format string, a ...interface{}) {
	r.Violation("C17|"+clause, fmt.Sprintf(format, a...), map[string]interface{}{"failure": fmt.Sprintf(format, a...)})
}

type ctor struct {
	name, method, kind string // kind: nobody | json | multipart
	mk                 func(api *network.SimpleAPIDef, tmpl string) func(pp network.PathParam, body interface{}, target *reply) *fpgo.MonadIODef[*network.APIResponse[reply]]
}

func ctors() []ctor {
	nobody := func(f func(api *network.SimpleAPIDef, tmpl string) network.APINoBody[reply]) func(api *network.SimpleAPIDef, tmpl string) func(network.PathParam, interface{}, *reply) *fpgo.MonadIODef[*network.APIResponse[reply]] {
		return func(api *network.SimpleAPIDef, tmpl string) func(network.PathParam, interface{}, *reply) *fpgo.MonadIODef[*network.APIResponse[reply]] {
			a := f(api, tmpl)
			return func(pp network.PathParam, body interface{}, t *reply) *fpgo.MonadIODef[*network.APIResponse[reply]] {
				return a(pp, t)
			}
		}
	}
	js := func(f func(api *network.SimpleAPIDef, tmpl string) network.APIHasBody[interface{}, reply]) func(api *network.SimpleAPIDef, tmpl string) func(network.PathParam, interface{}, *reply) *fpgo.MonadIODef[*network.APIResponse[reply]] {
		return func(api *network.SimpleAPIDef, tmpl string) func(network.PathParam, interface{}, *reply) *fpgo.MonadIODef[*network.APIResponse[reply]] {
			a := f(api, tmpl)
			return func(pp network.PathParam, body interface{}, t *reply) *fpgo.MonadIODef[*network.APIResponse[reply]] {
				return a(pp, body, t)
			}
		}
	}
	mp := func(f func(api *network.SimpleAPIDef, tmpl string) network.APIMultipart[reply]) func(api *network.SimpleAPIDef, tmpl string) func(network.PathParam, interface{}, *reply) *fpgo.MonadIODef[*network.APIResponse[reply]] {
		return func(api *network.SimpleAPIDef, tmpl string) func(network.PathParam, interface{}, *reply) *fpgo.MonadIODef[*network.APIResponse[reply]] {
			a := f(api, tmpl)
			return func(pp network.PathParam, body interface{}, t *reply) *fpgo.MonadIODef[*network.APIResponse[reply]] {
				form, _ := body.(*network.MultipartForm)
				return a(pp, form, t)
			}
		}
	}
	return []ctor{
		{"APIMakeGet", "GET", "nobody", nobody(func(api *network.SimpleAPIDef, t string) network.APINoBody[reply] {
			return network.APIMakeGet[reply](api, t)
		})},
		{"APIMakeDelete", "DELETE", "nobody", nobody(func(api *network.SimpleAPIDef, t string) network.APINoBody[reply] {
			return network.APIMakeDelete[reply](api, t)
		})},
		{"APIMakeDoNewRequest(OPTIONS)", "OPTIONS", "nobody", nobody(func(api *network.SimpleAPIDef, t string) network.APINoBody[reply] {
			return network.APIMakeDoNewRequest[reply](api, http.MethodOptions, t)
		})},
		{"APIMakePostJSONBody", "POST", "json", js(func(api *network.SimpleAPIDef, t string) network.APIHasBody[interface{}, reply] {
			return network.APIMakePostJSONBody[interface{}, reply](api, t)
		})},
		{"APIMakePutJSONBody", "PUT", "json", js(func(api *network.SimpleAPIDef, t string) network.APIHasBody[interface{}, reply] {
			return network.APIMakePutJSONBody[interface{}, reply](api, t)
		})},
		{"APIMakePatchJSONBody", "PATCH", "json", js(func(api *network.SimpleAPIDef, t string) network.APIHasBody[interface{}, reply] {
			return network.APIMakePatchJSONBody[interface{}, reply](api, t)
		})},
		{"APIMakeDoNewRequestWithBodySerializer(PUT)", "PUT", "json", js(func(api *network.SimpleAPIDef, t string) network.APIHasBody[interface{}, reply] {
			return network.APIMakeDoNewRequestWithBodySerializer[interface{}, reply](api, http.MethodPut, t, "application/json", api.RequestSerializerForJSON)
		})},
		{"APIMakePostMultipartBody", "POST", "multipart", mp(func(api *network.SimpleAPIDef, t string) network.APIMultipart[reply] {
			return network.APIMakePostMultipartBody[reply](api, t)
		})},
		{"APIMakePutMultipartBody", "PUT", "multipart", mp(func(api *network.SimpleAPIDef, t string) network.APIMultipart[reply] {
			return network.APIMakePutMultipartBody[reply](api, t)
		})},
		{"APIMakePatchMultipartBody", "PATCH", "multipart", mp(func(api *network.SimpleAPIDef, t string) network.APIMultipart[reply] {
			return network.APIMakePatchMultipartBody[reply](api, t)
		})},
		{"APIMakeDoNewRequestWithMultipartSerializer(PATCH)", "PATCH", "multipart", mp(func(api *network.SimpleAPIDef, t string) network.APIMultipart[reply] {
			return network.APIMakeDoNewRequestWithMultipartSerializer[reply](api, http.MethodPatch, t, api.RequestSerializerForMultipart)
		})},
	}
}

func expectedURL(base, tmpl string, pp network.PathParam) string {
	u := tmpl
	for k, v := range pp {
		u = strings.ReplaceAll(u, "{"+k+"}", fmt.Sprint(v))
	}
	raw := base + "/" + u
	p, err := url.Parse(raw)
	if err != nil {
		return "UNPARSEABLE:" + raw
	}
	return p.String()
}

func headerString(h http.Header) string {
	var ks []string
	for k := range h {
		ks = append(ks, k)
	}
	sort.Strings(ks)
	s := ""
	for _, k := range ks {
		s += fmt.Sprintf("%s=%v;", k, h[k])
	}
	return s
}

func main() {
	r = lib.NewReport("C17")
	defer r.Guard()
	base := "http://api.test/v1"
	templates := []string{"", "a", "a/{x}", "{x}/{y}", "{x}/{x}", "{x}/b/{y}/{z}", "{x}{y}/{z}/{w}"}
	vals := map[string]interface{}{"x": 1, "y": "v", "z": "a b", "w": 3.5, "unused": "u"}
	keys := []string{"x", "y", "z", "w", "unused"}
	headers := []http.Header{nil, {"Authorization": {"tok"}}, {"Authorization": {"tok"}, "X-Two": {"1", "2"}}, {}} // (the last one: empty but not nil)
	var samples lib.Samples
	samples.N = 5
	for _, ct := range ctors() {
		for _, tmpl := range templates {
			for sub := 0; sub < 1<<len(keys); sub++ {
				pp := network.PathParam{}
				for i, k := range keys {
					if sub&(1<<i) != 0 {
						pp[k] = vals[k]
					}
				}
				var ppArg network.PathParam = pp
				if sub == 0 && len(tmpl)%2 == 0 {
					ppArg = nil // a nil PathParam as well
				}
				for hi, hdr := range headers {
					if hi > 0 && sub%5 != 0 {
						continue // headers are independent of the path parameters: crossed with a fifth of the subsets
					}
					inputs++
					oneCase(ct, base, tmpl, ppArg, hdr, "none", &samples)
				}
			}
		}
		// injected faults and body shapes on a representative template
		for _, fault := range []string{"serializer", "transport", "body-read", "body-truncated", "deserializer", "deserializer-nil", "deserializer-foreign-value", "deserializer-typed-nil", "unserialisable-body", "nil-body"} {
			for _, hdr := range headers {
				inputs++
				oneCase(ct, base, "{x}/b/{y}", network.PathParam{"x": 1, "y": "v"}, hdr, fault, &samples)
			}
		}
	}
	// path parameters of other kinds: named types with their own String method, booleans, durations
	kinds := map[string]interface{}{"x": time.March, "y": 1500 * time.Millisecond, "z": shouting("s"), "w": true, "unused": status(2)}
	for _, ct := range ctors() {
		for _, tmpl := range templates {
			for _, sub := range []int{31, 1, 2, 4, 8, 5, 10} {
				pp := network.PathParam{}
				for i, k := range keys {
					if sub&(1<<i) != 0 {
						pp[k] = kinds[k]
					}
				}
				inputs++
				oneCase(ct, base, tmpl, pp, nil, "none", &samples)
			}
		}
		// bodies that are the zero value of their type (or empty): the request still carries the serializer's output for them
		if ct.kind == "json" {
			for _, body := range []interface{}{0, "", false, 0.0, struct{}{}, payload{}, []int{}, [2]int{}, map[string]int{}, "x", 5,
				[]int(nil), map[string]int(nil), []payload(nil), &payload{}, []interface{}{nil}} {
				inputs++
				bodyCase(ct, base, body)
			}
			inputs++
			replayCase(ct, base)
		}
	}
	// nested evaluation under each sync.Pool policy of the shim: an interceptor of the outer API evaluates a
	// JSON call of another API (audit / token refresh) between the outer body's serialization and its
	// transmission; every request still carries its own serializer output
	for pool := 0; pool < 3; pool++ {
		vsched.PoolRetain = pool
		for _, ct := range ctors() {
			if ct.kind == "json" {
				inputs++
				nestedCase(ct, base, pool)
			}
		}
	}
	vsched.PoolRetain = 0
	// a deserializer that keeps the byte slice it is given (zero-copy decoding): the bytes of an earlier
	// response stay what they were when later requests go through the same SimpleAPI
	for _, ct := range ctors() {
		inputs++
		retainCase(ct, base)
		inputs++
		emptyResponseCase(ct, base)
		largeResponseCase(ct, base, map[bool]int{false: 22, true: 25}[r.Tier == "thorough"])
	}
	inputs++
	lateEvaluation(base)
	r.Cov["states"] = inputs
	r.Cov["transitions"] = evals
	r.Cov["traces_validated_against_impl"] = evals
	r.Cov["evaluations"] = evals
	r.Cov["distinct_nontrivial"] = nontrivial
	r.Cov["rule"] = "states = API definitions (constructor, template, PathParam subset, default header, fault); transitions = evaluations of the returned MonadIO over the stub transport (two per definition); non-trivial = definitions with at least one placeholder substituted"
	r.Cov["samples"] = samples.List
	r.Assume = []string{"stub http.RoundTripper instead of sockets (its response body honours the request context, like a real transport's)",
		"placeholder values contain no braces, so substitution is independent of the PathParam iteration order: a correct implementation gives one URL for every order, and the map-order seam planned in DESIGN §2.1 is not needed for the oracle (it was not built)"}
	r.Finish()
}

type shouting string

func (s shouting) String() string { return strings.ToUpper(string(s)) + "!" }

type status int

func (s status) String() string { return []string{"new", "paid", "shipped"}[s] }

func bodyCase(ct ctor, base string, body interface{}) {
	st := &stub{respBody: `{"A":42}`}
	api := network.NewSimpleAPIWithSimpleHTTP(base, network.NewSimpleHTTPWithClientAndInterceptors(&http.Client{Transport: st}))
	var t reply
	evals++
	if p := lib.Catch(func() { ct.mk(api, "x")(nil, body, &t).Eval() }); p != "" {
		bad("panic|eval|body-shape", "%s with body %#v: %s", ct.name, body, p)
		return
	}
	want, _ := json.Marshal(body)
	if len(st.reqs) != 1 || st.reqs[0].body != string(want) {
		got := "no request"
		if len(st.reqs) > 0 {
			got = fmt.Sprintf("%q", st.reqs[0].body)
		}
		bad("body|zero-valued", "%s with body %#v (%T): the request carried %s, the serializer's output is %q", ct.name, body, body, got, want)
	}
}

// replayCase: the same returned MonadIO evaluated three times (a retry) with a serializer that hands out a
// one-shot reader (a *bytes.Buffer: no Seek): every evaluation's request carries the whole serializer output.
func replayCase(ct ctor, base string) {
	st := &stub{respBody: `{"A":42}`}
	api := network.NewSimpleAPIWithSimpleHTTP(base, network.NewSimpleHTTPWithClientAndInterceptors(&http.Client{Transport: st}))
	calls := 0
	api.RequestSerializerForJSON = func(body interface{}) (io.Reader, error) {
		calls++
		b, err := json.Marshal(body)
		return bytes.NewBuffer(b), err
	}
	var t reply
	body := payload{A: 7, B: "again"}
	want, _ := json.Marshal(body)
	p := lib.Catch(func() {
		m := ct.mk(api, "x")(nil, body, &t)
		for i := 0; i < 3; i++ {
			evals++
			m.Eval()
		}
	})
	if p != "" {
		bad("panic|eval|replay", "%s evaluated three times with a serializer returning a *bytes.Buffer: %s", ct.name, p)
		return
	}
	var got []string
	for _, rq := range st.reqs {
		got = append(got, rq.body)
	}
	if len(got) != 3 || got[0] != string(want) || got[1] != string(want) || got[2] != string(want) {
		bad("body|replayed-evaluation", "%s: one MonadIO evaluated three times, serializer returning a one-shot reader (called %d times): request bodies %q, each must be %q", ct.name, calls, got, want)
	}
}

// emptyResponseCase: a response with an empty body is deserialized like any other: the deserializer is called
// (with no bytes), and a decoding failure - the default JSON decoder cannot decode nothing - comes back as Err.
func emptyResponseCase(ct ctor, base string) {
	for _, custom := range []bool{false, true} {
		st := &stub{respBody: ""}
		api := network.NewSimpleAPIWithSimpleHTTP(base, network.NewSimpleHTTPWithClientAndInterceptors(&http.Client{Transport: st}))
		calls := 0
		decodeErr := errors.New("decoder: nothing to decode")
		if custom {
			api.ResponseDeserializer = func(body []byte, target interface{}) (interface{}, error) {
				calls++
				if len(body) != 0 {
					return target, fmt.Errorf("decoder received %d bytes for an empty response", len(body))
				}
				return target, decodeErr
			}
		}
		var body interface{} = payload{A: 1, B: "b"}
		if ct.kind == "multipart" {
			body = &network.MultipartForm{Value: map[string][]string{"k": {"v"}}}
		}
		var resp *network.APIResponse[reply]
		var t reply
		evals++
		if p := lib.Catch(func() { resp = ct.mk(api, "x")(nil, body, &t).Eval() }); p != "" {
			bad("panic|eval|empty-response", "%s with an empty response body: %s", ct.name, p)
			continue
		}
		switch {
		case custom && calls != 1:
			bad("deserializer-calls|empty-response", "%s: the response body is empty; the deserializer was called %d times, expected once", ct.name, calls)
		case custom && resp.Err != decodeErr:
			bad("error-not-surfaced|empty-response", "%s: the deserializer failed on the empty body with %v; Err is %v", ct.name, decodeErr, resp.Err)
		case !custom && resp.Err == nil:
			bad("error-not-surfaced|empty-response", "%s: the default JSON decoder cannot decode an empty body, yet Err is nil", ct.name)
		}
	}
}

// lateEvaluation: the MonadIO of every constructor is built, the whole request timeout elapses (real clock: the library's
// context deadlines are real), and only then it is evaluated, twice: each evaluation still issues exactly one request and
// succeeds - the timeout budget belongs to an evaluation, not to the moment the call was described. The wait is 1.1 x the
// timeout; a failure is re-tried once with a timeout five times longer before it is reported (a stalled machine is not a defect).
func lateEvaluation(base string) {
	for attempt, unit := range []time.Duration{time.Second, 5 * time.Second} {
		type built struct {
			ct  ctor
			st  *stub
			io  *fpgo.MonadIODef[*network.APIResponse[reply]]
			tgt *reply
		}
		var bs []built
		for _, ct := range ctors() {
			st := &stub{respBody: `{"A":7}`}
			h := network.NewSimpleHTTPWithClientAndInterceptors(&http.Client{Transport: st})
			h.TimeoutMillisecond = int64(unit) // (the library reads the field as a time.Duration)
			api := network.NewSimpleAPIWithSimpleHTTP(base, h)
			var body interface{} = payload{A: 1, B: "b"}
			if ct.kind == "multipart" {
				body = &network.MultipartForm{Value: map[string][]string{"k": {"v"}}}
			}
			b := built{ct: ct, st: st, tgt: &reply{}}
			if p := lib.Catch(func() { b.io = ct.mk(api, "x")(nil, body, b.tgt) }); p != "" {
				bad("panic|build|late-evaluation", "%s: %s", ct.name, p)
				return
			}
			bs = append(bs, b)
		}
		time.Sleep(unit + unit/10)
		fail := ""
		for _, b := range bs {
			for ev := 1; ev <= 2 && fail == ""; ev++ {
				evals++
				var resp *network.APIResponse[reply]
				if p := lib.Catch(func() { resp = b.io.Eval() }); p != "" {
					fail = fmt.Sprintf("%s: evaluation %d: %s", b.ct.name, ev, p)
				} else if len(b.st.reqs) != ev || resp == nil || resp.Err != nil {
					fail = fmt.Sprintf("%s built, then evaluated %v later (request timeout %v): after evaluation %d the transport has seen %d request(s), Err=%v", b.ct.name, unit+unit/10, unit, ev, len(b.st.reqs), resp.Err)
				}
			}
		}
		if fail == "" {
			return
		}
		if attempt == 1 {
			bad("late-evaluation", "%s", fail)
		}
	}
}

// largeResponseCase: response bodies of 2^k-1, 2^k, 2^k+1 bytes up to 4 MiB (quick) / 32 MiB (thorough), with the length
// announced (Content-Length) and not (-1): the deserializer receives exactly the bytes the transport delivered.
func largeResponseCase(ct ctor, base string, topBits int) {
	for k := 10; k <= topBits; k++ {
		for _, n := range []int{1<<k - 1, 1 << k, 1<<k + 1} {
			for _, announced := range []bool{true, false} {
				pad := strings.Repeat("x", n-len(`{"A":7,"pad":""}`))
				st := &stub{respBody: `{"A":7,"pad":"` + pad + `"}`, unannounced: !announced}
				api := network.NewSimpleAPIWithSimpleHTTP(base, network.NewSimpleHTTPWithClientAndInterceptors(&http.Client{Transport: st}))
				gotLen, same := -1, false
				api.ResponseDeserializer = func(body []byte, target interface{}) (interface{}, error) {
					gotLen, same = len(body), string(body) == st.respBody
					return target, nil
				}
				var body interface{} = payload{A: 1, B: "b"}
				if ct.kind == "multipart" {
					body = &network.MultipartForm{Value: map[string][]string{"k": {"v"}}}
				}
				var resp *network.APIResponse[reply]
				var t reply
				evals++
				inputs++
				if p := lib.Catch(func() { resp = ct.mk(api, "x")(nil, body, &t).Eval() }); p != "" {
					bad("panic|eval|large-response", "%s with a response body of %d bytes: %s", ct.name, n, p)
					return
				}
				if resp.Err != nil || gotLen != n || !same {
					bad("response-body|large-response", "%s: the transport delivered a body of %d bytes (Content-Length announced: %v); the deserializer received %d bytes (identical: %v), Err=%v", ct.name, n, announced, gotLen, same, resp.Err)
					return
				}
			}
		}
	}
}

func retainCase(ct ctor, base string) {
	st := &stub{respBody: `{"A":1}`}
	api := network.NewSimpleAPIWithSimpleHTTP(base, network.NewSimpleHTTPWithClientAndInterceptors(&http.Client{Transport: st}))
	var kept [][]byte
	api.ResponseDeserializer = func(body []byte, target interface{}) (interface{}, error) {
		kept = append(kept, body)
		return network.JSONBodyDeserializer(body, target)
	}
	call := ct.mk(api, "x")
	bodies := []string{`{"A":1}`, `{"A":22222222}`, `{"A":3}`}
	var body interface{} = payload{A: 1, B: "b"}
	if ct.kind == "multipart" {
		body = &network.MultipartForm{Value: map[string][]string{"k": {"v"}}}
	}
	p := lib.Catch(func() {
		for _, b := range bodies {
			st.respBody = b
			var t reply
			call(nil, body, &t).Eval()
			evals++
		}
	})
	if p != "" {
		bad("panic", "%s with a deserializer that keeps its input: %s", ct.name, p)
		return
	}
	if len(kept) != len(bodies) {
		bad("deserializer-calls", "%s: the deserializer was called %d times for %d evaluations", ct.name, len(kept), len(bodies))
		return
	}
	for i, b := range bodies {
		if string(kept[i]) != b {
			bad("response-bytes-overwritten", "%s: the bytes handed to the deserializer for response %d read %q after later requests through the same SimpleAPI, they were %q", ct.name, i+1, kept[i], b)
		}
	}
}

func nestedCase(ct ctor, base string, pool int) {
	innerStub := &stub{respBody: `{"A":1}`}
	innerAPI := network.NewSimpleAPIWithSimpleHTTP(base, network.NewSimpleHTTPWithClientAndInterceptors(&http.Client{Transport: innerStub}))
	innerCall := network.APIMakePostJSONBody[interface{}, reply](innerAPI, "audit")
	round := 0
	var ic network.Interceptor = func(req *http.Request) error {
		round++
		var t reply
		innerCall(nil, payload{A: 900 + round, B: "inner body, longer than the outer one"}, &t).Eval()
		return nil
	}
	st := &stub{respBody: `{"A":42}`}
	api := network.NewSimpleAPIWithSimpleHTTP(base, network.NewSimpleHTTPWithClientAndInterceptors(&http.Client{Transport: st}, &ic))
	call := ct.mk(api, "x")
	var t reply
	p := lib.Catch(func() {
		for i := 1; i <= 3; i++ { // the same MonadIO three times, then a new one
			io_ := call(nil, payload{A: i, B: "o"}, &t)
			io_.Eval()
			evals++
			io_.Eval()
			evals++
		}
	})
	if p != "" {
		bad("panic", "%s with an interceptor that evaluates another JSON call (sync.Pool policy %d): %s", ct.name, pool, p)
		return
	}
	var got, want []string
	for _, c := range st.reqs {
		got = append(got, c.body)
	}
	for i := 1; i <= 3; i++ {
		w := fmt.Sprintf(`{"a":%d,"b":"o"}`, i)
		want = append(want, w, w)
	}
	if fmt.Sprint(got) != fmt.Sprint(want) {
		bad("body|nested-call", "%s with an interceptor that evaluates another JSON call before the transport (sync.Pool policy %d): outer request bodies %q, serializer output %q", ct.name, pool, got, want)
	}
	for i, c := range innerStub.reqs {
		if w := fmt.Sprintf(`{"a":%d,"b":"inner body, longer than the outer one"}`, 901+i); c.body != w {
			bad("body|nested-call", "%s: inner (interceptor-made) request %d carried %q, serializer output %q (sync.Pool policy %d)", ct.name, i, c.body, w, pool)
		}
	}
}

func oneCase(ct ctor, base, tmpl string, pp network.PathParam, hdr http.Header, fault string, samples *lib.Samples) {
	st := &stub{respBody: `{"A":42}`}
	api := network.NewSimpleAPIWithSimpleHTTP(base, network.NewSimpleHTTPWithClientAndInterceptors(&http.Client{Transport: st}))
	var hdrBefore string
	if hdr != nil {
		api.DefaultHeader = hdr.Clone()
		hdrBefore = headerString(api.DefaultHeader)
	}
	serErr, desErr := errors.New("serializer failed"), errors.New("deserializer failed")
	var body interface{}
	switch ct.kind {
	case "json":
		body = payload{7, "s"}
	case "multipart":
		body = &network.MultipartForm{Value: map[string][]string{"field": {"val"}}}
	}
	wantErr := ""
	switch fault {
	case "serializer":
		api.RequestSerializerForJSON = func(interface{}) (io.Reader, error) { return nil, serErr }
		api.RequestSerializerForMultipart = func(*network.MultipartForm) (io.Reader, string, error) { return nil, "", serErr }
		if ct.kind != "nobody" {
			wantErr = serErr.Error()
		}
	case "transport":
		st.transport = errors.New("transport failed")
		wantErr = "transport failed"
	case "body-read":
		st.readErr = errors.New("read failed")
		wantErr = "read failed"
	case "body-truncated": // the whole JSON document arrives, then the connection drops short of the announced length
		st.truncated = true
		wantErr = "unexpected EOF"
	case "deserializer":
		api.ResponseDeserializer = func(b []byte, t interface{}) (interface{}, error) { return t, desErr }
		wantErr = desErr.Error()
	case "deserializer-nil":
		api.ResponseDeserializer = func(b []byte, t interface{}) (interface{}, error) { return nil, desErr }
		wantErr = desErr.Error()
	case "deserializer-foreign-value": // a lenient decoder that hands back what it could make of the body, plus the error
		api.ResponseDeserializer = func(b []byte, t interface{}) (interface{}, error) {
			return map[string]interface{}{"raw": string(b)}, desErr
		}
		wantErr = desErr.Error()
	case "deserializer-typed-nil":
		api.ResponseDeserializer = func(b []byte, t interface{}) (interface{}, error) { return (*reply)(nil), desErr }
		wantErr = desErr.Error()
	case "unserialisable-body":
		if ct.kind == "json" {
			body = map[string]interface{}{"c": make(chan int)}
			wantErr = "json"
		}
	case "nil-body":
		if ct.kind == "json" {
			body = nil
		}
		if ct.kind == "multipart" {
			body = (*network.MultipartForm)(nil)
		}
	}
	desc := fmt.Sprintf("%s(%q) pathParam=%v defaultHeader=%v fault=%s", ct.name, tmpl, pp, hdr, fault)
	var io_ *fpgo.MonadIODef[*network.APIResponse[reply]]
	target := &reply{}
	if p := lib.Catch(func() { io_ = ct.mk(api, tmpl)(pp, body, target) }); p != "" {
		bad("panic|define|"+ct.kind, "%s: defining the API panicked: %s", desc, p)
		return
	}
	if len(st.reqs) != 0 {
		bad("lazy", "%s: %d request(s) were sent before the MonadIO was evaluated", desc, len(st.reqs))
	}
	substituted := false
	for k := range pp {
		if strings.Contains(tmpl, "{"+k+"}") {
			substituted = true
		}
	}
	if substituted {
		nontrivial++
	}
	for round := 1; round <= 2; round++ {
		evals++
		n0 := len(st.reqs)
		var resp *network.APIResponse[reply]
		if p := lib.Catch(func() { resp = io_.Eval() }); p != "" {
			bad("panic|eval|"+fault, "%s: evaluation #%d panicked: %s", desc, round, p)
			return
		}
		sent := len(st.reqs) - n0
		wantSent := 1
		if (fault == "serializer" && ct.kind != "nobody") || (fault == "unserialisable-body" && ct.kind == "json") {
			wantSent = 0
		}
		if sent != wantSent {
			bad("request-count", "%s: evaluation #%d issued %d requests, want %d", desc, round, sent, wantSent)
			return
		}
		if resp == nil {
			bad("nil-response", "%s: evaluation returned nil", desc)
			return
		}
		if wantErr != "" {
			if resp.Err == nil || !strings.Contains(resp.Err.Error(), wantErr) {
				bad("fault-not-surfaced|"+fault, "%s: injected failure did not come back as Err (Err=%v)", desc, resp.Err)
			}
		} else if resp.Err != nil {
			bad("unexpected-error", "%s: evaluation #%d failed: %v", desc, round, resp.Err)
		} else if resp.TargetObject == nil || resp.TargetObject != target || target.A != 42 {
			bad("decode", "%s: the response body was not deserialized into the supplied target (target=%+v, TargetObject=%p)", desc, *target, resp.TargetObject)
		}
		if sent == 0 {
			continue
		}
		c := st.reqs[len(st.reqs)-1]
		if c.method != ct.method {
			bad("method|"+ct.name, "%s: request method %s, the constructor names %s", desc, c.method, ct.method)
		}
		if want := expectedURL(base, tmpl, pp); c.url != want {
			bad("url", "%s: request URL %q, want %q", desc, c.url, want)
		}
		// header: a copy of DefaultHeader plus the declared Content-Type
		wantH := http.Header{}
		for k, v := range hdr {
			wantH[k] = append([]string{}, v...)
		}
		gotCT := c.header.Get("Content-Type")
		switch {
		case ct.kind == "json":
			wantH["Content-Type"] = []string{"application/json"}
		case ct.kind == "multipart" && fault != "nil-body":
			mt, params, err := mime.ParseMediaType(gotCT)
			if err != nil || mt != "multipart/form-data" || params["boundary"] == "" || len(c.header["Content-Type"]) != 1 {
				bad("content-type", "%s: Content-Type %v, want one multipart/form-data with a boundary", desc, c.header["Content-Type"])
			} else {
				mr := multipart.NewReader(bytes.NewReader([]byte(c.body)), params["boundary"])
				form, err := mr.ReadForm(1 << 20)
				if err != nil || fmt.Sprint(form.Value["field"]) != "[val]" {
					bad("body", "%s: multipart body does not carry the form (err %v)", desc, err)
				}
			}
			wantH["Content-Type"] = c.header["Content-Type"]
		}
		if headerString(c.header) != headerString(wantH) {
			bad("header", "%s: evaluation #%d sent header %s, want %s", desc, round, headerString(c.header), headerString(wantH))
		}
		if ct.kind == "json" && fault != "nil-body" {
			if c.body != `{"a":7,"b":"s"}` {
				bad("body", "%s: request body %q, the serializer's output is {\"a\":7,\"b\":\"s\"}", desc, c.body)
			}
		}
		if ct.kind == "nobody" && c.body != "" {
			bad("body", "%s: a request without body carried %q", desc, c.body)
		}
		if hdr != nil && headerString(api.DefaultHeader) != hdrBefore {
			bad("default-header-modified", "%s: DefaultHeader changed from %s to %s", desc, hdrBefore, headerString(api.DefaultHeader))
		}
	}
	if substituted && fault == "none" {
		samples.Add(desc)
	}
}
