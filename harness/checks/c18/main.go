// C18: interceptors run once each, in order, before the transport; an error aborts.
// Engine E2: breadth-first search over histories of Add / Remove / Clear / SetHTTPClient / requests
// on two SimpleHTTP instances built from one shared interceptor slice, against a list model.
package main

import (
	"context"
	"errors"
	"fmt"
	"net/http"
	"os"
	"sort"
	"strings"
	"time"

	"github.com/TeaEntityLab/fpGo/v2/network"
	"verifharness/lib"
)

type world struct {
	extra      int
	lastMethod string
	log        []string // call log of the request in flight: interceptor names, then "T<k>"
	calls      int
	ics        map[string]*network.Interceptor
	clients    []*http.Client
	https      []*network.SimpleHTTPDef
	apis       []*network.SimpleAPIDef
	model      [][]string // per instance: registered interceptor names, in order
	lastHdr    http.Header
}

type stubT struct {
	w  *world
	id int
}

func (t *stubT) RoundTrip(req *http.Request) (*http.Response, error) {
	t.w.log = append(t.w.log, fmt.Sprintf("T%d", t.id))
	t.w.lastHdr = req.Header.Clone()
	t.w.lastMethod = req.Method
	return &http.Response{StatusCode: 200, Status: "200 OK", Proto: "HTTP/1.1", ProtoMajor: 1, ProtoMinor: 1, Header: http.Header{}, Body: http.NoBody, Request: req}, nil
}

var errRecursion = errors.New("more than 60 interceptor calls in one request")

// initialCommon names the interceptors of the caller-owned slice both instances are constructed from.
var initialCommon = []string{"i0"}

// nInst is the number of SimpleHTTP instances of the world (2; 3 in the shared-client pass).
var nInst = 2

func newWorld() *world {
	w := &world{ics: map[string]*network.Interceptor{}}
	mk := func(name string, fail bool) {
		var ic network.Interceptor = func(req *http.Request) error {
			w.calls++
			if w.calls > 60 {
				return errRecursion
			}
			w.log = append(w.log, name)
			req.Header.Add("X-Seen", name)
			if fail {
				return errors.New("interceptor " + name + " failed")
			}
			return nil
		}
		w.ics[name] = &ic
	}
	// (made in one loop: closures of one function literal share their code address, whatever they capture)
	for _, n := range []string{"i1", "i2", "i3F", "i0"} {
		mk(n, n == "i3F")
	}
	// both instances are built from ONE caller-owned slice with spare capacity
	common := make([]*network.Interceptor, 0, len(initialCommon)+3)
	for _, n := range initialCommon {
		common = append(common, w.ics[n])
	}
	for k := 0; k < nInst; k++ {
		c := &http.Client{Transport: &stubT{w, k}}
		w.clients = append(w.clients, c)
		h := network.NewSimpleHTTPWithClientAndInterceptors(c, common...)
		w.https = append(w.https, h)
		api := network.NewSimpleAPIWithSimpleHTTP("http://api.test", h)
		api.DefaultHeader = http.Header{"X-Base": {"b"}} // (what interceptors add to a request must not settle in here)
		w.apis = append(w.apis, api)
		w.model = append(w.model, append([]string{}, initialCommon...))
	}
	// two spare clients per instance to switch to (an http.Client belongs to one SimpleHTTP: wrapping the
	// same client by two instances chains them, which is outside this property)
	for k := nInst; k < 3*nInst; k++ {
		w.clients = append(w.clients, &http.Client{Transport: &stubT{w, k}})
	}
	return w
}

type op struct {
	name string
	run  func(w *world, s int) string // returns a failure description or ""
}

// chain follows the wrapped transports from the client of instance s: the SimpleHTTP instances a request
// made through s passes, outermost first. A SimpleHTTP that is (transitively) its own underlying
// transport would recurse until the stack overflows, which kills the process; that is detected here,
// structurally, and the request is not issued.
func (w *world) chain(s int) (idx []int, cycle bool) {
	seen := map[*network.SimpleHTTPDef]bool{}
	var t http.RoundTripper = w.https[s].GetHTTPClient().Transport
	for {
		cur, ok := t.(*network.SimpleHTTPDef)
		if !ok || cur == nil {
			return idx, false
		}
		if seen[cur] {
			return idx, true
		}
		seen[cur] = true
		for i, h := range w.https {
			if h == cur {
				idx = append(idx, i)
			}
		}
		next, _ := lib.Priv(cur, "clientTransport").Interface().(http.RoundTripper)
		t = next
	}
}

func (w *world) request(s int, verb string) string {
	w.log, w.calls, w.lastHdr = nil, 0, nil
	ch, cycle := w.chain(s)
	if cycle {
		return "the interceptor chain recursed: the SimpleHTTP has become its own underlying transport (a request would recurse until the stack overflows)"
	}
	inChain := false
	for _, i := range ch {
		if i == s {
			inChain = true
		}
	}
	if !inChain {
		return fmt.Sprintf("a request made through instance %d does not pass instance %d at all (its client's transport chain is %v): its interceptors cannot run", s, s, ch)
	}
	var err error
	h := w.https[s]
	p := lib.Catch(func() {
		switch verb {
		case "Get":
			err = h.Get("http://api.test/x").Err
		case "Post":
			err = h.Post("http://api.test/x", "text/plain", strings.NewReader("b")).Err
		case "Head":
			err = h.Head("http://api.test/x").Err
		case "Options":
			err = h.Options("http://api.test/x").Err
		case "Delete":
			err = h.Delete("http://api.test/x").Err
		case "Put":
			err = h.Put("http://api.test/x", "text/plain", strings.NewReader("b")).Err
		case "Patch":
			err = h.Patch("http://api.test/x", "text/plain", strings.NewReader("b")).Err
		case "DoNewRequest":
			err = h.DoNewRequest(context.Background(), http.Header{"X-Own": []string{"1"}}, "TRACE", "http://api.test/x").Err
		case "DoNewRequestWithBodyOptions":
			err = h.DoNewRequestWithBodyOptions(context.Background(), nil, "REPORT", "http://api.test/x", strings.NewReader("b"), "text/plain").Err
		case "DoRequest":
			req, _ := http.NewRequest("LINK", "http://api.test/x", nil)
			err = h.DoRequest(req).Err
		case "API-Post":
			var target struct{}
			resp := network.APIMakePostJSONBody[int, struct{}](w.apis[s], "x")(nil, 5, &target).Eval()
			err = resp.Err
			if err != nil && strings.Contains(err.Error(), "unexpected end of JSON input") {
				err = nil
			}
		case "API":
			var target struct{}
			api := network.APIMakeGet[struct{}](w.apis[s], "x")
			resp := api(nil, &target).Eval()
			err = resp.Err
			if err != nil && strings.Contains(err.Error(), "unexpected end of JSON input") {
				err = nil // empty stub body: decoding is C17's subject
			}
		}
	})
	if p != "" {
		return "request panicked: " + p
	}
	if w.calls > 60 {
		return fmt.Sprintf("the interceptor chain recursed / ran repeatedly (%d interceptor calls in one request)", w.calls)
	}
	// every SimpleHTTP the request passes contributes its registered interceptors once, in order (a client
	// wrapped by two instances chains them: the inner one is the outer one's underlying transport)
	var want []string
	failed := ""
	for _, i := range ch {
		for _, n := range w.model[i] {
			want = append(want, n)
			if n == "i3F" {
				failed = n
				break
			}
		}
		if failed != "" {
			break
		}
	}
	got := append([]string{}, w.log...)
	transportCalls := 0
	var gotIcs []string
	for i, e := range got {
		if strings.HasPrefix(e, "T") {
			transportCalls++
			if i != len(got)-1 {
				return fmt.Sprintf("the transport saw the request before the interceptors finished: call log %v", got)
			}
		} else {
			gotIcs = append(gotIcs, e)
		}
	}
	if fmt.Sprint(gotIcs) != fmt.Sprint(want) {
		return fmt.Sprintf("interceptor calls %v, registered (up to the first failing one) %v", gotIcs, want)
	}
	if failed != "" {
		if transportCalls != 0 {
			return fmt.Sprintf("the transport was invoked although %s failed (log %v)", failed, got)
		}
		if err == nil || !strings.Contains(err.Error(), failed+" failed") {
			return fmt.Sprintf("the error of %s was not surfaced (Err=%v)", failed, err)
		}
		return ""
	}
	if transportCalls != 1 {
		return fmt.Sprintf("the transport was invoked %d times (log %v, Err=%v)", transportCalls, got, err)
	}
	if err != nil {
		return fmt.Sprintf("request failed: %v", err)
	}
	wantMethod := map[string]string{"Get": "GET", "API": "GET", "Post": "POST", "Head": "HEAD", "Options": "OPTIONS", "Delete": "DELETE", "Put": "PUT", "Patch": "PATCH",
		"DoNewRequest": "TRACE", "DoNewRequestWithBodyOptions": "REPORT", "DoRequest": "LINK", "API-Post": "POST"}[verb]
	if w.lastMethod != wantMethod {
		return fmt.Sprintf("%s reached the transport as a %s request", verb, w.lastMethod)
	}
	if fmt.Sprint(w.lastHdr["X-Seen"]) != fmt.Sprint(want) && !(len(want) == 0 && len(w.lastHdr["X-Seen"]) == 0) {
		return fmt.Sprintf("header changes made by the interceptors did not reach the transport: X-Seen=%v, want %v", w.lastHdr["X-Seen"], want)
	}
	return ""
}

func removeAll(l []string, n string) []string {
	var o []string
	for _, x := range l {
		if x != n {
			o = append(o, x)
		}
	}
	return o
}

func ops() []op {
	add := func(names ...string) op {
		return op{"Add(" + strings.Join(names, ",") + ")", func(w *world, s int) string {
			var ptrs []*network.Interceptor
			for _, n := range names {
				ptrs = append(ptrs, w.ics[n])
			}
			w.https[s].AddInterceptor(ptrs...)
			w.model[s] = append(w.model[s], names...)
			return ""
		}}
	}
	rem := func(n string) op {
		return op{"Remove(" + n + ")", func(w *world, s int) string {
			w.https[s].RemoveInterceptor(w.ics[n])
			w.model[s] = removeAll(w.model[s], n)
			return ""
		}}
	}
	setClient := func(k int) op {
		return op{fmt.Sprintf("SetHTTPClient(client%d)", k), func(w *world, s int) string {
			w.https[s].SetHTTPClient(w.clients[nInst+2*s+k])
			return ""
		}}
	}
	return []op{
		add("i1"), add("i2"), add("i3F"), add("i1", "i2"), rem("i1"), rem("i0"), rem("i3F"),
		{"Clear", func(w *world, s int) string { w.https[s].ClearInterceptor(); w.model[s] = nil; return "" }},
		setClient(0), setClient(1),
		{"SetHTTPClient(the other instance's client)", func(w *world, s int) string {
			w.https[s].SetHTTPClient(w.https[(s+1)%nInst].GetHTTPClient())
			return ""
		}},
		{"SetHTTPClient(same client again)", func(w *world, s int) string { w.https[s].SetHTTPClient(w.https[s].GetHTTPClient()); return "" }},
		{"SetHTTPClient(copy of the current client)", func(w *world, s int) string {
			c := *w.https[s].GetHTTPClient() // e.g. to change the Timeout: its Transport already is this SimpleHTTP
			w.https[s].SetHTTPClient(&c)
			return ""
		}},
		{"replace the Transport of the current client, then SetHTTPClient(same client)", func(w *world, s int) string {
			c := w.https[s].GetHTTPClient()
			for k, h := range w.https {
				if k != s && h.GetHTTPClient() == c {
					return "" // a client shared with the other instance: overwriting its Transport is the caller cutting that instance off
				}
			}
			w.extra++
			c.Transport = &stubT{w, 10 + w.extra}
			w.https[s].SetHTTPClient(c)
			return ""
		}},
		{"Get", func(w *world, s int) string { return w.request(s, "Get") }},
		{"Post", func(w *world, s int) string { return w.request(s, "Post") }},
		{"API-Get", func(w *world, s int) string { return w.request(s, "API") }},
	}
}

type step struct{ op, s int }

func run(all []op, prog []step) (fail string, key string) {
	w := newWorld()
	for i, st := range prog {
		var f string
		p := lib.Catch(func() { f = all[st.op].run(w, st.s) })
		if p != "" {
			f = "panic: " + p
		}
		if f != "" {
			return fmt.Sprintf("step %d: %s", i, f), ""
		}
	}
	// every instance must answer a probe request according to its model (so a wrong list is seen
	// even when the history ends with a registration)
	for s := range w.https {
		for _, verb := range []string{"Get", "Head", "Options", "Delete", "Post", "Put", "Patch", "DoNewRequest", "DoNewRequestWithBodyOptions", "DoRequest", "API", "API-Post", "API"} {
			if f := w.request(s, verb); f != "" {
				if verb != "Get" {
					f = verb + ": " + f
				}
				return fmt.Sprintf("probe request on instance %d after the history: %s", s, f), ""
			}
		}
	}
	var objs []interface{}
	for _, h := range w.https {
		objs = append(objs, h)
	}
	return "", fmt.Sprint(w.model) + "|" + lib.Canon(objs...)
}

func progNames(all []op, prog []step) []string {
	var n []string
	for _, st := range prog {
		n = append(n, fmt.Sprintf("s%d.%s", st.s, all[st.op].name))
	}
	return n
}

// search: breadth-first over histories from the world described by initialCommon.
func search(r *lib.Report, all []op, depth int, seen map[string]bool, trans *int64, samples *lib.Samples) {
	_, k0 := run(all, nil)
	seen[k0] = true
	frontier := [][]step{{}}
	for d := 0; d < depth; d++ {
		var next [][]step
		for _, prog := range frontier {
			for oi := range all {
				for s := 0; s < nInst; s++ {
					np := append(append([]step{}, prog...), step{oi, s})
					*trans++
					lib.Beat(nil)
					fail, key := run(all, np)
					if fail != "" {
						clause := "chain"
						switch {
						case strings.Contains(fail, "recursed"), strings.Contains(fail, "stack"):
							clause = "recursion"
						case strings.Contains(fail, "interceptor calls"):
							clause = "wrong-interceptors"
						case strings.Contains(fail, "transport"):
							clause = "transport"
						case strings.Contains(fail, "surfaced"):
							clause = "error-not-surfaced"
						case strings.Contains(fail, "panic"):
							clause = "panic"
						}
						// finding key: the clause plus the situation that matters (a client shared between the two
						// instances, and whether a copy of it is involved), else the last operation
						situation := "after-" + all[np[len(np)-1].op].name
						shared, copied := false, false
						for _, st := range np {
							if strings.Contains(all[st.op].name, "other instance") {
								shared = true
							}
							if strings.Contains(all[st.op].name, "copy of") {
								copied = true
							}
						}
						if shared {
							situation = "client-shared-by-two-instances"
							if copied {
								situation += "+copied"
							}
						}
						r.Violation("C18|"+clause+"|"+situation, fmt.Sprintf("history %v: %s", progNames(all, np), fail),
							map[string]interface{}{"history": progNames(all, np), "failure": fail, "setup": "two SimpleHTTP instances s0, s1 built by NewSimpleHTTPWithClientAndInterceptors(client, common...) from one slice common=[i0] with capacity 4"})
						continue
					}
					if !seen[key] {
						seen[key] = true
						next = append(next, np)
						if len(np) == 3 {
							samples.Add(progNames(all, np))
						}
					}
				}
			}
		}
		frontier = next
	}
}

// defaultConstructors: NewSimpleHTTP() and NewSimpleAPI(url) build independent instances: three of them,
// each given its own stub client, register different interceptors; a request through one runs exactly
// its own interceptors. All orders of the three registrations and every instance as the requester.
func defaultConstructors(r *lib.Report) int64 {
	var n int64
	for _, order := range [][]int{{0, 1, 2}, {0, 2, 1}, {1, 0, 2}, {1, 2, 0}, {2, 0, 1}, {2, 1, 0}} {
		var log []string
		var hs []*network.SimpleHTTPDef
		fail := ""
		// Default-constructed instances send through http.DefaultTransport: it is replaced by a stub for the
		// duration, so the clients the constructors made can be used as they are (orders starting with 0)
		savedTransport, savedClientTransport := http.DefaultTransport, http.DefaultClient.Transport
		http.DefaultTransport = roundTripFunc(func(req *http.Request) (*http.Response, error) {
			log = append(log, "Tdefault")
			return &http.Response{StatusCode: 200, Status: "200 OK", Proto: "HTTP/1.1", ProtoMajor: 1, ProtoMinor: 1, Header: http.Header{}, Body: http.NoBody, Request: req}, nil
		})
		p := lib.Catch(func() {
			h0, h1 := network.NewSimpleHTTP(), network.NewSimpleHTTP()
			api := network.NewSimpleAPI("http://api.test")
			hs = []*network.SimpleHTTPDef{h0, h1, api.GetSimpleHTTP()}
			if hs[2] == nil || hs[2] == h0 || hs[2] == h1 || h0 == h1 {
				fail = "NewSimpleHTTP / NewSimpleAPI handed out the same SimpleHTTP twice"
				return
			}
			for k, h := range hs {
				k := k
				if order[0] == 0 {
					break // half of the orders keep the clients the constructors made (see below)
				}
				h.SetHTTPClient(&http.Client{Transport: roundTripFunc(func(req *http.Request) (*http.Response, error) {
					log = append(log, fmt.Sprintf("T%d", k))
					return &http.Response{StatusCode: 200, Status: "200 OK", Proto: "HTTP/1.1", ProtoMajor: 1, ProtoMinor: 1, Header: http.Header{}, Body: http.NoBody, Request: req}, nil
				})})
			}
			for _, k := range order {
				k := k
				var ic network.Interceptor = func(req *http.Request) error { log = append(log, fmt.Sprintf("i%d", k)); return nil }
				hs[k].AddInterceptor(&ic)
			}
			for k, h := range hs {
				log = nil
				n++
				if err := h.Get("http://api.test/x").Err; err != nil {
					fail = fmt.Sprintf("request through instance %d failed: %v", k, err)
					return
				}
				want := fmt.Sprintf("[i%d T%d]", k, k)
				if order[0] == 0 {
					want = fmt.Sprintf("[i%d Tdefault]", k)
				}
				if fmt.Sprint(log) != want {
					fail = fmt.Sprintf("registration order %v: a request through instance %d gave the call log %v, want %s", order, k, log, want)
					return
				}
			}
		})
		if http.DefaultClient.Transport != savedClientTransport && fail == "" {
			fail = "constructing default instances replaced the Transport of the process-wide http.DefaultClient"
		}
		http.DefaultTransport, http.DefaultClient.Transport = savedTransport, savedClientTransport
		if p != "" {
			fail = "panic: " + p
		}
		if fail != "" {
			r.Violation("C18|default-constructors|independent-instances", fail, map[string]interface{}{"order": order})
		}
	}
	return n
}

// nestedRequests: an interceptor that itself makes a request through the same SimpleHTTP (a token refresh,
// an audit call): the inner request passes the whole chain too, then the outer one continues.
func nestedRequests(r *lib.Report) int64 {
	var n int64
	for pos := 0; pos < 3; pos++ { // position of the nesting interceptor among three
		var log []string
		var h *network.SimpleHTTPDef
		nested := false
		mk := func(name string) *network.Interceptor {
			var ic network.Interceptor = func(req *http.Request) error { log = append(log, name); return nil }
			return &ic
		}
		var nest network.Interceptor = func(req *http.Request) error {
			log = append(log, "nest")
			if !nested {
				nested = true
				if err := h.Head("http://api.test/inner").Err; err != nil {
					log = append(log, "inner-error:"+err.Error())
				}
			}
			return nil
		}
		var ics []*network.Interceptor
		var names []string
		plain := []string{"a", "b"}
		for i := 0; i < 3; i++ {
			if i == pos {
				ics, names = append(ics, &nest), append(names, "nest")
			} else {
				ics, names = append(ics, mk(plain[0])), append(names, plain[0])
				plain = plain[1:]
			}
		}
		fail := ""
		p := lib.Catch(func() {
			h = network.NewSimpleHTTPWithClientAndInterceptors(&http.Client{Transport: roundTripFunc(func(req *http.Request) (*http.Response, error) {
				log = append(log, "T:"+req.Method)
				return &http.Response{StatusCode: 200, Status: "200 OK", Proto: "HTTP/1.1", ProtoMajor: 1, ProtoMinor: 1, Header: http.Header{}, Body: http.NoBody, Request: req}, nil
			})}, ics...)
			for round := 0; round < 2; round++ {
				log, nested = nil, false
				n++
				if err := h.Get("http://api.test/outer").Err; err != nil {
					fail = "outer request failed: " + err.Error()
					return
				}
				var want []string
				want = append(want, names[:pos+1]...) // outer chain up to and including the nesting interceptor
				want = append(want, names...)         // the inner request: the whole chain
				want = append(want, "T:HEAD")
				want = append(want, names[pos+1:]...) // the outer chain continues
				want = append(want, "T:GET")
				if fmt.Sprint(log) != fmt.Sprint(want) {
					fail = fmt.Sprintf("interceptors %v, the one called nest makes a HEAD request through the same instance: call log %v, want %v", names, log, want)
					return
				}
			}
		})
		if p != "" {
			fail = "panic: " + p
		}
		if fail != "" {
			r.Violation("C18|nested-request|wrong-interceptors", fail, map[string]interface{}{"nesting_position": pos})
		}
	}
	return n
}

// contextRequests: "for every request made through a SimpleHTTP" includes requests whose context is already
// done when they are made (cancelled, or past its deadline - TimeoutMillisecond: 1 means one nanosecond) and
// requests whose context an interceptor gives up half-way: every registered interceptor up to the first
// failing one still runs exactly once, in order, and before the transport. (Whether the transport still
// sees a given-up request, and which error comes back, is not demanded.) All interceptor vectors of length
// 0..3 over {plain, cancelling, failing} x every entry point that takes or makes a context x context state.
func contextRequests(r *lib.Report) int64 {
	var n int64
	kinds := []string{"plain", "cancel", "fail"}
	entries := []string{"DoNewRequest", "DoNewRequestWithBodyOptions", "DoRequest", "Get(TimeoutMillisecond=1)", "Post(TimeoutMillisecond=1)"}
	for length := 0; length <= 3; length++ {
		total := 1
		for i := 0; i < length; i++ {
			total *= len(kinds)
		}
		for code := 0; code < total; code++ {
			vec := make([]string, length)
			for i, c := 0, code; i < length; i, c = i+1, c/len(kinds) {
				vec[i] = kinds[c%len(kinds)]
			}
			for _, entry := range entries {
				for _, state := range []string{"live", "cancelled", "expired"} {
					if strings.Contains(entry, "Timeout") && state != "live" {
						continue
					}
					var log []string
					var cancel context.CancelFunc
					var ics []*network.Interceptor
					var want []string
					failing := ""
					for i, k := range vec {
						name := fmt.Sprintf("%s%d", k, i)
						k := k
						var ic network.Interceptor = func(req *http.Request) error {
							log = append(log, name)
							switch k {
							case "cancel":
								if cancel != nil {
									cancel()
								}
							case "fail":
								return errors.New(name + " failed")
							}
							return nil
						}
						ics = append(ics, &ic)
						if failing == "" {
							want = append(want, name)
							if k == "fail" {
								failing = name
							}
						}
					}
					var h *network.SimpleHTTPDef
					if p := lib.Catch(func() {
						h = network.NewSimpleHTTPWithClientAndInterceptors(&http.Client{Transport: roundTripFunc(func(req *http.Request) (*http.Response, error) {
							log = append(log, "T")
							return &http.Response{StatusCode: 200, Status: "200 OK", Proto: "HTTP/1.1", ProtoMajor: 1, ProtoMinor: 1, Header: http.Header{}, Body: http.NoBody, Request: req}, nil
						})}, ics...)
					}); p != "" {
						r.Violation("C18|context|constructor-panic", "NewSimpleHTTPWithClientAndInterceptors with a client whose transport is a function value: "+p, nil)
						return n
					}
					ctx := context.Background()
					switch state {
					case "live":
						ctx, cancel = context.WithCancel(ctx)
					case "cancelled":
						var c context.CancelFunc
						ctx, c = context.WithCancel(ctx)
						c()
					case "expired":
						var c context.CancelFunc
						ctx, c = context.WithDeadline(ctx, time.Unix(1, 0))
						defer c()
					}
					var err error
					n++
					p := lib.Catch(func() {
						switch entry {
						case "DoNewRequest":
							err = h.DoNewRequest(ctx, nil, "GET", "http://api.test/x").Err
						case "DoNewRequestWithBodyOptions":
							err = h.DoNewRequestWithBodyOptions(ctx, nil, "POST", "http://api.test/x", strings.NewReader("b"), "text/plain").Err
						case "DoRequest":
							req, _ := http.NewRequestWithContext(ctx, "GET", "http://api.test/x", nil)
							err = h.DoRequest(req).Err
						case "Get(TimeoutMillisecond=1)":
							h.TimeoutMillisecond = 1
							err = h.Get("http://api.test/x").Err
						case "Post(TimeoutMillisecond=1)":
							h.TimeoutMillisecond = 1
							err = h.Post("http://api.test/x", "text/plain", strings.NewReader("b")).Err
						}
					})
					if cancel != nil {
						cancel()
					}
					fail := ""
					var gotIcs []string
					for i, e := range log {
						if e == "T" {
							if i != len(log)-1 {
								fail = fmt.Sprintf("the transport saw the request before the interceptors finished: call log %v", log)
							}
						} else {
							gotIcs = append(gotIcs, e)
						}
					}
					switch {
					case p != "":
						fail = "panic: " + p
					case fail != "":
					case fmt.Sprint(gotIcs) != fmt.Sprint(want):
						fail = fmt.Sprintf("interceptor calls %v, registered (up to the first failing one) %v", gotIcs, want)
					case failing != "" && len(log) > 0 && log[len(log)-1] == "T":
						fail = fmt.Sprintf("the transport was invoked although %s failed (log %v)", failing, log)
					case failing != "" && (err == nil || !strings.Contains(err.Error(), failing+" failed")):
						fail = fmt.Sprintf("the error of %s was not surfaced (Err=%v)", failing, err)
					}
					if fail != "" {
						r.Violation("C18|context|"+state, fmt.Sprintf("%s with a %s context, interceptors %v: %s", entry, state, vec, fail),
							map[string]interface{}{"entry_point": entry, "context": state, "interceptors": vec, "failure": fail})
					}
				}
			}
		}
	}
	return n
}

// lateBound: interceptors are registered by pointer and looked at when a request runs: a variable that is
// registered first and given (or given another) function afterwards is a registered interceptor like any
// other - it runs in its registration position, its error aborts, and RemoveInterceptor finds it by pointer.
func lateBound(r *lib.Report) int64 {
	var n int64
	for pos := 0; pos < 3; pos++ {
		for _, mode := range []string{"bound-after-registration", "rebound-after-a-request", "bound-late-and-failing", "bound-late-then-removed"} {
			var log []string
			mk := func(name string, fail bool) network.Interceptor {
				return func(req *http.Request) error {
					log = append(log, name)
					req.Header.Add("X-Seen", name)
					if fail {
						return errors.New(name + " failed")
					}
					return nil
				}
			}
			var late network.Interceptor // nil when it is registered
			a, b := mk("a", false), mk("b", false)
			ptrs := []*network.Interceptor{&a, &b}
			names := []string{"a", "b"}
			ptrs = append(ptrs[:pos], append([]*network.Interceptor{&late}, ptrs[pos:]...)...)
			names = append(names[:pos], append([]string{"late"}, names[pos:]...)...)
			var hdr []string
			var h *network.SimpleHTTPDef
			if p := lib.Catch(func() {
				h = network.NewSimpleHTTPWithClientAndInterceptors(&http.Client{Transport: roundTripFunc(func(req *http.Request) (*http.Response, error) {
					log = append(log, "T")
					hdr = append([]string{}, req.Header["X-Seen"]...)
					return &http.Response{StatusCode: 200, Status: "200 OK", Proto: "HTTP/1.1", ProtoMajor: 1, ProtoMinor: 1, Header: http.Header{}, Body: http.NoBody, Request: req}, nil
				})})
			}); p != "" {
				r.Violation("C18|late-bound|constructor-panic", "NewSimpleHTTPWithClientAndInterceptors with a client whose transport is a function value: "+p, nil)
				return n
			}
			fail := ""
			p := lib.Catch(func() {
				h.AddInterceptor(ptrs...)
				late = mk("late", mode == "bound-late-and-failing")
				want := append([]string{}, names...)
				switch mode {
				case "rebound-after-a-request":
					n++
					h.Get("http://api.test/x")
					late = mk("late2", false)
					want[pos] = "late2"
				case "bound-late-then-removed":
					h.RemoveInterceptor(&late)
					want = append(want[:pos], want[pos+1:]...)
				case "bound-late-and-failing":
					want = want[:pos+1]
				}
				log, hdr = nil, nil
				n++
				err := h.Get("http://api.test/x").Err
				wantLog := append([]string{}, want...)
				if mode != "bound-late-and-failing" {
					wantLog = append(wantLog, "T")
				}
				switch {
				case fmt.Sprint(log) != fmt.Sprint(wantLog):
					fail = fmt.Sprintf("call log %v, want %v", log, wantLog)
				case mode == "bound-late-and-failing" && (err == nil || !strings.Contains(err.Error(), "late failed")):
					fail = fmt.Sprintf("the error of the late-bound interceptor was not surfaced (Err=%v)", err)
				case mode != "bound-late-and-failing" && err != nil:
					fail = "request failed: " + err.Error()
				case mode != "bound-late-and-failing" && fmt.Sprint(hdr) != fmt.Sprint(want):
					fail = fmt.Sprintf("header changes %v reached the transport, want %v", hdr, want)
				}
			})
			if p != "" {
				fail = "panic: " + p
			}
			if fail != "" {
				r.Violation("C18|late-bound|"+mode, fmt.Sprintf("AddInterceptor(%v) where the variable 'late' is nil at registration and assigned before the request (%s): %s", names, mode, fail),
					map[string]interface{}{"position": pos, "mode": mode, "failure": fail})
			}
		}
	}
	return n
}

// countSweep: n interceptors for every n up to 40 (the registration list is a Stream: it grows, and may be
// re-allocated, at sizes the small histories never reach), registered one by one or in one call; a request,
// every third removed, a request, three more added, a request.
func countSweep(r *lib.Report) int64 {
	var n64 int64
	for n := 0; n <= 40; n++ {
		for _, oneCall := range []bool{false, true} {
			var log []string
			mk := func(id int) *network.Interceptor {
				var ic network.Interceptor = func(req *http.Request) error { log = append(log, fmt.Sprint(id)); return nil }
				return &ic
			}
			var ics []*network.Interceptor
			var live []int
			for id := 0; id < n; id++ {
				ics = append(ics, mk(id))
				live = append(live, id)
			}
			fail := ""
			p := lib.Catch(func() {
				h := network.NewSimpleHTTPWithClientAndInterceptors(&http.Client{Transport: roundTripFunc(func(req *http.Request) (*http.Response, error) {
					log = append(log, "T")
					return &http.Response{StatusCode: 200, Status: "200 OK", Proto: "HTTP/1.1", ProtoMajor: 1, ProtoMinor: 1, Header: http.Header{}, Body: http.NoBody, Request: req}, nil
				})})
				if oneCall {
					h.AddInterceptor(ics...)
				} else {
					for _, ic := range ics {
						h.AddInterceptor(ic)
					}
				}
				step := func(what string) {
					log = nil
					n64++
					err := h.Get("http://api.test/x").Err
					var want []string
					for _, id := range live {
						want = append(want, fmt.Sprint(id))
					}
					want = append(want, "T")
					if fail == "" && (err != nil || fmt.Sprint(log) != fmt.Sprint(want)) {
						fail = fmt.Sprintf("%s: call log %v (Err=%v), registered %v", what, log, err, live)
					}
				}
				step(fmt.Sprintf("%d interceptors", n))
				var keep []int
				for i, id := range live {
					if i%3 == 2 {
						h.RemoveInterceptor(ics[id])
					} else {
						keep = append(keep, id)
					}
				}
				live = keep
				step(fmt.Sprintf("%d interceptors, every third removed", n))
				for k := 0; k < 3; k++ {
					ics = append(ics, mk(n+k))
					h.AddInterceptor(ics[n+k])
					live = append(live, n+k)
				}
				step(fmt.Sprintf("%d interceptors, every third removed, three added", n))
			})
			if p != "" {
				fail = "panic: " + p
			}
			if fail != "" {
				r.Violation("C18|count-sweep|wrong-interceptors", fmt.Sprintf("registered in one call=%v; %s", oneCall, fail), map[string]interface{}{"interceptors": n, "one_call": oneCall})
			}
		}
	}
	return n64
}

type roundTripFunc func(req *http.Request) (*http.Response, error)

func (f roundTripFunc) RoundTrip(req *http.Request) (*http.Response, error) { return f(req) }

func main() {
	r := lib.NewReport("C18")
	defer r.Guard()
	all := ops()
	depth := 4
	if r.Tier == "thorough" {
		depth = 5
	}
	seen := map[string]bool{}
	var trans int64
	var samples lib.Samples
	samples.N = 5
	type worldCfg struct {
		common []string
		depth  int
	}
	shallow := 2
	if r.Tier == "thorough" {
		shallow = 3
	}
	for _, wc := range []worldCfg{{[]string{"i0"}, depth}, {[]string{"i0", "i1", "i2"}, shallow}} {
		initialCommon = wc.common
		search(r, all, wc.depth, seen, &trans, &samples)
		if os.Getenv("C18_DEBUG") != "" {
			fmt.Fprintf(os.Stderr, "world %v depth %d: states so far %d, transitions %d\n", wc.common, wc.depth, len(seen), trans)
		}
	}
	if f := os.Getenv("C18_DUMP"); f != "" {
		var ks []string
		for k := range seen {
			ks = append(ks, k)
		}
		sort.Strings(ks)
		os.WriteFile(f, []byte(strings.Join(ks, "\n")), 0644)
	}
	// three instances, the client-wiring operations only: one client adopted by all three, re-adopted, replaced
	{
		nInst = 3
		initialCommon = []string{"i0"}
		var wiring []op
		for _, o := range all {
			if o.name == "Get" || o.name == "SetHTTPClient(client0)" || strings.Contains(o.name, "other instance") || strings.Contains(o.name, "same client again") {
				wiring = append(wiring, o)
			}
		}
		d3 := 3
		if r.Tier == "thorough" {
			d3 = 4
		}
		seen3 := map[string]bool{}
		search(r, wiring, d3, seen3, &trans, &samples)
		for k := range seen3 {
			seen["3:"+k] = true
		}
		nInst = 2
	}
	trans += defaultConstructors(r)
	trans += nestedRequests(r)
	trans += contextRequests(r)
	trans += lateBound(r)
	trans += countSweep(r)
	r.Cov["states"] = len(seen)
	r.Cov["transitions"] = trans
	r.Cov["traces_validated_against_impl"] = trans
	r.Cov["evaluations"] = trans
	r.Cov["distinct_nontrivial"] = len(seen)
	r.Cov["rule"] = "a state is the canonical dump of both SimpleHTTP objects (interceptor lists, client and transport wiring) plus the model lists; every transition replays the history on fresh objects and ends with a probe request on each instance"
	r.Cov["samples"] = samples.List
	r.Cov["bound"] = fmt.Sprintf("history depth %d over %d operations x 2 instances", depth, len(all))
	r.Assume = []string{"stub transports; clients always carry a transport (a nil transport would mean http.DefaultTransport, i.e. the network)",
		"after switching clients, which of the stub transports receives the request is not demanded (the property fixes that exactly one transport call follows the interceptors)"}
	r.Finish()
}
