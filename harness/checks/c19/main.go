// C19: sorting yields an ordered, stable permutation; descriptors sort by key list.
// Engine E3: all record lists up to length 4 (thorough 5) over 6 (key, second key) symbols with
// unique tags, run-structured long lists (21, 22, 65, 66, 130 elements: the merge path of the stable
// sort and any size threshold), all comparator / direction choices, all descriptor stacks of 1-3 keys.
package main

import (
	"fmt"
	"math"
	"sort"
	"strings"

	fpgo "github.com/TeaEntityLab/fpGo/v2"
	"verifharness/lib"
)

type rec struct {
	K   int
	S   string
	Tag int
}

// Row is the record type of the descriptor part.
type Row struct {
	K1  fpgo.ComparableOrdered[int]
	K2  fpgo.ComparableString
	K3  int
	Tag int
}

var r *lib.Report
var evals, inputs int64

func bad(api, clause, format string, a ...interface{}) {
	r.Violation(fmt.Sprintf("C19|%s|%s", api, clause), fmt.Sprintf(format, a...), map[string]interface{}{"api": api, "failure": fmt.Sprintf(format, a...)})
}

type cmpSpec struct {
	name   string
	less   func(a, b rec) bool
	strict bool
}

func comparators() []cmpSpec {
	return []cmpSpec{
		{"K<", func(a, b rec) bool { return a.K < b.K }, true},
		{"K>", func(a, b rec) bool { return a.K > b.K }, true},
		{"S<", func(a, b rec) bool { return a.S < b.S }, true},
		{"K<=", func(a, b rec) bool { return a.K <= b.K }, false}, // not a strict order: only permutation + no inversion of distinguishable elements
	}
}

func render(l []rec) string {
	var p []string
	for _, x := range l {
		p = append(p, fmt.Sprintf("%d%s#%d", x.K, x.S, x.Tag))
	}
	return "[" + strings.Join(p, " ") + "]"
}

// verdict checks out against in for comparator c.
func verdict(in, out []rec, c cmpSpec) string {
	if len(in) != len(out) {
		return fmt.Sprintf("length %d -> %d", len(in), len(out))
	}
	seen := map[int]rec{}
	for _, x := range in {
		seen[x.Tag] = x
	}
	used := map[int]bool{}
	for _, x := range out {
		o, ok := seen[x.Tag]
		if !ok || used[x.Tag] || o != x {
			return "not a permutation of the input"
		}
		used[x.Tag] = true
	}
	strictBefore := func(a, b rec) bool { return c.less(a, b) && !c.less(b, a) }
	for i := 0; i < len(out); i++ {
		// (the comparators used are weak orders: for the long lists adjacent pairs decide orderedness; short
		// lists are checked pairwise)
		jmax := len(out)
		if len(out) > 12 && i+2 < jmax {
			jmax = i + 2
		}
		for j := i + 1; j < jmax; j++ {
			if strictBefore(out[j], out[i]) {
				return fmt.Sprintf("not ordered: %v precedes %v although the comparator places the latter strictly first", out[i], out[j])
			}
		}
	}
	if c.strict {
		pos := map[int]int{}
		for i, x := range in {
			pos[x.Tag] = i
		}
		for i := 0; i+1 < len(out); i++ {
			a, b := out[i], out[i+1]
			if !c.less(a, b) && !c.less(b, a) && pos[a.Tag] > pos[b.Tag] {
				return fmt.Sprintf("not stable: %v and %v are not distinguished by the comparator but changed their input order", b, a)
			}
		}
	}
	return ""
}

func cp(l []rec) []rec { return append([]rec{}, l...) }

func sortAPIs(in []rec, c cmpSpec, long bool) {
	type api struct {
		name string
		run  func(l []rec) []rec
	}
	apis := []api{
		{"Sort", func(l []rec) []rec { fpgo.Sort(c.less, l); return l }},
		{"SortSlice", func(l []rec) []rec { return fpgo.SortSlice(c.less, l...) }},
		{"Stream.Sort", func(l []rec) []rec {
			s := fpgo.StreamFromArray(l)
			out := s.Sort(c.less).ToArray()
			if render(s.ToArray()) != render(in) {
				bad("Stream.Sort", "receiver-modified", "Stream.Sort changed its receiver %s", render(in))
			}
			return out
		}},
		{"Stream.SortByIndex", func(l []rec) []rec {
			s := fpgo.StreamFromArray(l)
			// the sort.Slice idiom: the comparator indexes the slice handed to the stream
			return s.SortByIndex(func(i, j int) bool { return c.less(l[i], l[j]) }).ToArray()
		}},
		{"StreamForInterface.Sort", func(l []rec) []rec {
			il := make([]interface{}, len(l))
			for i, x := range l {
				il[i] = x
			}
			out := fpgo.StreamForInterface.FromArray(il).Sort(func(a, b interface{}) bool { return c.less(a.(rec), b.(rec)) }).ToArray()
			res := make([]rec, len(out))
			for i, x := range out {
				res[i] = x.(rec)
			}
			return res
		}},
		{"StreamForInterface.SortByIndex", func(l []rec) []rec {
			il := make([]interface{}, len(l))
			for i, x := range l {
				il[i] = x
			}
			out := fpgo.StreamForInterface.FromArray(il).SortByIndex(func(i, j int) bool { return c.less(il[i].(rec), il[j].(rec)) }).ToArray()
			res := make([]rec, len(out))
			for i, x := range out {
				res[i] = x.(rec)
			}
			return res
		}},
	}
	for _, a := range apis {
		evals++
		var out []rec
		l := cp(in)
		if p := lib.Catch(func() { out = a.run(l) }); p != "" {
			bad(a.name, "panic", "%s with %s on %s: %s", a.name, c.name, render(in), p)
			continue
		}
		if v := verdict(in, out, c); v != "" {
			clause := "ordered"
			if strings.HasPrefix(v, "not stable") {
				clause = "stable"
			} else if strings.Contains(v, "permutation") || strings.HasPrefix(v, "length") {
				clause = "permutation"
			}
			if long {
				clause += "|long-list"
			}
			bad(a.name, clause, "%s with comparator %s on %d elements %s gives %s: %s", a.name, c.name, len(in), short(in), short(out), v)
		}
	}
}

func short(l []rec) string {
	if len(l) <= 8 {
		return render(l)
	}
	return render(l[:4]) + "..." + render(l[len(l)-3:])
}

func ordered(in []rec) {
	keys := make([]int, len(in))
	for i, x := range in {
		keys[i] = x.K
	}
	want := append([]int{}, keys...)
	sort.Ints(want)
	desc := make([]int, len(want))
	for i, v := range want {
		desc[len(want)-1-i] = v
	}
	for _, t := range []struct {
		name string
		f    func(l []int) []int
		want []int
	}{
		{"SortOrderedAscending", func(l []int) []int { return fpgo.SortOrderedAscending(l...) }, want},
		{"SortOrderedDescending", func(l []int) []int { return fpgo.SortOrderedDescending(l...) }, desc},
		{"SortOrdered(true)", func(l []int) []int { return fpgo.SortOrdered(true, l...) }, want},
		{"SortOrdered(false)", func(l []int) []int { return fpgo.SortOrdered(false, l...) }, desc},
	} {
		evals++
		var out []int
		if p := lib.Catch(func() { out = t.f(append([]int{}, keys...)) }); p != "" {
			bad(t.name, "panic", "%s(%v): %s", t.name, keys, p)
		} else if fmt.Sprint(out) != fmt.Sprint(t.want) {
			bad(t.name, "ordered", "%s(%v) = %v, want %v", t.name, keys, out, t.want)
		}
	}
}

// orderedFloats: Ordered values that compare equal yet can be told apart exist: +0 and -0. Sorting them in either
// direction is stable - the zeroes keep the order (of signs) they had in the input. All lists up to length 5 over
// {+0, -0, 1.5}, and two lists of 13 and 17 elements.
func orderedFloats() {
	negZero := math.Copysign(0, -1)
	syms := []float64{0, negZero, 1.5}
	var lists [][]float64
	var gen func(cur []float64, n int)
	gen = func(cur []float64, n int) {
		if len(cur) == n {
			lists = append(lists, append([]float64{}, cur...))
			return
		}
		for _, v := range syms {
			gen(append(cur, v), n)
		}
	}
	for n := 2; n <= 5; n++ {
		gen(nil, n)
	}
	for _, n := range []int{13, 17} {
		var l []float64
		for i := 0; i < n; i++ {
			l = append(l, syms[(i*i+i/3)%3])
		}
		lists = append(lists, l)
	}
	signs := func(l []float64) string {
		var b []byte
		for _, v := range l {
			if v == 0 {
				if math.Signbit(v) {
					b = append(b, '-')
				} else {
					b = append(b, '+')
				}
			}
		}
		return string(b)
	}
	for _, in := range lists {
		inputs++
		for _, t := range []struct {
			name string
			asc  bool
			f    func(l []float64) []float64
		}{
			{"SortOrderedAscending", true, func(l []float64) []float64 { return fpgo.SortOrderedAscending(l...) }},
			{"SortOrderedDescending", false, func(l []float64) []float64 { return fpgo.SortOrderedDescending(l...) }},
			{"SortOrdered(true)", true, func(l []float64) []float64 { return fpgo.SortOrdered(true, l...) }},
			{"SortOrdered(false)", false, func(l []float64) []float64 { return fpgo.SortOrdered(false, l...) }},
		} {
			evals++
			var out []float64
			if p := lib.Catch(func() { out = t.f(append([]float64{}, in...)) }); p != "" {
				bad(t.name, "panic", "%s(%v): %s", t.name, in, p)
				continue
			}
			ok := len(out) == len(in)
			for i := 0; ok && i+1 < len(out); i++ {
				ok = (t.asc && out[i] <= out[i+1]) || (!t.asc && out[i] >= out[i+1])
			}
			if !ok {
				bad(t.name, "ordered", "%s(%v) = %v", t.name, in, out)
			} else if signs(out) != signs(in) {
				bad(t.name, "stable|signed-zeroes", "%s on %v: the zeroes come out with the signs %q, they went in as %q (equal elements keep their input order)", t.name, in, signs(out), signs(in))
			}
		}
	}
}

// ---- descriptors ----

type keySpec struct {
	name string
	add  func(b fpgo.SortDescriptorsBuilder[Row], asc bool) fpgo.SortDescriptorsBuilder[Row]
	cmp  func(a, b Row) int                      // natural order of the key
	desc func(asc bool) fpgo.SortDescriptor[Row] // the same key as a descriptor object (for ThenWith)
}

func keySpecs() []keySpec {
	return []keySpec{
		{"K1(transformer,ComparableOrdered)", func(b fpgo.SortDescriptorsBuilder[Row], asc bool) fpgo.SortDescriptorsBuilder[Row] {
			return b.ThenWithTransformerFunctor(func(x Row) fpgo.Comparable[interface{}] { return x.K1 }, asc)
		}, func(a, b Row) int { return a.K1.Val - b.K1.Val }, nil},
		{"K2(field name,ComparableString)", func(b fpgo.SortDescriptorsBuilder[Row], asc bool) fpgo.SortDescriptorsBuilder[Row] {
			return b.ThenWithFieldName("K2", asc)
		}, func(a, b Row) int { return strings.Compare(a.K2.Val, b.K2.Val) }, nil},
		{"K3(transformer,ComparableOrdered)", func(b fpgo.SortDescriptorsBuilder[Row], asc bool) fpgo.SortDescriptorsBuilder[Row] {
			return b.ThenWithTransformerFunctor(func(x Row) fpgo.Comparable[interface{}] { return fpgo.NewComparableOrdered(x.K3) }, asc)
		}, func(a, b Row) int { return a.K3 - b.K3 }, nil},
		{"K1(field name,ComparableOrdered)", func(b fpgo.SortDescriptorsBuilder[Row], asc bool) fpgo.SortDescriptorsBuilder[Row] {
			return b.ThenWithFieldName("K1", asc)
		}, func(a, b Row) int { return a.K1.Val - b.K1.Val }, nil},
		{"K2(transformer,ComparableString)", func(b fpgo.SortDescriptorsBuilder[Row], asc bool) fpgo.SortDescriptorsBuilder[Row] {
			return b.ThenWithTransformerFunctor(func(x Row) fpgo.Comparable[interface{}] { return x.K2 }, asc)
		}, func(a, b Row) int { return strings.Compare(a.K2.Val, b.K2.Val) }, nil},
	}
}

// withDescs adds the descriptor-object form of every key.
func withDescs(specs []keySpec) []keySpec {
	tf := []func(x Row) fpgo.Comparable[interface{}]{
		func(x Row) fpgo.Comparable[interface{}] { return x.K1 },
		nil,
		func(x Row) fpgo.Comparable[interface{}] { return fpgo.NewComparableOrdered(x.K3) },
		nil,
		func(x Row) fpgo.Comparable[interface{}] { return x.K2 },
	}
	field := []string{"", "K2", "", "K1", ""}
	for i := range specs {
		i := i
		if field[i] != "" {
			specs[i].desc = func(asc bool) fpgo.SortDescriptor[Row] { return fpgo.NewFieldSortDescriptor[Row](field[i], asc) }
		} else {
			specs[i].desc = func(asc bool) fpgo.SortDescriptor[Row] { return fpgo.NewSimpleSortDescriptor(tf[i], asc) }
		}
	}
	return specs
}

func renderRows(l []Row) string {
	var p []string
	for _, x := range l {
		p = append(p, fmt.Sprintf("%d%s%d#%d", x.K1.Val, x.K2.Val, x.K3, x.Tag))
	}
	return "[" + strings.Join(p, " ") + "]"
}

var skipLongRows bool

func descriptors(maxLen int) {
	specs := withDescs(keySpecs())
	// rows over K1 in {0,1}, K2 in {a,b}, K3 in {0,1}: 8 symbols
	var syms []Row
	for k1 := 0; k1 < 2; k1++ {
		for _, k2 := range []string{"a", "b"} {
			for k3 := 0; k3 < 2; k3++ {
				syms = append(syms, Row{K1: fpgo.NewComparableOrdered(k1), K2: fpgo.NewComparableString(k2), K3: k3})
			}
		}
	}
	var lists [][]Row
	var gen func(cur []Row, n int)
	gen = func(cur []Row, n int) {
		if len(cur) == n {
			l := append([]Row{}, cur...)
			for i := range l {
				l[i].Tag = i
			}
			lists = append(lists, l)
			return
		}
		for _, s := range syms {
			gen(append(cur, s), n)
		}
	}
	for n := 0; n <= maxLen; n++ {
		gen(nil, n)
	}
	// long row lists (merge path of the stable sort): runs of two symbols, all compositions of 23 into <= 3 runs
	for a := 1; a <= 23 && !skipLongRows; a++ {
		for b2 := 0; a+b2 <= 23; b2++ {
			c3 := 23 - a - b2
			var l []Row
			for i, run := range []int{a, b2, c3} {
				for j := 0; j < run; j++ {
					rw := syms[(i*5+1)%len(syms)]
					rw.K3 = j % 2
					rw.Tag = len(l)
					l = append(l, rw)
				}
			}
			lists = append(lists, l)
		}
	}
	// descriptor stacks: ordered selections of 1..3 distinct keys among K1, K2, K3 (API variants alternate) x directions
	type stack struct {
		keys []int
		asc  []bool
	}
	var stacks []stack
	keyIdx := [][]int{{0}, {1}, {2}, {3}, {4}, {0, 1}, {1, 0}, {1, 2}, {2, 4}, {3, 2}, {0, 1, 2}, {2, 1, 0}, {4, 2, 3}}
	for _, ks := range keyIdx {
		for m := 0; m < 1<<len(ks); m++ {
			st := stack{keys: ks}
			for i := range ks {
				st.asc = append(st.asc, m&(1<<i) != 0)
			}
			stacks = append(stacks, st)
		}
	}
	// All builders are derived before any of them is used, and every stack that extends the same prefix is
	// derived from the one builder value of that prefix (a builder is a value: deriving a second stack from
	// a prefix must not change the first).
	root := fpgo.NewSortDescriptorsBuilder[Row]()
	memo := map[string]fpgo.SortDescriptorsBuilder[Row]{"": root}
	var derive func(keys []int, asc []bool) fpgo.SortDescriptorsBuilder[Row]
	derive = func(keys []int, asc []bool) fpgo.SortDescriptorsBuilder[Row] {
		sig := fmt.Sprint(keys, asc)
		if len(keys) == 0 {
			return root
		}
		if b, ok := memo[sig]; ok {
			return b
		}
		n := len(keys) - 1
		b := specs[keys[n]].add(derive(keys[:n], asc[:n]), asc[n])
		memo[sig] = b
		return b
	}
	built := make([]fpgo.SortDescriptorsBuilder[Row], len(stacks))
	for i, st := range stacks {
		built[i] = derive(st.keys, st.asc)
	}
	for si, st := range stacks {
		b := built[si]
		var names []string
		for i, k := range st.keys {
			dir := "desc"
			if st.asc[i] {
				dir = "asc"
			}
			names = append(names, specs[k].name+" "+dir)
		}
		if got := len(b.GetSortDescriptors()); got != len(st.keys) {
			bad("Builder", "stack-length", "the builder derived for %v holds %d descriptors", names, got)
			continue
		}
		cmp := func(a, c Row) int {
			for i, k := range st.keys {
				d := specs[k].cmp(a, c)
				if !st.asc[i] {
					d = -d
				}
				if d != 0 {
					return d
				}
			}
			return 0
		}
		for _, in := range lists {
			inputs++
			var objs []fpgo.SortDescriptor[Row]
			for i, k := range st.keys {
				objs = append(objs, specs[k].desc(st.asc[i]))
			}
			for _, api := range []string{"ToSortedList", "SortedListBySortDescriptors", "Builder.Sort", "ThenWith(descriptors).ToSortedList", "SortBySortDescriptors"} {
				evals++
				l := append([]Row{}, in...)
				var out []Row
				p := lib.Catch(func() {
					switch api {
					case "ThenWith(descriptors).ToSortedList":
						out = fpgo.NewSortDescriptorsBuilder[Row]().ThenWith(objs...).ToSortedList(l...)
					case "SortBySortDescriptors":
						fpgo.SortBySortDescriptors(objs, l)
						out = l
					case "ToSortedList":
						out = b.ToSortedList(l...)
					case "SortedListBySortDescriptors":
						out = fpgo.SortedListBySortDescriptors(b.GetSortDescriptors(), l...)
					default:
						b.Sort(l)
						out = l
					}
				})
				if p != "" {
					bad(api, "panic", "%s by %v on %s: %s", api, names, renderRows(in), p)
					continue
				}
				if api != "Builder.Sort" && api != "SortBySortDescriptors" && renderRows(l) != renderRows(in) {
					bad(api, "input-modified", "%s by %v changed its input %s to %s", api, names, renderRows(in), renderRows(l))
				}
				if len(out) != len(in) {
					bad(api, "permutation", "%s by %v on %s returned %d elements", api, names, renderRows(in), len(out))
					continue
				}
				tags := map[int]bool{}
				ok := true
				for _, x := range out {
					if tags[x.Tag] || x.Tag >= len(in) || x != in[x.Tag] {
						ok = false
					}
					tags[x.Tag] = true
				}
				if !ok {
					bad(api, "permutation", "%s by %v on %s gives %s: not a permutation", api, names, renderRows(in), renderRows(out))
					continue
				}
				for i := 0; i+1 < len(out); i++ {
					if cmp(out[i], out[i+1]) > 0 {
						kind := "ComparableOrdered"
						for _, k := range st.keys {
							if strings.Contains(specs[k].name, "ComparableString") {
								kind = "with-ComparableString"
							}
						}
						bad(api, "lexicographic|"+kind, "%s by %v on %s gives %s: %v precedes %v", api, names, renderRows(in), renderRows(out), out[i], out[i+1])
						break
					}
				}
			}
		}
	}
}

// RowB has the field names of Row at other positions; RowP rows are sorted through pointers.
type RowB struct {
	Pad int
	K2  fpgo.ComparableString
	Tag int
	K1  fpgo.ComparableOrdered[int]
}

// fieldNameTypes: field-name descriptors resolve the field on the type of the rows they are given: the
// same names on Row (already sorted above), on RowB (other positions) and on *Row.
func fieldNameTypes(maxLen int) {
	type stack struct {
		keys []string
		asc  []bool
	}
	var stacks []stack
	for _, ks := range [][]string{{"K1"}, {"K2"}, {"K1", "K2"}, {"K2", "K1"}} {
		for m := 0; m < 1<<len(ks); m++ {
			st := stack{keys: ks}
			for i := range ks {
				st.asc = append(st.asc, m&(1<<i) != 0)
			}
			stacks = append(stacks, st)
		}
	}
	type kv struct {
		k1  int
		k2  string
		tag int
	}
	var lists [][]kv
	var gen func(cur []kv, n int)
	gen = func(cur []kv, n int) {
		if len(cur) == n {
			l := append([]kv{}, cur...)
			for i := range l {
				l[i].tag = i
			}
			lists = append(lists, l)
			return
		}
		for k1 := 0; k1 < 2; k1++ {
			for _, k2 := range []string{"a", "b"} {
				gen(append(cur, kv{k1: k1, k2: k2}), n)
			}
		}
	}
	for n := 0; n <= maxLen; n++ {
		gen(nil, n)
	}
	cmpKV := func(st stack, a, c kv) int {
		for i, k := range st.keys {
			d := a.k1 - c.k1
			if k == "K2" {
				d = strings.Compare(a.k2, c.k2)
			}
			if !st.asc[i] {
				d = -d
			}
			if d != 0 {
				return d
			}
		}
		return 0
	}
	judge := func(typ string, st stack, in, out []kv) {
		if len(out) != len(in) {
			bad("ToSortedList", "permutation", "[]%s by field names %v %v on %v returned %d elements", typ, st.keys, st.asc, in, len(out))
			return
		}
		seen := map[int]bool{}
		for _, x := range out {
			if seen[x.tag] || x.tag >= len(in) || x != in[x.tag] {
				bad("ToSortedList", "permutation", "[]%s by field names %v %v on %v gives %v: not a permutation", typ, st.keys, st.asc, in, out)
				return
			}
			seen[x.tag] = true
		}
		for i := 0; i+1 < len(out); i++ {
			if cmpKV(st, out[i], out[i+1]) > 0 {
				bad("ToSortedList", "lexicographic|field-name-on-"+typ, "[]%s by field names %v %v on %v gives %v", typ, st.keys, st.asc, in, out)
				return
			}
		}
	}
	for _, st := range stacks {
		bB := fpgo.NewSortDescriptorsBuilder[RowB]()
		bP := fpgo.NewSortDescriptorsBuilder[*Row]()
		for i, k := range st.keys {
			bB = bB.ThenWithFieldName(k, st.asc[i])
			bP = bP.ThenWithFieldName(k, st.asc[i])
		}
		for _, in := range lists {
			inputs++
			var rowsB []RowB
			var rowsP []*Row
			for _, x := range in {
				rowsB = append(rowsB, RowB{Pad: 9 - x.tag, K1: fpgo.NewComparableOrdered(x.k1), K2: fpgo.NewComparableString(x.k2), Tag: x.tag})
				rowsP = append(rowsP, &Row{K1: fpgo.NewComparableOrdered(x.k1), K2: fpgo.NewComparableString(x.k2), K3: 9 - x.tag, Tag: x.tag})
			}
			evals += 2
			var outB []RowB
			if p := lib.Catch(func() { outB = bB.ToSortedList(rowsB...) }); p != "" {
				bad("ToSortedList", "panic", "[]RowB by field names %v on %v: %s", st.keys, in, p)
			} else {
				var o []kv
				for _, x := range outB {
					o = append(o, kv{x.K1.Val, x.K2.Val, x.Tag})
				}
				judge("RowB", st, in, o)
			}
			var outP []*Row
			if p := lib.Catch(func() { outP = bP.ToSortedList(rowsP...) }); p != "" {
				bad("ToSortedList", "panic", "[]*Row by field names %v on %v: %s", st.keys, in, p)
			} else {
				var o []kv
				for _, x := range outP {
					o = append(o, kv{x.K1.Val, x.K2.Val, x.Tag})
				}
				judge("*Row", st, in, o)
			}
		}
	}
}

// localTypeA / localTypeB: two different function-local record types that print alike ("main.Local") and
// keep the same field names at different positions. Each sorts [2 0 1] (K1) x [c a b] (K2) by field name.
func localTypeA(field string, asc bool) (string, string) {
	type Local struct {
		K1  fpgo.ComparableOrdered[int]
		K2  fpgo.ComparableString
		Tag int
	}
	rows := []Local{{fpgo.NewComparableOrdered(2), fpgo.NewComparableString("c"), 0}, {fpgo.NewComparableOrdered(0), fpgo.NewComparableString("b"), 1}, {fpgo.NewComparableOrdered(1), fpgo.NewComparableString("a"), 2}}
	out := ""
	p := lib.Catch(func() {
		for _, x := range fpgo.NewSortDescriptorsBuilder[Local]().ThenWithFieldName(field, asc).ToSortedList(rows...) {
			out += fmt.Sprintf("%d%s ", x.K1.Val, x.K2.Val)
		}
	})
	return out, p
}

func localTypeB(field string, asc bool) (string, string) {
	type Local struct {
		Tag int
		K2  fpgo.ComparableString
		Pad fpgo.ComparableOrdered[int]
		K1  fpgo.ComparableOrdered[int]
	}
	rows := []Local{{0, fpgo.NewComparableString("c"), fpgo.NewComparableOrdered(5), fpgo.NewComparableOrdered(2)}, {1, fpgo.NewComparableString("b"), fpgo.NewComparableOrdered(9), fpgo.NewComparableOrdered(0)},
		{2, fpgo.NewComparableString("a"), fpgo.NewComparableOrdered(7), fpgo.NewComparableOrdered(1)}}
	out := ""
	p := lib.Catch(func() {
		for _, x := range fpgo.NewSortDescriptorsBuilder[Local]().ThenWithFieldName(field, asc).ToSortedList(rows...) {
			out += fmt.Sprintf("%d%s ", x.K1.Val, x.K2.Val)
		}
	})
	return out, p
}

func localTypes() {
	want := map[string]string{"K1 true": "0b 1a 2c ", "K1 false": "2c 1a 0b ", "K2 true": "1a 0b 2c ", "K2 false": "2c 0b 1a "}
	for round := 0; round < 2; round++ {
		for _, field := range []string{"K1", "K2"} {
			for _, asc := range []bool{true, false} {
				for ti, f := range []func(string, bool) (string, string){localTypeA, localTypeB} {
					evals++
					got, p := f(field, asc)
					if p != "" {
						bad("ToSortedList", "panic", "rows of local type #%d by field %s: %s", ti, field, p)
					} else if got != want[fmt.Sprint(field, " ", asc)] {
						bad("ToSortedList", "lexicographic|field-name-on-second-local-type", "rows of function-local type #%d (both types print as main.Local) by field %s ascending=%v: %s, want %s", ti, field, asc, got, want[fmt.Sprint(field, " ", asc)])
					}
				}
			}
		}
	}
}

// extremeKeys: integer keys of the largest magnitudes (a comparison done by subtraction overflows), all lists
// up to length 3 over {MinInt64+5, -1, 0, MaxInt64-3}, both key routes and directions.
func extremeKeys() {
	vals := []int64{math.MinInt64 + 5, -1, 0, math.MaxInt64 - 3}
	type R struct {
		K   fpgo.ComparableOrdered[int64]
		Tag int
	}
	var lists [][]R
	var gen func(cur []R, n int)
	gen = func(cur []R, n int) {
		if len(cur) == n {
			l := append([]R{}, cur...)
			for i := range l {
				l[i].Tag = i
			}
			lists = append(lists, l)
			return
		}
		for _, v := range vals {
			gen(append(cur, R{K: fpgo.NewComparableOrdered(v)}), n)
		}
	}
	for n := 2; n <= 3; n++ {
		gen(nil, n)
	}
	for _, asc := range []bool{true, false} {
		for _, route := range []string{"field", "transformer"} {
			b := fpgo.NewSortDescriptorsBuilder[R]()
			if route == "field" {
				b = b.ThenWithFieldName("K", asc)
			} else {
				b = b.ThenWithTransformerFunctor(func(x R) fpgo.Comparable[interface{}] { return x.K }, asc)
			}
			for _, in := range lists {
				evals++
				inputs++
				var out []R
				if p := lib.Catch(func() { out = b.ToSortedList(in...) }); p != "" {
					bad("ToSortedList", "panic", "int64 keys %v: %s", in, p)
					continue
				}
				okPerm := len(out) == len(in)
				for i := 0; okPerm && i+1 < len(out); i++ {
					a, c := out[i].K.Val, out[i+1].K.Val
					if (asc && a > c) || (!asc && a < c) {
						bad("ToSortedList", "lexicographic|extreme-int64-keys", "keys %v sorted %s (ascending=%v) give %v", in, route, asc, out)
						break
					}
				}
				if !okPerm {
					bad("ToSortedList", "permutation", "keys %v: %d elements returned", in, len(out))
				}
			}
		}
	}
}

// mixedDynamicTypes: rows held as interface{} values of two struct types that keep the key field at different
// positions, sorted by field name in one list.
func mixedDynamicTypes() {
	type A struct {
		K1  fpgo.ComparableOrdered[int]
		Tag int
	}
	type B struct {
		Tag int
		Pad fpgo.ComparableOrdered[int]
		K1  fpgo.ComparableOrdered[int]
	}
	key := func(x interface{}) int {
		switch r := x.(type) {
		case A:
			return r.K1.Val
		case B:
			return r.K1.Val
		case *A:
			return r.K1.Val
		}
		return -99
	}
	for code := 0; code < 81; code++ { // four rows, each one of: A / B / *A, key 0..2 (3^4 type patterns x a fixed key pattern)
		var in []interface{}
		c := code
		for i := 0; i < 4; i++ {
			k := (i*2 + 1) % 3
			switch c % 3 {
			case 0:
				in = append(in, A{K1: fpgo.NewComparableOrdered(k), Tag: i})
			case 1:
				in = append(in, B{Tag: i, Pad: fpgo.NewComparableOrdered(9 - k), K1: fpgo.NewComparableOrdered(k)})
			default:
				in = append(in, &A{K1: fpgo.NewComparableOrdered(k), Tag: i})
			}
			c /= 3
		}
		for _, asc := range []bool{true, false} {
			evals++
			inputs++
			var out []interface{}
			if p := lib.Catch(func() {
				out = fpgo.NewSortDescriptorsBuilder[interface{}]().ThenWithFieldName("K1", asc).ToSortedList(in...)
			}); p != "" {
				bad("ToSortedList", "panic", "rows of mixed dynamic types (pattern %d) by field K1: %s", code, p)
				continue
			}
			for i := 0; i+1 < len(out); i++ {
				a, c2 := key(out[i]), key(out[i+1])
				if len(out) != len(in) || (asc && a > c2) || (!asc && a < c2) {
					var ks []int
					for _, x := range out {
						ks = append(ks, key(x))
					}
					bad("ToSortedList", "lexicographic|mixed-dynamic-types", "rows of mixed dynamic types (pattern %d) by field K1 ascending=%v: keys come out as %v", code, asc, ks)
					break
				}
			}
		}
	}
}

// missingKeys: a transformer may have no key for a record (it returns nil). Two records that both lack a key
// tie on it, so the later descriptors decide between them; where a record without the key goes relative to
// one that has it is not demanded. Every pair of the output whose order the descriptors define (no
// missing-versus-present comparison before the deciding key) must be in that order. All lists up to a
// length over A in {missing, 0, 1} x B in {0,1} x C in {0,1}, stacks of 2..3 keys with A in every position.
type MRow struct {
	A, B, C int // A < 0: the record has no A key
	Tag     int
}

// callerOwnedDescriptorList: a builder made with ThenWith(list...) from a caller-owned slice keeps its own
// descriptors when the caller refills that slice for the next builder (and the second builder has its own).
func callerOwnedDescriptorList() {
	specs := withDescs(keySpecs())
	rows := []Row{}
	for k1 := 0; k1 < 2; k1++ {
		for k3 := 0; k3 < 2; k3++ {
			rows = append(rows, Row{K1: fpgo.NewComparableOrdered(k1), K2: fpgo.NewComparableString("a"), K3: k3, Tag: len(rows)})
		}
	}
	for _, n := range []int{1, 2, 3} {
		for _, spare := range []int{0, 4} {
			evals++
			inputs++
			scratch := make([]fpgo.SortDescriptor[Row], 0, n+spare)
			for i := 0; i < n; i++ {
				scratch = append(scratch, specs[[]int{0, 2, 1}[i]].desc(true)) // K1 asc, K3 asc, K2 asc
			}
			var b1, b2 fpgo.SortDescriptorsBuilder[Row]
			var out1, out2 []Row
			p := lib.Catch(func() {
				b1 = fpgo.NewSortDescriptorsBuilder[Row]().ThenWith(scratch...)
				scratch = scratch[:0]
				for i := 0; i < n; i++ {
					scratch = append(scratch, specs[[]int{0, 2, 1}[i]].desc(false)) // the same keys, all descending
				}
				b2 = fpgo.NewSortDescriptorsBuilder[Row]().ThenWith(scratch...)
				out1, out2 = b1.ToSortedList(rows...), b2.ToSortedList(rows...)
			})
			if p != "" {
				bad("ThenWith", "panic", "builders from a refilled descriptor slice: %s", p)
				continue
			}
			asc := func(a, c Row) int {
				if d := a.K1.Val - c.K1.Val; d != 0 || n == 1 {
					return d
				}
				return a.K3 - c.K3
			}
			for i := 0; i+1 < len(rows); i++ {
				if len(out1) != len(rows) || len(out2) != len(rows) || asc(out1[i], out1[i+1]) > 0 || asc(out2[i], out2[i+1]) < 0 {
					bad("ThenWith", "lexicographic|caller-owned-descriptor-list", "a builder made with ThenWith(list...) (%d ascending descriptors, %d spare slots in the caller's slice), the caller then refills the slice with descending descriptors for a second builder: the first sorts %s to %s, the second to %s", n, spare, renderRows(rows), renderRows(out1), renderRows(out2))
					break
				}
			}
		}
	}
}

// prefixStringKeys: string keys where one is the head of another (and the empty key): the natural order of
// ComparableString keys is the order of the strings. All lists of up to 3 rows over the keys "", "A", "AB",
// "ABC", "B", "AC"; the string key first or as a tie-breaker; both directions; field-name and transformer form.
func prefixStringKeys() {
	keys := []string{"", "A", "AB", "ABC", "B", "AC"}
	var lists [][]Row
	var gen func(cur []Row, n int)
	gen = func(cur []Row, n int) {
		if len(cur) == n {
			l := append([]Row{}, cur...)
			for i := range l {
				l[i].Tag = i
			}
			lists = append(lists, l)
			return
		}
		for _, k := range keys {
			gen(append(cur, Row{K1: fpgo.NewComparableOrdered(0), K2: fpgo.NewComparableString(k)}), n)
		}
	}
	for n := 2; n <= 3; n++ {
		gen(nil, n)
	}
	for _, form := range []string{"field", "transformer"} {
		for _, asc := range []bool{true, false} {
			for _, tie := range []bool{false, true} {
				b := fpgo.NewSortDescriptorsBuilder[Row]()
				if tie {
					b = b.ThenWithFieldName("K1", true) // K1 is 0 in every row: the string key decides everything
				}
				if form == "field" {
					b = b.ThenWithFieldName("K2", asc)
				} else {
					b = b.ThenWithTransformerFunctor(func(x Row) fpgo.Comparable[interface{}] { return x.K2 }, asc)
				}
				for _, in := range lists {
					inputs++
					evals++
					l := append([]Row{}, in...)
					var out []Row
					if p := lib.Catch(func() { out = b.ToSortedList(l...) }); p != "" {
						bad("ToSortedList", "panic|prefix-keys", "string keys %s: %s", renderRows(in), p)
						continue
					}
					ok := len(out) == len(in)
					for i := 0; ok && i+1 < len(out); i++ {
						c := strings.Compare(out[i].K2.Val, out[i+1].K2.Val)
						if !asc {
							c = -c
						}
						ok = c <= 0
					}
					if !ok {
						var ks []string
						for _, x := range out {
							ks = append(ks, fmt.Sprintf("%q", x.K2.Val))
						}
						bad("ToSortedList", "lexicographic|string-key-is-head-of-another", "rows sorted by the string key (%s descriptor, ascending=%v, as tie-breaker=%v) come out as %v", form, asc, tie, ks)
						break
					}
				}
			}
		}
	}
}

func missingKeys(maxLen int) {
	keyOf := func(k byte) func(x MRow) fpgo.Comparable[interface{}] {
		return func(x MRow) fpgo.Comparable[interface{}] {
			switch k {
			case 'A':
				if x.A < 0 {
					return nil
				}
				return fpgo.NewComparableOrdered(x.A)
			case 'B':
				return fpgo.NewComparableOrdered(x.B)
			}
			return fpgo.NewComparableOrdered(x.C)
		}
	}
	val := func(k byte, x MRow) int {
		switch k {
		case 'A':
			return x.A
		case 'B':
			return x.B
		}
		return x.C
	}
	var syms []MRow
	for a := -1; a <= 1; a++ {
		for b := 0; b < 2; b++ {
			for c := 0; c < 2; c++ {
				syms = append(syms, MRow{A: a, B: b, C: c})
			}
		}
	}
	var lists [][]MRow
	var gen func(cur []MRow, n int)
	gen = func(cur []MRow, n int) {
		if len(cur) == n {
			l := append([]MRow{}, cur...)
			for i := range l {
				l[i].Tag = i
			}
			lists = append(lists, l)
			return
		}
		for _, s := range syms {
			gen(append(cur, s), n)
		}
	}
	for n := 2; n <= maxLen; n++ {
		gen(nil, n)
	}
	// long lists (merge path): 25 records without the A key whose B and C keys run against the input order
	for _, period := range []int{1, 2, 3} {
		var l []MRow
		for i := 0; i < 25; i++ {
			a := -1
			if period == 3 && i%7 == 0 {
				a = 1
			}
			l = append(l, MRow{A: a, B: (24 - i) / period % 2, C: (24 - i) % 2, Tag: i})
		}
		lists = append(lists, l)
	}
	show := func(l []MRow) string {
		var p []string
		for _, x := range l {
			a := fmt.Sprint(x.A)
			if x.A < 0 {
				a = "-"
			}
			p = append(p, fmt.Sprintf("%s%d%d#%d", a, x.B, x.C, x.Tag))
		}
		return "[" + strings.Join(p, " ") + "]"
	}
	for _, keys := range []string{"AB", "BA", "ABC", "BAC", "BCA", "AC", "ACB"} {
		for m := 0; m < 1<<len(keys); m++ {
			b := fpgo.NewSortDescriptorsBuilder[MRow]()
			var names []string
			asc := make([]bool, len(keys))
			for i := range keys {
				asc[i] = m&(1<<i) != 0
				b = b.ThenWithTransformerFunctor(keyOf(keys[i]), asc[i])
				names = append(names, fmt.Sprintf("%c asc=%v", keys[i], asc[i]))
			}
			// defined order of a pair: +1 x must follow y, -1 x must precede y, 0 tie or not defined
			cmp := func(x, y MRow) int {
				for i := range keys {
					vx, vy := val(keys[i], x), val(keys[i], y)
					if keys[i] == 'A' && (vx < 0) != (vy < 0) {
						return 0 // missing versus present: not demanded
					}
					if keys[i] == 'A' && vx < 0 {
						continue // both missing: a tie on this key
					}
					d := vx - vy
					if !asc[i] {
						d = -d
					}
					if d != 0 {
						return d
					}
				}
				return 0
			}
			for _, in := range lists {
				inputs++
				for _, api := range []string{"ToSortedList", "SortedListBySortDescriptors", "Builder.Sort"} {
					evals++
					l := append([]MRow{}, in...)
					var out []MRow
					p := lib.Catch(func() {
						switch api {
						case "ToSortedList":
							out = b.ToSortedList(l...)
						case "SortedListBySortDescriptors":
							out = fpgo.SortedListBySortDescriptors(b.GetSortDescriptors(), l...)
						default:
							b.Sort(l)
							out = l
						}
					})
					if p != "" {
						bad(api, "panic|missing-key", "%s by %v on %s (- = no A key): %s", api, names, show(in), p)
						continue
					}
					if api != "Builder.Sort" && show(l) != show(in) {
						bad(api, "input-modified", "%s by %v changed its input %s to %s", api, names, show(in), show(l))
					}
					seen := map[int]bool{}
					ok := len(out) == len(in)
					for _, x := range out {
						if !ok || x.Tag >= len(in) || seen[x.Tag] || x != in[x.Tag] {
							ok = false
							break
						}
						seen[x.Tag] = true
					}
					if !ok {
						bad(api, "permutation", "%s by %v on %s gives %s: not a permutation", api, names, show(in), show(out))
						continue
					}
				pairs:
					for i := range out {
						for j := i + 1; j < len(out); j++ {
							if cmp(out[i], out[j]) > 0 {
								bad(api, "lexicographic|missing-key", "%s by %v on %s (- = the record has no A key) gives %s: %v precedes %v, which the later keys place first (two records without a key tie on it)", api, names, show(in), show(out), out[i], out[j])
								break pairs
							}
						}
					}
				}
			}
		}
	}
}

func main() {
	r = lib.NewReport("C19")
	defer r.Guard()
	maxLen, rowLen := 4, 3
	if r.Tier == "thorough" {
		maxLen, rowLen = 5, 4
	}
	// short lists: all lists over 6 symbols
	type sym struct {
		k int
		s string
	}
	var syms []sym
	for k := 0; k < 3; k++ {
		for _, s := range []string{"a", "b"} {
			syms = append(syms, sym{k, s})
		}
	}
	var samples lib.Samples
	samples.N = 4
	var gen func(cur []rec, n int)
	gen = func(cur []rec, n int) {
		if len(cur) == n {
			in := cp(cur)
			for i := range in {
				in[i].Tag = i
			}
			inputs++
			for _, c := range comparators() {
				sortAPIs(in, c, false)
			}
			ordered(in)
			if n == 4 && inputs%311 == 0 {
				samples.Add(render(in))
			}
			return
		}
		for _, s := range syms {
			gen(append(cur, rec{K: s.k, S: s.s}), n)
		}
	}
	for n := 0; n <= maxLen; n++ {
		gen(nil, n)
	}
	// long lists: alternating runs of two keys (run lengths = all compositions of n into at most R parts)
	// every length from 5 to 40 (a sort may pick its strategy by length: insertion sort below a cutoff, blocks of
	// a fixed size above it): all run-compositions into at most 3 parts, and three fixed pseudo-random key patterns
	// ... and a ladder around the powers of two up to 4097 (thorough 32769): a sort may switch to another algorithm
	// (an unstable one) above a size that no enumeration reaches
	sizes := []int{}
	for n := 5; n <= 40; n++ {
		sizes = append(sizes, n)
	}
	top := 4096
	if r.Tier == "thorough" {
		top = 32768
	}
	for p := 64; p <= top; p *= 2 {
		sizes = append(sizes, p-1, p, p+1, p+2, p+p/3)
	}
	for _, n := range sizes {
		for _, mul := range []int{7, 11, 13} {
			if n > 40 && mul == 13 {
				continue
			}
			var in []rec
			x := n * mul
			for i := 0; i < n; i++ {
				x = (x*1103515245 + 12345) & 0x7fffffff
				in = append(in, rec{K: (x >> 16) % 3, S: "a", Tag: i})
			}
			inputs++
			for _, c := range comparators() {
				sortAPIs(in, c, true)
			}
		}
	}
	for _, cfg := range []struct{ n, parts int }{{5, 3}, {6, 3}, {7, 3}, {8, 3}, {9, 3}, {10, 3}, {11, 3}, {12, 3}, {13, 3}, {14, 3}, {15, 3}, {16, 3}, {17, 3}, {18, 3}, {19, 3}, {20, 3},
		{21, 5}, {22, 4}, {65, 3}, {66, 3}, {130, 3}, {257, 2}} {
		var comp func(rest, parts int, cur []int)
		comp = func(rest, parts int, cur []int) {
			if rest == 0 {
				for start := 0; start < 2; start++ {
					var in []rec
					for ri, run := range cur {
						k := (start + ri) % 2
						for j := 0; j < run; j++ {
							in = append(in, rec{K: k, S: "a", Tag: len(in)})
						}
					}
					inputs++
					cs := comparators()
					sortAPIs(in, cs[0], true)
					sortAPIs(in, cs[1], true)
				}
				return
			}
			if parts == 0 {
				return
			}
			for take := 1; take <= rest; take++ {
				comp(rest-take, parts-1, append(cur, take))
			}
		}
		comp(cfg.n, cfg.parts, nil)
	}
	descriptors(rowLen)
	fieldNameTypes(rowLen)
	localTypes()
	extremeKeys()
	mixedDynamicTypes()
	missingKeys(rowLen)
	callerOwnedDescriptorList()
	prefixStringKeys()
	orderedFloats()
	// once more in the same process, after every record type, field name and stack has been sorted once (a
	// descriptor's meaning must not depend on what was sorted before); the row lists one element shorter
	skipLongRows = true
	descriptors(rowLen - 1)
	fieldNameTypes(rowLen - 1)
	localTypes()
	r.Cov["states"] = inputs
	r.Cov["transitions"] = evals
	r.Cov["traces_validated_against_impl"] = evals
	r.Cov["evaluations"] = evals
	r.Cov["distinct_nontrivial"] = inputs - 2
	r.Cov["rule"] = "states = input lists (all record lists up to the length bound, all run-compositions of the long lists, all row lists per descriptor stack); transitions = sort calls on the real functions; non-trivial = lists with at least 2 elements (counted as all but the two shortest)"
	r.Cov["samples"] = samples.List
	r.Assume = []string{"stability is demanded for strict comparators only (with a comparator that answers true for equal elements the order of ties is the caller's)",
		"for descriptor sorts the order of rows whose keys are all equal is not demanded"}
	r.Finish()
}
