package main

import (
	"fmt"
	"sync"

	fpgo "github.com/TeaEntityLab/fpGo/v2"
	"github.com/TeaEntityLab/fpGo/v2/zzverif/vsched"
	"verifharness/lib/e1"
)

// curryScenario: `callers` goroutines call Call(k) on one CurryDef whose function yields between
// reading and recording its arguments and marks the currying done once it has doneAt arguments.
func curryScenario(callers, doneAt, bound int) *vsched.Scenario {
	fam := "currydef"
	var c *fpgo.CurryDef[int, string]
	return &vsched.Scenario{
		Name:  fmt.Sprintf("currydef/callers%d/doneAt%d", callers, doneAt),
		Bound: bound,
		Body: func() {
			inside := 0
			c = fpgo.CurryNewGenerics(func(c *fpgo.CurryDef[int, string], a ...int) string {
				if inside > 0 {
					vsched.Event("overlap")
				}
				inside++
				args := append([]int{}, a...)
				vsched.Yield()
				vsched.Event("invoked", fmt.Sprint(args), c.IsDone())
				if len(args) >= doneAt {
					c.MarkDone()
				}
				inside--
				return fmt.Sprint(args)
			})
			var wg sync.WaitGroup
			for k := 1; k <= callers; k++ {
				k := k
				wg.Add(1)
				vsched.GoNamed(fmt.Sprintf("caller%d", k), func() {
					c.Call(k)
					wg.Done()
				})
			}
			wg.Wait()
			vsched.Event("result", c.Result(), c.IsDone())
		},
		Check: func(r *vsched.Result) []vsched.Failure {
			fs := e1.Basic("C20", fam, r, nil)
			if len(r.Panics) > 0 {
				return fs
			}
			if e1.Count(r, "overlap") > 0 {
				fs = append(fs, e1.Fail("C20|currydef|overlap", "two Calls were inside the curried function at the same time"))
			}
			var inv []string
			for _, e := range r.Events {
				if e.Kind == "invoked" {
					inv = append(inv, e.Args[0].(string))
					if e.Args[1].(bool) {
						fs = append(fs, e1.Fail("C20|currydef|invoked-after-done", "the function was invoked with %v after MarkDone", e.Args[0]))
					}
				}
			}
			want := doneAt
			if callers < doneAt {
				want = callers
			}
			if len(inv) != want {
				fs = append(fs, e1.Fail("C20|currydef|invocation-count", "%d Calls, done at %d arguments: the function was invoked %d times (%v), want %d", callers, doneAt, len(inv), inv, want))
			}
			// each invocation sees all arguments so far: a strictly growing chain of prefixes
			for i := 1; i < len(inv); i++ {
				if len(inv[i]) <= len(inv[i-1]) || inv[i][:len(inv[i-1])-1] != inv[i-1][:len(inv[i-1])-1] {
					fs = append(fs, e1.Fail("C20|currydef|accumulation", "invocation %d got %s after %s", i, inv[i], inv[i-1]))
				}
			}
			if len(inv) > 0 && e1.Count(r, "result", inv[len(inv)-1], callers >= doneAt) != 1 {
				fs = append(fs, e1.Fail("C20|currydef|result", "Result / IsDone after all Calls: %v, last invocation %s", r.Events[len(r.Events)-1].Args, inv[len(inv)-1]))
			}
			return fs
		},
	}
}

func scenarios(tier string) []*vsched.Scenario {
	b := 2
	if tier == "thorough" {
		b = 3
	}
	out := []*vsched.Scenario{curryScenario(2, 1, b), curryScenario(2, 2, b), curryScenario(3, 2, b), curryScenario(3, 3, 2)}
	if tier == "thorough" {
		out = append(out, curryScenario(3, 1, 3), curryScenario(4, 2, 2))
	}
	return out
}
