package main

import (
	"errors"
	"fmt"
	"reflect"
	"regexp"
	"strings"

	fpgo "github.com/TeaEntityLab/fpGo/v2"
	"verifharness/lib"
)

type vfn = func(...int) []int

// tagged, non-commuting functions: f_k appends k to the history it is given
func tagged(k int) vfn {
	return func(s ...int) []int { return append(append([]int{}, s...), k) }
}

func sequential(r *lib.Report, tier string) (int64, int64, []interface{}) {
	var states, trans int64
	var samples []interface{}
	s1, t1 := composeAndPipe(r, tier, &samples)
	s2, t2 := adapters(r)
	s3, t3 := patterns(r, tier, &samples)
	states, trans = s1+s2+s3, t1+t2+t3
	// the adapters and the pattern lists once more in the same process (answers must not depend on what
	// was evaluated before, e.g. through a cache of compiled patterns or a recycled buffer)
	s6, t6 := arrayEquality(r)
	s7, t7 := manyRegexes(r, tier)
	states, trans = states+s6+s7, trans+t6+t7
	var again []interface{}
	_, t4 := adapters(r)
	_, t5 := patterns(r, tier, &again)
	trans += t4 + t5
	return states, trans, samples
}

// arrayEquality: equality patterns holding ARRAYS (comparable values of a composite kind: == compares them element by
// element) and structs with array fields; probes of the same and of other array types. All ordered lists of up to 2 of
// the patterns, followed or not by Otherwise.
func arrayEquality(r *lib.Report) (int64, int64) {
	var states, trans int64
	type uuid [16]byte
	u1, u2 := uuid{1, 2, 3}, uuid{1, 2, 4}
	type withArr struct{ A [2]int }
	vals := []struct {
		name string
		v    interface{}
	}{{"[2]int{0,0}", [2]int{0, 0}}, {"[2]int{1,2}", [2]int{1, 2}}, {"uuid{1,2,3}", u1}, {"[1]string{a}", [1]string{"a"}}, {"struct{[2]int{1,2}}", withArr{[2]int{1, 2}}}, {"[0]int{}", [0]int{}}}
	probes := []probe{{"[2]int{0,0}", [2]int{0, 0}}, {"[2]int{1,2}", [2]int{1, 2}}, {"[2]int{2,1}", [2]int{2, 1}}, {"[3]int{1,2,0}", [3]int{1, 2, 0}}, {"[2]int64{1,2}", [2]int64{1, 2}},
		{"uuid{1,2,3}", u1}, {"uuid{1,2,4}", u2}, {"[16]byte{1,2,3}", [16]byte{1, 2, 3}}, {"[1]string{a}", [1]string{"a"}}, {"[1]string{b}", [1]string{"b"}},
		{"struct{[2]int{1,2}}", withArr{[2]int{1, 2}}}, {"struct{[2]int{2,2}}", withArr{[2]int{2, 2}}}, {"[0]int{}", [0]int{}}, {"[]int{1,2}", []int{1, 2}}, {"int 1", 1}, {"nil", nil}}
	var specs []patSpec
	for _, ev := range vals {
		ev := ev
		specs = append(specs, patSpec{"Equal(" + ev.name + ")", func(t string) fpgo.Pattern { return fpgo.InCaseOfEqual(ev.v, eff(t)) }, func(v interface{}) bool { return ev.v == v }})
	}
	var orders [][]int
	for i := range specs {
		orders = append(orders, []int{i})
		for j := range specs {
			if i != j {
				orders = append(orders, []int{i, j})
			}
		}
	}
	for _, ord := range orders {
		for other := 0; other < 2; other++ {
			states++
			var ps []fpgo.Pattern
			var names []string
			for _, i := range ord {
				ps = append(ps, specs[i].mk(specs[i].name))
				names = append(names, specs[i].name)
			}
			if other == 1 {
				ps = append(ps, fpgo.Otherwise(eff("Otherwise")))
				names = append(names, "Otherwise")
			}
			pm := fpgo.DefPattern(ps...)
			for _, pb := range probes {
				trans++
				want := "PANIC"
				if other == 1 {
					want = "Otherwise:" + render(pb.v)
				}
				for _, i := range ord {
					if specs[i].accepts(pb.v) {
						want = specs[i].name + ":" + render(pb.v)
						break
					}
				}
				got := ""
				if p := lib.Catch(func() { got = fmt.Sprint(pm.MatchFor(pb.v)) }); p != "" {
					got = "PANIC"
				}
				if got != want {
					r.Violation("C20|match-equal|array|probe="+pb.name, fmt.Sprintf("patterns %v, value %s: MatchFor gave %s, the first pattern whose value == the probe gives %s", names, pb.name, got, want),
						map[string]interface{}{"patterns": names, "probe": pb.name, "got": got, "want": want})
				}
			}
		}
	}
	return states, trans
}

// manyRegexes: N distinct regular-expression patterns used one after the other in the same process, then every one of
// them again (three passes): each accepts exactly its own strings, whatever was compiled in between (a bounded cache
// of compiled expressions would go wrong only after it wrapped).
func manyRegexes(r *lib.Report, tier string) (int64, int64) {
	var states, trans int64
	n := 1100
	if tier == "thorough" {
		n = 70000
	}
	for pass := 0; pass < 3; pass++ {
		for i := 0; i < n; i++ {
			states++
			rx := fmt.Sprintf("^k%dx+$", i)
			pm := fpgo.DefPattern(fpgo.InCaseOfRegex(rx, eff("Regex")), fpgo.Otherwise(eff("Otherwise")))
			for _, pr := range []struct {
				v    string
				want string
			}{{fmt.Sprintf("k%dx", i), "Regex"}, {fmt.Sprintf("k%dxxx", i), "Regex"}, {fmt.Sprintf("k%dx", i+1), "Otherwise"}, {fmt.Sprintf("k%dx", (i+256)%n), "Otherwise"}, {fmt.Sprintf("k%d", i), "Otherwise"}} {
				trans++
				got := ""
				if p := lib.Catch(func() { got = fmt.Sprint(pm.MatchFor(pr.v)) }); p != "" {
					got = "PANIC " + p
				}
				if got != pr.want+":"+render(pr.v) {
					r.Violation("C20|match|regex|after-many-patterns", fmt.Sprintf("pass %d, after %d other regular expressions: [Regex(%s), Otherwise] on %q gave %s, want %s", pass, pass*n+i, rx, pr.v, got, pr.want), nil)
					return states, trans
				}
			}
		}
	}
	return states, trans
}

// ---- Compose / Pipe ----

// shapeChanging: stages that change the number of values - one that drops everything, one that counts, one that
// doubles, one that appends a tag: every function list of length 1..4 over them, applied to 0, 1 and 2
// arguments; Compose folds from the right, Pipe from the left, whatever a stage returns (also nothing).
func shapeChanging(r *lib.Report) (int64, int64) {
	var states, trans int64
	names := []string{"drop-all", "count", "double", "tag7"}
	fns := []vfn{
		func(s ...int) []int { return []int{} },
		func(s ...int) []int { return []int{len(s)} },
		func(s ...int) []int { return append(append([]int{}, s...), s...) },
		func(s ...int) []int { return append(append([]int{}, s...), 7) },
	}
	var rec func(cur []int)
	rec = func(cur []int) {
		if len(cur) > 0 {
			states++
			fs := make([]vfn, len(cur))
			var ns []string
			for i, k := range cur {
				fs[i] = fns[k]
				ns = append(ns, names[k])
			}
			for _, in := range [][]int{{}, {1}, {1, 2}} {
				trans += 2
				wantP := append([]int{}, in...)
				for _, k := range cur {
					wantP = fns[k](wantP...)
				}
				wantC := append([]int{}, in...)
				for i := len(cur) - 1; i >= 0; i-- {
					wantC = fns[cur[i]](wantC...)
				}
				var gotP, gotC []int
				p := lib.Catch(func() { gotP = fpgo.Pipe(fs...)(in...); gotC = fpgo.Compose(fs...)(in...) })
				if p != "" || fmt.Sprint(gotP) != fmt.Sprint(wantP) || fmt.Sprint(gotC) != fmt.Sprint(wantC) {
					r.Violation("C20|compose|shape-changing-stages", fmt.Sprintf("stages %v on %v: Pipe gives %v (left-to-right application gives %v), Compose gives %v (right-to-left gives %v) %s", ns, in, gotP, wantP, gotC, wantC, p),
						map[string]interface{}{"stages": ns, "input": in})
				}
			}
		}
		if len(cur) == 4 {
			return
		}
		for k := range fns {
			rec(append(append([]int{}, cur...), k))
		}
	}
	rec(nil)
	return states, trans
}

func composeAndPipe(r *lib.Report, tier string, samples *[]interface{}) (int64, int64) {
	var states, trans int64
	s0, t0 := shapeChanging(r)
	states, trans = states+s0, trans+t0
	maxLen, alpha := 4, 5
	if tier == "thorough" {
		maxLen = 5
	}
	var lists [][]int
	var gen func(cur []int, n, a int)
	gen = func(cur []int, n, a int) {
		if len(cur) == n {
			lists = append(lists, append([]int{}, cur...))
			return
		}
		for k := 1; k <= a; k++ {
			gen(append(cur, k), n, a)
		}
	}
	for n := 1; n <= maxLen; n++ {
		gen(nil, n, alpha)
	}
	for n := maxLen + 1; n <= 6; n++ {
		gen(nil, n, 2)
	}
	rev := func(l []int) []int {
		o := make([]int, len(l))
		for i, v := range l {
			o[len(l)-1-i] = v
		}
		return o
	}
	mk := func(l []int) []vfn {
		fs := make([]vfn, len(l))
		for i, k := range l {
			fs[i] = tagged(k)
		}
		return fs
	}
	tagsOf := func(fs []vfn) []int {
		var t []int
		for _, f := range fs {
			t = append(t, f()[0])
		}
		return t
	}
	bad := func(clause string, l []int, format string, a ...interface{}) {
		r.Violation("C20|compose|"+clause, fmt.Sprintf("function list %v: %s", l, fmt.Sprintf(format, a...)), map[string]interface{}{"function_tags": l, "failure": fmt.Sprintf(format, a...)})
	}
	eq := func(a, b []int) bool { return fmt.Sprint(a) == fmt.Sprint(b) }
	for _, l := range lists {
		states++
		fs := mk(l)
		// Compose(f1..fn)(x) = f1(f2(..fn(x))): history = x, n, .., 1 ; Pipe: x, 1, .., n
		wantC := append([]int{0}, rev(l)...)
		wantP := append([]int{0}, l...)
		p := lib.Catch(func() {
			trans += 6
			// the same slice is handed to several combinators, each result is applied twice
			c1 := fpgo.Compose(fs...)
			p1 := fpgo.Pipe(fs...)
			if got := c1(0); !eq(got, wantC) {
				bad("compose-order", l, "Compose(fs...)(0) = %v, want %v", got, wantC)
			}
			if got := p1(0); !eq(got, wantP) {
				bad("pipe-order", l, "Pipe(fs...)(0) = %v, want %v", got, wantP)
			}
			if got := fpgo.Compose(fs...)(0); !eq(got, wantC) {
				bad("compose-after-pipe", l, "Compose(fs...)(0) after a Pipe over the same list = %v, want %v", got, wantC)
			}
			if got := p1(0); !eq(got, wantP) {
				bad("pipe-order", l, "second application of Pipe(fs...)(0) = %v, want %v", got, wantP)
			}
			if got := c1(0); !eq(got, wantC) {
				bad("compose-order", l, "second application of Compose(fs...)(0) = %v, want %v", got, wantC)
			}
			if t := tagsOf(fs); !eq(t, l) {
				bad("argument-modified", l, "the caller's function list was reordered to %v", t)
			}
			// Compose(fs) = Pipe(reverse(fs))
			if got := fpgo.Pipe(mk(rev(l))...)(0); !eq(got, wantC) {
				bad("compose-pipe-duality", l, "Pipe(reverse(fs))(0) = %v, Compose(fs)(0) = %v", got, wantC)
			}
			// associativity under every regrouping into two groups (sub-slices of the same list)
			for i := 1; i < len(fs); i++ {
				trans += 2
				if got := fpgo.Compose(fpgo.Compose(fs[:i]...), fpgo.Compose(fs[i:]...))(0); !eq(got, wantC) {
					bad("compose-assoc", l, "Compose(Compose(fs[:%d]), Compose(fs[%d:]))(0) = %v, want %v", i, i, got, wantC)
				}
				if got := fpgo.Pipe(fpgo.Pipe(fs[:i]...), fpgo.Pipe(fs[i:]...))(0); !eq(got, wantP) {
					bad("pipe-assoc", l, "Pipe(Pipe(fs[:%d]), Pipe(fs[%d:]))(0) = %v, want %v", i, i, got, wantP)
				}
			}
			if t := tagsOf(fs); !eq(t, l) {
				bad("argument-modified", l, "the caller's function list was reordered to %v", t)
			}
			// interface{} twins
			var fi []func(...interface{}) []interface{}
			for _, k := range l {
				k := k
				fi = append(fi, func(s ...interface{}) []interface{} { return append(append([]interface{}{}, s...), k) })
			}
			if got := fmt.Sprint(fpgo.ComposeInterface(fi...)(0)); got != fmt.Sprint(wantC) {
				bad("compose-order", l, "ComposeInterface = %v, want %v", got, wantC)
			}
			if got := fmt.Sprint(fpgo.PipeInterface(fi...)(0)); got != fmt.Sprint(wantP) {
				bad("pipe-order", l, "PipeInterface = %v, want %v", got, wantP)
			}
		})
		if p != "" {
			bad("panic", l, "%s", p)
		}
		if len(*samples) < 1 && len(l) == 3 {
			*samples = append(*samples, map[string]interface{}{"function_tags": l, "compose_history": wantC, "pipe_history": wantP})
		}
	}
	return states, trans
}

// ---- Curry* / MakeVariadic* / Trampoline / CurryDef (sequential) ----

func adapters(r *lib.Report) (int64, int64) {
	var states, trans int64
	bad := func(clause, format string, a ...interface{}) {
		r.Violation("C20|adapters|"+clause, fmt.Sprintf(format, a...), map[string]interface{}{"failure": fmt.Sprintf(format, a...)})
	}
	check := func(name string, got interface{}, want interface{}) {
		trans++
		states++
		if fmt.Sprint(got) != fmt.Sprint(want) {
			bad(name, "%s passed %v, want %v", name, got, want)
		}
	}
	for _, rest := range [][]int{nil, {7}, {7, 8, 9}} {
		p := lib.Catch(func() {
			check("CurryParam1", fpgo.CurryParam1(func(a string, s ...int) string { return fmt.Sprint(a, s) }, "A")(rest...), fmt.Sprint("A", rest))
			check("CurryParam1ForSlice1", fpgo.CurryParam1ForSlice1(func(a string, s []int) string { return fmt.Sprint(a, s) }, "A")(rest...), fmt.Sprint("A", rest))
			check("CurryParam2", fpgo.CurryParam2(func(a string, b int, s ...int) string { return fmt.Sprint(a, b, s) }, "A", 2)(rest...), fmt.Sprint("A", 2, rest))
			check("CurryParam3", fpgo.CurryParam3(func(a string, b int, c bool, s ...int) string { return fmt.Sprint(a, b, c, s) }, "A", 2, true)(rest...), fmt.Sprint("A", 2, true, rest))
			check("CurryParam4", fpgo.CurryParam4(func(a string, b int, c bool, d float64, s ...int) string { return fmt.Sprint(a, b, c, d, s) }, "A", 2, true, 4.5)(rest...), fmt.Sprint("A", 2, true, 4.5, rest))
			check("CurryParam5", fpgo.CurryParam5(func(a string, b int, c bool, d float64, e string, s ...int) string {
				return fmt.Sprint(a, b, c, d, e, s)
			}, "A", 2, true, 4.5, "E")(rest...), fmt.Sprint("A", 2, true, 4.5, "E", rest))
			check("CurryParam6", fpgo.CurryParam6(func(a string, b int, c bool, d float64, e string, f int, s ...int) string {
				return fmt.Sprint(a, b, c, d, e, f, s)
			}, "A", 2, true, 4.5, "E", 6)(rest...), fmt.Sprint("A", 2, true, 4.5, "E", 6, rest))
			check("MakeVariadicReturn1", fpgo.MakeVariadicReturn1(func(s ...int) string { return fmt.Sprint(s) })(rest...), []string{fmt.Sprint(rest)})
			check("MakeVariadicReturn2", fpgo.MakeVariadicReturn2(func(s ...int) (string, string) { return "a" + fmt.Sprint(s), "b" })(rest...), []string{"a" + fmt.Sprint(rest), "b"})
			check("MakeVariadicReturn3", fpgo.MakeVariadicReturn3(func(s ...int) (int, int, int) { return len(s), 2, 3 })(rest...), []int{len(rest), 2, 3})
			check("MakeVariadicReturn4", fpgo.MakeVariadicReturn4(func(s ...int) (int, int, int, int) { return len(s), 2, 3, 4 })(rest...), []int{len(rest), 2, 3, 4})
			check("MakeVariadicReturn5", fpgo.MakeVariadicReturn5(func(s ...int) (int, int, int, int, int) { return len(s), 2, 3, 4, 5 })(rest...), []int{len(rest), 2, 3, 4, 5})
			check("MakeVariadicReturn6", fpgo.MakeVariadicReturn6(func(s ...int) (int, int, int, int, int, int) { return len(s), 2, 3, 4, 5, 6 })(rest...), []int{len(rest), 2, 3, 4, 5, 6})
		})
		if p != "" {
			bad("panic", "adapters with %v: %s", rest, p)
		}
	}
	// one adapter instance applied twice: the first call's result is re-inspected after the second call
	{
		type twice struct {
			name string
			call func(s ...int) interface{}
			want func(s []int) interface{}
		}
		r1 := fpgo.MakeVariadicReturn1(func(s ...int) int { return len(s) })
		r2 := fpgo.MakeVariadicReturn2(func(s ...int) (int, int) { return len(s), 2 })
		r3 := fpgo.MakeVariadicReturn3(func(s ...int) (int, int, int) { return len(s), 2, 3 })
		r4 := fpgo.MakeVariadicReturn4(func(s ...int) (int, int, int, int) { return len(s), 2, 3, 4 })
		r5 := fpgo.MakeVariadicReturn5(func(s ...int) (int, int, int, int, int) { return len(s), 2, 3, 4, 5 })
		r6 := fpgo.MakeVariadicReturn6(func(s ...int) (int, int, int, int, int, int) { return len(s), 2, 3, 4, 5, 6 })
		p1 := fpgo.MakeVariadicParam1(func(a int) []int { return []int{a} })
		p2 := fpgo.MakeVariadicParam2(func(a, b int) []int { return []int{a, b} })
		c1 := fpgo.CurryParam1(func(a string, s ...int) []int { return append([]int{len(a)}, s...) }, "A")
		c1s := fpgo.CurryParam1ForSlice1(func(a string, s []int) []int { return append([]int{len(a)}, s...) }, "A")
		for _, t := range []twice{
			{"MakeVariadicReturn1", func(s ...int) interface{} { return r1(s...) }, func(s []int) interface{} { return []int{len(s)} }},
			{"MakeVariadicReturn2", func(s ...int) interface{} { return r2(s...) }, func(s []int) interface{} { return []int{len(s), 2} }},
			{"MakeVariadicReturn3", func(s ...int) interface{} { return r3(s...) }, func(s []int) interface{} { return []int{len(s), 2, 3} }},
			{"MakeVariadicReturn4", func(s ...int) interface{} { return r4(s...) }, func(s []int) interface{} { return []int{len(s), 2, 3, 4} }},
			{"MakeVariadicReturn5", func(s ...int) interface{} { return r5(s...) }, func(s []int) interface{} { return []int{len(s), 2, 3, 4, 5} }},
			{"MakeVariadicReturn6", func(s ...int) interface{} { return r6(s...) }, func(s []int) interface{} { return []int{len(s), 2, 3, 4, 5, 6} }},
			{"MakeVariadicParam1", func(s ...int) interface{} { return p1(s...) }, func(s []int) interface{} { return s[:1] }},
			{"MakeVariadicParam2", func(s ...int) interface{} { return p2(s...) }, func(s []int) interface{} { return s[:2] }},
			{"CurryParam1", func(s ...int) interface{} { return c1(s...) }, func(s []int) interface{} { return append([]int{1}, s...) }},
			{"CurryParam1ForSlice1", func(s ...int) interface{} { return c1s(s...) }, func(s []int) interface{} { return append([]int{1}, s...) }},
		} {
			trans++
			a1, a2 := []int{11, 12}, []int{21, 22, 23, 24}
			var first, second interface{}
			if p := lib.Catch(func() { first = t.call(a1...); second = t.call(a2...) }); p != "" {
				bad("panic", "%s applied twice: %s", t.name, p)
				continue
			}
			if fmt.Sprint(first) != fmt.Sprint(t.want(a1)) || fmt.Sprint(second) != fmt.Sprint(t.want(a2)) {
				bad(t.name+"|reused", "one %s adapter applied to %v and then to %v: the first result now reads %v (want %v), the second %v (want %v)", t.name, a1, a2, first, t.want(a1), second, t.want(a2))
			}
		}
	}
	args := []int{11, 12, 13, 14, 15, 16, 17}
	p := lib.Catch(func() {
		check("MakeVariadicParam1", fpgo.MakeVariadicParam1(func(a int) []int { return []int{a} })(args...), args[:1])
		check("MakeVariadicParam2", fpgo.MakeVariadicParam2(func(a, b int) []int { return []int{a, b} })(args...), args[:2])
		check("MakeVariadicParam3", fpgo.MakeVariadicParam3(func(a, b, c int) []int { return []int{a, b, c} })(args...), args[:3])
		check("MakeVariadicParam4", fpgo.MakeVariadicParam4(func(a, b, c, d int) []int { return []int{a, b, c, d} })(args...), args[:4])
		check("MakeVariadicParam5", fpgo.MakeVariadicParam5(func(a, b, c, d, e int) []int { return []int{a, b, c, d, e} })(args...), args[:5])
		check("MakeVariadicParam6", fpgo.MakeVariadicParam6(func(a, b, c, d, e, f int) []int { return []int{a, b, c, d, e, f} })(args...), args[:6])
	})
	if p != "" {
		bad("panic", "MakeVariadicParam*: %s", p)
	}
	// Trampoline: iterate the step until done or error
	boom := errors.New("boom")
	for doneAt := 1; doneAt <= 4; doneAt++ {
		for errAt := 0; errAt <= 4; errAt++ {
			calls := 0
			step := func(s ...int) ([]int, bool, error) {
				calls++
				if calls == errAt {
					return []int{-1}, false, boom
				}
				return append(append([]int{}, s...), calls), calls >= doneAt, nil
			}
			var res []int
			var err error
			p := lib.Catch(func() { res, err = fpgo.Trampoline(step, 0) })
			trans++
			states++
			wantCalls, wantErr := doneAt, error(nil)
			var wantRes []int
			if errAt >= 1 && errAt <= doneAt {
				wantCalls, wantErr = errAt, boom
			} else {
				wantRes = []int{0}
				for i := 1; i <= doneAt; i++ {
					wantRes = append(wantRes, i)
				}
			}
			if p != "" || calls != wantCalls || err != wantErr || fmt.Sprint(res) != fmt.Sprint(wantRes) {
				bad("trampoline", "Trampoline(done at %d, error at %d): %d calls, result %v, err %v %s; want %d calls, %v, %v", doneAt, errAt, calls, res, err, p, wantCalls, wantRes, wantErr)
			}
		}
	}
	// a step that reports an error together with done: the error is what Trampoline returns ("until done or error")
	for at := 1; at <= 3; at++ {
		calls := 0
		step := func(s ...int) ([]int, bool, error) {
			calls++
			if calls == at {
				return []int{-1}, true, boom
			}
			return append(append([]int{}, s...), calls), false, nil
		}
		var res []int
		var err error
		p := lib.Catch(func() { res, err = fpgo.Trampoline(step, 0) })
		trans++
		states++
		if p != "" || calls != at || err != boom || res != nil {
			bad("trampoline", "Trampoline whose step %d returns (values, done=true, error): %d calls, result %v, err %v %s; want %d calls, result nil and the step's error", at, calls, res, err, p, at)
		}
	}
	// CurryDef, sequentially: one invocation per Call with all arguments so far; frozen after MarkDone
	for doneAt := 1; doneAt <= 3; doneAt++ {
		var seen [][]int
		c := fpgo.CurryNewGenerics(func(c *fpgo.CurryDef[int, string], a ...int) string {
			seen = append(seen, append([]int{}, a...))
			if len(a) >= doneAt {
				c.MarkDone()
			}
			return fmt.Sprint(a)
		})
		p := lib.Catch(func() { c.Call(1).Call(2, 3).Call(4) })
		trans++
		states++
		var want [][]int
		acc := []int{}
		for _, add := range [][]int{{1}, {2, 3}, {4}} {
			acc = append(append([]int{}, acc...), add...)
			want = append(want, acc)
			if len(acc) >= doneAt {
				break
			}
		}
		if p != "" || fmt.Sprint(seen) != fmt.Sprint(want) || c.Result() != fmt.Sprint(want[len(want)-1]) || !c.IsDone() {
			bad("currydef", "CurryDef done at %d args: invocations %v result %q done %v %s; want invocations %v", doneAt, seen, c.Result(), c.IsDone(), p, want)
		}
	}
	// every sequence of up to 4 Calls over the argument tuples (), (1), (2,3) - a Call without arguments is a
	// Call: it invokes the function once more with the arguments so far - x every MarkDone threshold
	{
		tuples := [][]int{{}, {1}, {2, 3}}
		for doneAt := 0; doneAt <= 4; doneAt++ { // MarkDone once the function sees >= doneAt arguments
			var seq []int
			var rec func()
			rec = func() {
				if len(seq) > 0 {
					var seen [][]int
					c := fpgo.CurryNewGenerics(func(c *fpgo.CurryDef[int, string], a ...int) string {
						seen = append(seen, append([]int{}, a...))
						if len(a) >= doneAt {
							c.MarkDone()
						}
						return fmt.Sprint(a)
					})
					trans++
					states++
					var want [][]int
					acc := []int{}
					done := false
					wantRes := ""
					for _, t := range seq {
						if done {
							break
						}
						acc = append(append([]int{}, acc...), tuples[t]...)
						want = append(want, acc)
						wantRes = fmt.Sprint(acc)
						if len(acc) >= doneAt {
							done = true
						}
					}
					p := lib.Catch(func() {
						for _, t := range seq {
							if c.Call(tuples[t]...) != c {
								panic("Call did not return the CurryDef it was called on")
							}
						}
					})
					if p != "" || fmt.Sprint(seen) != fmt.Sprint(want) || c.Result() != wantRes || c.IsDone() != done {
						var calls []string
						for _, t := range seq {
							calls = append(calls, fmt.Sprintf("Call%v", tuples[t]))
						}
						bad("currydef", "CurryDef (MarkDone once it sees >= %d arguments), %v: invocations %v result %q done %v %s; want invocations %v result %q done %v", doneAt, calls, seen, c.Result(), c.IsDone(), p, want, wantRes, done)
					}
				}
				if len(seq) == 4 {
					return
				}
				for t := range tuples {
					seq = append(seq, t)
					rec()
					seq = seq[:len(seq)-1]
				}
			}
			rec()
		}
	}
	// the interface{} constructor CurryNew, and two instances from the same function value (independent argument lists)
	{
		var seen []string
		fn := func(c *fpgo.CurryDef[interface{}, interface{}], a ...interface{}) interface{} {
			seen = append(seen, fmt.Sprint(a))
			if len(a) >= 2 {
				c.MarkDone()
			}
			return fmt.Sprint(a)
		}
		c1, c2 := fpgo.CurryNew(fn), fpgo.CurryNew(fn)
		p := lib.Catch(func() { c1.Call(1); c2.Call("x"); c1.Call(2); c2.Call("y"); c1.Call(3) })
		trans++
		states++
		if p != "" || fmt.Sprint(seen) != "[[1] [x] [1 2] [x y]]" || fmt.Sprint(c1.Result()) != "[1 2]" || fmt.Sprint(c2.Result()) != "[x y]" || !c1.IsDone() || !c2.IsDone() {
			bad("currydef", "two CurryNew instances of one function: invocations %v, results %v / %v %s", seen, c1.Result(), c2.Result(), p)
		}
	}
	// the first Call spreads a caller-owned slice with spare capacity into two curries; the caller then overwrites it
	{
		buf := make([]int, 1, 4)
		buf[0] = 1
		var seen1, seen2 []string
		c1 := fpgo.CurryNewGenerics(func(c *fpgo.CurryDef[int, string], a ...int) string {
			seen1 = append(seen1, fmt.Sprint(a))
			return fmt.Sprint(a)
		})
		c2 := fpgo.CurryNewGenerics(func(c *fpgo.CurryDef[int, string], a ...int) string {
			seen2 = append(seen2, fmt.Sprint(a))
			return fmt.Sprint(a)
		})
		p := lib.Catch(func() {
			c1.Call(buf...)
			c2.Call(buf...)
			c1.Call(2)
			c2.Call(3)
			buf[0] = 9
			c1.Call(4)
			c2.Call(5)
		})
		trans++
		states++
		if p != "" || fmt.Sprint(seen1) != "[[1] [1 2] [1 2 4]]" || fmt.Sprint(seen2) != "[[1] [1 3] [1 3 5]]" {
			bad("currydef", "two CurryDefs whose first Call spread the same slice (len 1, cap 4), which the caller overwrites later: invocations %v and %v %s", seen1, seen2, p)
		}
	}
	return states, trans
}

// ---- pattern matching ----

type plainStruct struct{ A int }

type ptrStruct struct{ P *int }

type probe struct {
	name string
	v    interface{}
}

type patSpec struct {
	name string
	mk   func(tag string) fpgo.Pattern
	// accepts: reference semantics on the normalised value
	accepts func(v interface{}) bool
}

func isNilRef(v interface{}) bool {
	if v == nil {
		return true
	}
	rv := reflect.ValueOf(v)
	return rv.Kind() == reflect.Ptr && rv.IsNil()
}

func kindRef(v interface{}) reflect.Kind {
	if v == nil {
		return reflect.Invalid
	}
	return reflect.TypeOf(v).Kind()
}

// reference of the declared sum type  Sum(Product(Int, String), Nil)
func sumAcceptsObjects(objs []interface{}) bool {
	if len(objs) == 2 && kindRef(objs[0]) == reflect.Int && kindRef(objs[1]) == reflect.String {
		return true
	}
	return len(objs) == 1 && isNilRef(objs[0])
}

func patterns(r *lib.Report, tier string, samples *[]interface{}) (int64, int64) {
	var states, trans int64
	sumT := fpgo.DefSum(fpgo.DefProduct(reflect.Int, reflect.String), fpgo.NilType)
	otherT := fpgo.DefSum(fpgo.DefProduct(reflect.Bool))
	// NewCompData returns a value iff the arguments match the declared type
	alpha := []interface{}{1, "s", nil, true, (*int)(nil), 2.5}
	var tuples [][]interface{}
	tuples = append(tuples, nil)
	for _, a := range alpha {
		tuples = append(tuples, []interface{}{a})
		for _, b := range alpha {
			tuples = append(tuples, []interface{}{a, b})
			for _, c := range alpha[:3] {
				tuples = append(tuples, []interface{}{a, b, c})
			}
		}
	}
	for _, tp := range tuples {
		trans++
		states++
		var cd *fpgo.CompData
		p := lib.Catch(func() { cd = fpgo.NewCompData(sumT, tp...) })
		if p != "" || (cd != nil) != sumAcceptsObjects(tp) {
			r.Violation("C20|compdata|new", fmt.Sprintf("NewCompData(Sum(Product(Int,String),Nil), %v) = %v %s, arguments match: %v", tp, cd != nil, p, sumAcceptsObjects(tp)), map[string]interface{}{"args": fmt.Sprint(tp)})
		}
		if cd != nil {
			// the two match functions agree with the declared types for the value just built
			trans++
			var m1, m2, o1 bool
			if p := lib.Catch(func() {
				m1, m2, o1 = fpgo.MatchCompType(sumT, *cd), fpgo.MatchCompTypeRef(sumT, cd), fpgo.MatchCompType(otherT, *cd)
			}); p != "" || !m1 || !m2 || o1 != (len(tp) == 1 && kindRef(tp[0]) == reflect.Bool && !isNilRef(tp[0])) {
				r.Violation("C20|compdata|match", fmt.Sprintf("CompData%v of Sum(Product(Int,String),Nil): MatchCompType=%v MatchCompTypeRef=%v, against Sum(Product(Bool)): %v %s", tp, m1, m2, o1, p), map[string]interface{}{"args": fmt.Sprint(tp)})
			}
		}
	}
	matching := fpgo.NewCompData(sumT, 1, "a")
	other := fpgo.NewCompData(otherT, true)
	five := 5
	var nilIface interface{}
	var nilPtr *int
	pp := &nilPtr
	probes := []probe{
		{"int 7", 7}, {"int 8", 8}, {"string abc", "abc"}, {"string xyz", "xyz"}, {"untyped nil", nil},
		{"typed nil *int", (*int)(nil)}, {"*int", &five}, {"struct", plainStruct{3}}, {"*struct", &plainStruct{4}},
		{"[]int", []int{1}}, {"map", map[string]int{"k": 1}}, {"*CompData matching", matching}, {"*CompData other type", other},
		{"CompData matching (value)", *matching}, {"float 3.5", 3.5}, {"bool", true}, {"int64 7", int64(7)}, {"**int to nil", pp},
		{"empty string", ""}, {"typed nil *struct", (*plainStruct)(nil)},
	}
	if tier == "thorough" {
		probes = append(probes, probe{"*interface{} holding nil", &nilIface}, probe{"func", func() {}}, probe{"chan", make(chan int)}, probe{"uint8 7", uint8(7)})
	}
	re := regexp.MustCompile("^a")
	specs := []patSpec{
		{"Kind(Int)", func(t string) fpgo.Pattern { return fpgo.InCaseOfKind(reflect.Int, eff(t)) }, func(v interface{}) bool { return !isNilRef(v) && kindRef(v) == reflect.Int }},
		{"Kind(String)", func(t string) fpgo.Pattern { return fpgo.InCaseOfKind(reflect.String, eff(t)) }, func(v interface{}) bool { return !isNilRef(v) && kindRef(v) == reflect.String }},
		{"Kind(Ptr)", func(t string) fpgo.Pattern { return fpgo.InCaseOfKind(reflect.Ptr, eff(t)) }, func(v interface{}) bool { return !isNilRef(v) && kindRef(v) == reflect.Ptr }},
		{"SumType", func(t string) fpgo.Pattern { return fpgo.InCaseOfSumType(sumT, eff(t)) }, func(v interface{}) bool {
			if cd, ok := v.(fpgo.CompData); ok {
				return sumAcceptsObjects(compObjects(cd))
			}
			return sumAcceptsObjects([]interface{}{v})
		}},
		{"Equal(7)", func(t string) fpgo.Pattern { return fpgo.InCaseOfEqual(7, eff(t)) }, func(v interface{}) bool { i, ok := v.(int); return ok && i == 7 }},
		{"Regex(^a)", func(t string) fpgo.Pattern { return fpgo.InCaseOfRegex("^a", eff(t)) }, func(v interface{}) bool { s, ok := v.(string); return ok && re.MatchString(s) }},
		{"Otherwise", func(t string) fpgo.Pattern { return fpgo.Otherwise(eff(t)) }, func(v interface{}) bool { return true }},
	}
	// every ordered subset of the six pattern kinds
	var orders [][]int
	var gen func(cur []int, used int)
	gen = func(cur []int, used int) {
		orders = append(orders, append([]int{}, cur...))
		for i := range specs {
			if used&(1<<i) == 0 {
				gen(append(cur, i), used|1<<i)
			}
		}
	}
	gen(nil, 0)
	for _, ord := range orders {
		states++
		var ps []fpgo.Pattern
		var names []string
		for _, i := range ord {
			ps = append(ps, specs[i].mk(specs[i].name))
			names = append(names, specs[i].name)
		}
		pm := fpgo.DefPattern(ps...)
		for _, pb := range probes {
			trans++
			// normalisation done by MatchFor: a non-nil pointer to a struct is matched as the struct
			val := pb.v
			if rv := reflect.ValueOf(pb.v); pb.v != nil && rv.Kind() == reflect.Ptr && !rv.IsNil() && rv.Elem().Kind() == reflect.Struct {
				val = rv.Elem().Interface()
			}
			want := "PANIC"
			for _, i := range ord {
				if specs[i].accepts(val) {
					want = specs[i].name + ":" + render(val)
					break
				}
			}
			got := ""
			p := lib.Catch(func() { got = fmt.Sprint(pm.MatchFor(pb.v)) })
			if p != "" {
				got = "PANIC"
			}
			if got != want {
				clause := "first-match"
				if got == "PANIC" {
					clause = "panics-although-a-pattern-accepts"
				} else if want == "PANIC" {
					clause = "no-panic-although-nothing-accepts"
				}
				first := "none"
				if len(names) > 0 {
					first = names[0]
				}
				key := fmt.Sprintf("C20|match|%s|probe=%s", clause, pb.name)
				if clause == "panics-although-a-pattern-accepts" {
					key += "|tried=" + firstTried(specs, ord, val)
				}
				_ = first
				r.Violation(key, fmt.Sprintf("patterns %v, value %s: MatchFor gave %s %s, first accepting pattern gives %s", names, pb.name, got, p, want),
					map[string]interface{}{"patterns": names, "probe": pb.name, "got": got, "want": want})
			}
		}
		if len(*samples) < 3 && len(ord) == 4 {
			*samples = append(*samples, map[string]interface{}{"pattern_list": names, "probes": len(probes)})
		}
	}
	// equality patterns: the test is Go's == on the two interface values (same dynamic type and equal
	// value; pointers by identity, structs field by field with pointer fields by identity)
	five2 := 5
	eqProbes := append(append([]probe{}, probes...), probe{"*int other pointer to 5", &five2},
		probe{"struct with pointer field (same pointer)", ptrStruct{&five}}, probe{"struct with pointer field (other pointer to 5)", ptrStruct{&five2}},
		probe{"plainStruct{3} again", plainStruct{3}}, probe{"int 5", 5})
	eqVals := []struct {
		name string
		v    interface{}
	}{{"7", 7}, {"&five", &five}, {"ptrStruct{&five}", ptrStruct{&five}}, {"plainStruct{3}", plainStruct{3}}, {"\"abc\"", "abc"}, {"nil", nil}}
	var eqSpecs []patSpec
	for _, ev := range eqVals {
		ev := ev
		eqSpecs = append(eqSpecs, patSpec{"Equal(" + ev.name + ")", func(t string) fpgo.Pattern { return fpgo.InCaseOfEqual(ev.v, eff(t)) },
			func(v interface{}) bool { return ev.v == v }})
	}
	eqSpecs = append(eqSpecs, patSpec{"Regex(^$)", func(t string) fpgo.Pattern { return fpgo.InCaseOfRegex("^$", eff(t)) }, func(v interface{}) bool { s, ok := v.(string); return ok && s == "" }})
	eqSpecs = append(eqSpecs, patSpec{"Regex(z*)", func(t string) fpgo.Pattern { return fpgo.InCaseOfRegex("z*", eff(t)) }, func(v interface{}) bool { _, ok := v.(string); return ok }})
	eqSpecs = append(eqSpecs, patSpec{"Regex(invalid)", func(t string) fpgo.Pattern { return fpgo.InCaseOfRegex("a(", eff(t)) }, func(v interface{}) bool { return false }})
	eqSpecs = append(eqSpecs, specs[6])
	var eqOrders [][]int
	var gen2 func(cur []int, used int)
	gen2 = func(cur []int, used int) {
		eqOrders = append(eqOrders, append([]int{}, cur...))
		if (len(cur) == 3 && tier != "thorough") || len(cur) == 5 { // ordered subsets of up to 3 (thorough: 5) of the 11 patterns
			return
		}
		for i := range eqSpecs {
			if used&(1<<i) == 0 {
				gen2(append(cur, i), used|1<<i)
			}
		}
	}
	gen2(nil, 0)
	for _, ord := range eqOrders {
		states++
		var ps []fpgo.Pattern
		var names []string
		for _, i := range ord {
			ps = append(ps, eqSpecs[i].mk(eqSpecs[i].name))
			names = append(names, eqSpecs[i].name)
		}
		pm := fpgo.DefPattern(ps...)
		for _, pb := range eqProbes {
			trans++
			val := pb.v
			if rv := reflect.ValueOf(pb.v); pb.v != nil && rv.Kind() == reflect.Ptr && !rv.IsNil() && rv.Elem().Kind() == reflect.Struct {
				val = rv.Elem().Interface()
			}
			want := "PANIC"
			for _, i := range ord {
				if eqSpecs[i].accepts(val) {
					want = eqSpecs[i].name + ":" + render(val)
					break
				}
			}
			got := ""
			for twice := 0; twice < 2; twice++ { // the second evaluation of the same list must answer the same
				got = ""
				if p := lib.Catch(func() { got = fmt.Sprint(pm.MatchFor(pb.v)) }); p != "" {
					got = "PANIC"
				}
				if got != want {
					break
				}
			}
			if got != want {
				r.Violation(fmt.Sprintf("C20|match-equal|probe=%s", pb.name), fmt.Sprintf("patterns %v, value %s: MatchFor gave %s, the first pattern whose value == the probe gives %s", names, pb.name, got, want),
					map[string]interface{}{"patterns": names, "probe": pb.name, "got": got, "want": want})
			}
		}
	}
	// nil containers keep their kind: a nil slice / map / func / chan is a value of that kind (only untyped nil
	// and nil pointers are "nil" to the patterns and to the Nil type). Ordered subsets of up to 3 of
	// {Kind(Slice), Kind(Map), Kind(Func), Kind(Chan), SumType(Nil|Int x String), Otherwise} x nil and non-nil probes.
	{
		var nilFunc func()
		var nilChan chan int
		cProbes := []probe{{"nil []int", []int(nil)}, {"empty []int", []int{}}, {"nil map", map[string]int(nil)}, {"empty map", map[string]int{}},
			{"nil func", nilFunc}, {"func", func() {}}, {"nil chan", nilChan}, {"chan", make(chan int)}, {"untyped nil", nil}, {"typed nil *int", (*int)(nil)}, {"nil []string", []string(nil)}}
		kindSpec := func(k reflect.Kind) patSpec {
			return patSpec{"Kind(" + k.String() + ")", func(t string) fpgo.Pattern { return fpgo.InCaseOfKind(k, eff(t)) }, func(v interface{}) bool { return !isNilRef(v) && kindRef(v) == k }}
		}
		cSpecs := []patSpec{kindSpec(reflect.Slice), kindSpec(reflect.Map), kindSpec(reflect.Func), kindSpec(reflect.Chan), specs[3], specs[6]}
		var cOrders [][]int
		var genC func(cur []int, used int)
		genC = func(cur []int, used int) {
			if len(cur) > 0 {
				cOrders = append(cOrders, append([]int{}, cur...))
			}
			if len(cur) == 3 {
				return
			}
			for i := range cSpecs {
				if used&(1<<i) == 0 {
					genC(append(cur, i), used|1<<i)
				}
			}
		}
		genC(nil, 0)
		for _, ord := range cOrders {
			states++
			var ps []fpgo.Pattern
			var names []string
			for _, i := range ord {
				ps = append(ps, cSpecs[i].mk(cSpecs[i].name))
				names = append(names, cSpecs[i].name)
			}
			pm := fpgo.DefPattern(ps...)
			for _, pb := range cProbes {
				trans++
				want := "PANIC"
				for _, i := range ord {
					if cSpecs[i].accepts(pb.v) {
						want = cSpecs[i].name
						break
					}
				}
				got := ""
				if p := lib.Catch(func() { got = strings.SplitN(fmt.Sprint(pm.MatchFor(pb.v)), ":", 2)[0] }); p != "" {
					got = "PANIC"
				}
				if got != want {
					r.Violation(fmt.Sprintf("C20|match-nil-container|probe=%s", pb.name), fmt.Sprintf("patterns %v, value %s: MatchFor chose %s, the first accepting pattern is %s (a nil slice / map / func / chan is a value of its kind)", names, pb.name, got, want),
						map[string]interface{}{"patterns": names, "probe": pb.name, "got": got, "want": want})
				}
			}
		}
		// the same for NewCompData: a nil slice is a Slice, not the Nil type
		prodT := fpgo.DefSum(fpgo.DefProduct(reflect.Int, reflect.Slice), fpgo.NilType)
		for _, c := range []struct {
			name string
			args []interface{}
			ok   bool
		}{{"(1, nil []int)", []interface{}{1, []int(nil)}, true}, {"(1, empty []int)", []interface{}{1, []int{}}, true}, {"(nil []int)", []interface{}{[]int(nil)}, false},
			{"(nil map)", []interface{}{map[string]int(nil)}, false}, {"(untyped nil)", []interface{}{nil}, true}, {"(1, nil map)", []interface{}{1, map[string]int(nil)}, false}} {
			trans++
			states++
			var cd *fpgo.CompData
			p := lib.Catch(func() { cd = fpgo.NewCompData(prodT, c.args...) })
			if p != "" || (cd != nil) != c.ok {
				r.Violation("C20|compdata|nil-container", fmt.Sprintf("NewCompData(Sum(Product(Int,Slice),Nil), %s) returned a value: %v %s; its arguments match the declared type: %v", c.name, cd != nil, p, c.ok), nil)
			}
		}
	}
	// wide product types: every arity from 1 to 12, the kinds cycling through Int, String, Bool, Float64; the
	// matching tuple is accepted, and the tuple with a value of another kind at any ONE position is refused
	{
		kindsCycle := []reflect.Kind{reflect.Int, reflect.String, reflect.Bool, reflect.Float64}
		valOf := map[reflect.Kind]interface{}{reflect.Int: 1, reflect.String: "s", reflect.Bool: true, reflect.Float64: 2.5}
		for n := 1; n <= 12; n++ {
			var kinds []reflect.Kind
			var good []interface{}
			for i := 0; i < n; i++ {
				k := kindsCycle[(i+n)%len(kindsCycle)]
				kinds = append(kinds, k)
				good = append(good, valOf[k])
			}
			pt := fpgo.DefSum(fpgo.DefProduct(kinds...))
			for wrong := -1; wrong < n; wrong++ {
				trans++
				states++
				args := append([]interface{}{}, good...)
				if wrong >= 0 {
					args[wrong] = valOf[kindsCycle[(wrong+n+1)%len(kindsCycle)]] // the next kind of the cycle: a different one
				}
				var cd *fpgo.CompData
				p := lib.Catch(func() { cd = fpgo.NewCompData(pt, args...) })
				if p != "" || (cd != nil) != (wrong < 0) {
					r.Violation("C20|compdata|wide-product", fmt.Sprintf("product type of %d kinds %v, arguments %v (position %d holds another kind; -1: none): NewCompData returned a value: %v %s", n, kinds, args, wrong, cd != nil, p),
						map[string]interface{}{"arity": n, "wrong_position": wrong})
				}
				if wrong >= 0 {
					// and a sum-type pattern of this type must not accept a CompData of the neighbouring type
					other := fpgo.DefSum(fpgo.DefProduct(func() []reflect.Kind {
						ks := append([]reflect.Kind{}, kinds...)
						ks[wrong] = kindsCycle[(wrong+n+1)%len(kindsCycle)]
						return ks
					}()...))
					if od := fpgo.NewCompData(other, args...); od != nil {
						trans++
						got := ""
						if p := lib.Catch(func() {
							got = fmt.Sprint(fpgo.DefPattern(fpgo.InCaseOfSumType(pt, func(interface{}) interface{} { return "sum" }), fpgo.Otherwise(func(interface{}) interface{} { return "otherwise" })).MatchFor(od))
						}); p != "" || got != "otherwise" {
							r.Violation("C20|match|wide-product", fmt.Sprintf("a CompData of a %d-field product type that differs from the pattern's type at position %d: [SumType, Otherwise] chose %q %s", n, wrong, got, p), nil)
						}
					}
				}
			}
		}
	}
	// sum types whose members talk about structs: Product(Struct) accepts a plain struct (and a pointer to one,
	// which MatchFor unpacks), the empty Product accepts no value at all; a struct that is not CompData is never
	// taken for an empty CompData
	{
		structT := fpgo.DefSum(fpgo.DefProduct(reflect.Struct), fpgo.DefProduct(reflect.Int, reflect.Int))
		emptyT := fpgo.DefSum(fpgo.DefProduct())
		for _, c := range []struct {
			name  string
			v     interface{}
			wantS string // with [SumType(Product(Struct) | Product(Int,Int)), Otherwise]
			wantE string // with [SumType(Product()), Otherwise]
		}{
			{"plain struct", plainStruct{3}, "sum", "otherwise"},
			{"pointer to struct", &plainStruct{4}, "sum", "otherwise"},
			{"struct with pointer field", ptrStruct{&five}, "sum", "otherwise"},
			{"int", 7, "otherwise", "otherwise"},
			{"string", "s", "otherwise", "otherwise"},
			{"CompData of Product(Int,Int)", *fpgo.NewCompData(structT, 1, 2), "sum", "otherwise"},
			{"CompData of another type", *other, "otherwise", "otherwise"},
		} {
			for which, tt := range []fpgo.CompType{structT, emptyT} {
				trans++
				states++
				want := c.wantS
				if which == 1 {
					want = c.wantE
				}
				got := ""
				if p := lib.Catch(func() {
					got = fmt.Sprint(fpgo.DefPattern(fpgo.InCaseOfSumType(tt, func(interface{}) interface{} { return "sum" }), fpgo.Otherwise(func(interface{}) interface{} { return "otherwise" })).MatchFor(c.v))
				}); p != "" {
					got = "PANIC " + p
				}
				if got != want {
					r.Violation("C20|match|sum-type-of-structs", fmt.Sprintf("[SumType(%s), Otherwise] on a %s chose %q, the first accepting pattern gives %q", []string{"Product(Struct) | Product(Int,Int)", "Product()"}[which], c.name, got, want),
						map[string]interface{}{"probe": c.name, "got": got, "want": want})
				}
			}
		}
	}
	// an effect that fails: MatchFor has chosen the first accepting pattern - its effect is applied, no other
	// pattern's effect is, and what the effect does (panic with its own value; a nested MatchFor that nothing
	// accepts) is what the caller sees. Lists [p], [p, q] and [q, p] over all pairs of pattern kinds, p failing.
	for _, mode := range []string{"BOOM", "NEST"} {
		for i := range specs {
			for j := -1; j < len(specs); j++ {
				if j == i {
					continue
				}
				for _, failingFirst := range []bool{true, false} {
					if j < 0 && !failingFirst {
						continue
					}
					states++
					type ent struct {
						spec int
						tag  string
					}
					ents := []ent{{i, mode + " " + specs[i].name}}
					if j >= 0 {
						o := ent{j, "ok " + specs[j].name}
						if failingFirst {
							ents = append(ents, o)
						} else {
							ents = []ent{o, ents[0]}
						}
					}
					var ps []fpgo.Pattern
					var names []string
					for _, e := range ents {
						ps = append(ps, specs[e.spec].mk(e.tag))
						names = append(names, e.tag)
					}
					pm := fpgo.DefPattern(ps...)
					for _, pb := range probes {
						trans++
						val := pb.v
						if rv := reflect.ValueOf(pb.v); pb.v != nil && rv.Kind() == reflect.Ptr && !rv.IsNil() && rv.Elem().Kind() == reflect.Struct {
							val = rv.Elem().Interface()
						}
						want, wantApplied := "PANIC:Cannot match", []string{}
						for _, e := range ents {
							if specs[e.spec].accepts(val) {
								wantApplied = []string{e.tag}
								switch {
								case strings.HasPrefix(e.tag, "BOOM"):
									want = "PANIC:effect failure in " + e.tag
								case strings.HasPrefix(e.tag, "NEST"):
									want = "PANIC:Cannot match"
								default:
									want = e.tag + ":" + render(val)
								}
								break
							}
						}
						effectsApplied = nil
						got := ""
						if p := lib.Catch(func() { got = fmt.Sprint(pm.MatchFor(pb.v)) }); p != "" {
							got = "PANIC:other"
							for _, w := range []string{"Cannot match", "effect failure in " + ents[0].tag, "effect failure in " + ents[len(ents)-1].tag} {
								if strings.Contains(p, w) {
									got = "PANIC:" + w
									break
								}
							}
						}
						if got != want || fmt.Sprint(effectsApplied) != fmt.Sprint(wantApplied) {
							r.Violation(fmt.Sprintf("C20|match-failing-effect|%s|probe=%s", mode, pb.name), fmt.Sprintf("patterns %v (BOOM: the effect panics, NEST: the effect runs a MatchFor that nothing accepts), value %s: MatchFor gave %s after applying the effects %v; the first accepting pattern gives %s, applying %v", names, pb.name, got, effectsApplied, want, wantApplied),
								map[string]interface{}{"patterns": names, "probe": pb.name, "got": got, "want": want, "effects_applied": fmt.Sprint(effectsApplied)})
						}
					}
				}
			}
		}
	}
	// Either is MatchFor over the same list
	trans++
	if got := fmt.Sprint(fpgo.Either("abc", specs[0].mk("k"), specs[5].mk("r"), specs[6].mk("o"))); got != "r:string=abc" {
		r.Violation("C20|match|either", "Either gave "+got, nil)
	}
	return states, trans
}

// firstTried names the pattern (in list order) at which a panic can have happened: the first one
// that is a SumType pattern applied to a struct that is not CompData, else the first one.
func firstTried(specs []patSpec, ord []int, val interface{}) string {
	for _, i := range ord {
		if specs[i].accepts(val) {
			return "before-" + specs[i].name
		}
	}
	return "?"
}

// effectsApplied counts the effects that ran (reset by the caller).
var effectsApplied []string

func eff(tag string) func(interface{}) interface{} {
	return func(v interface{}) interface{} {
		effectsApplied = append(effectsApplied, tag)
		switch {
		case strings.HasPrefix(tag, "BOOM"):
			panic("effect failure in " + tag)
		case strings.HasPrefix(tag, "NEST"): // an inner match that no pattern accepts
			return fpgo.DefPattern(fpgo.InCaseOfEqual(struct{ unmatchable int }{1}, func(interface{}) interface{} { return "inner" })).MatchFor(v)
		}
		return tag + ":" + render(v)
	}
}

func render(v interface{}) string {
	s := fmt.Sprintf("%T=%v", v, v)
	if strings.Contains(s, "0x") { // pointers / funcs / chans: type only
		return fmt.Sprintf("%T", v)
	}
	return s
}

func compObjects(cd fpgo.CompData) []interface{} {
	v := lib.Priv(&cd, "objects")
	out := make([]interface{}, v.Len())
	for i := range out {
		out[i] = v.Index(i).Interface()
	}
	return out
}
