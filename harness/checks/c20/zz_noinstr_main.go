// C20: combinators compose in the documented order; pattern matching is first-match.
package main

import (
	"time"

	"verifharness/lib/e1"
)

func main() {
	e1.Sequential = sequential
	e1.Main("C20", scenarios, e1.Budget{Quick: 90 * time.Second, Thorough: 15 * time.Minute},
		[]string{"function lists, pattern lists and probes are enumerated sequentially on the same instrumented build; concurrent CurryDef.Call under the scheduler"})
}
