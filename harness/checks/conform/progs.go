package main

// Conformance battery (DESIGN §2.8, Appendix B): micro-programs over the Go runtime primitives. This
// file is compiled twice: as is (package conformreal, run free on the real runtime) and rewritten by
// instr (this package, explored exhaustively under vsched). Outcomes of the real runs must be a
// subset of the explored outcomes; for programs marked Exact the two sets must be equal.

import (
	"context"
	"fmt"
	"runtime"
	"sort"
	"strings"
	"sync"
	"sync/atomic"
	"time"
)

type Prog struct {
	Name  string
	Exact bool // the real runtime shows every outcome within the sample (or the program is deterministic)
	Run   func() string
}

// Deterministic names the programs whose outcome does not depend on the schedule (one goroutine, or every
// order leads to the same result): for these a model that shows a second outcome is wrong, whatever the sample.
var Deterministic = map[string]bool{"buffered-fifo": true, "close-then-drain": true, "send-after-close-panics": true,
	"close-twice-panics": true, "close-nil-panics": true, "select-nil-channel-never": true, "close-detaches-parked-sender": true, "atomic-value-panics": true, "rwmutex-try": true, "cond-signal-broadcast": true, "once-value": true, "ticker-drops-unread-ticks": true, "ticker-reset": true, "context-cancel-propagates": true, "context-already-expired": true}

type rec struct {
	mu sync.Mutex
	s  []string
}

func (r *rec) add(format string, a ...interface{}) {
	r.mu.Lock()
	r.s = append(r.s, fmt.Sprintf(format, a...))
	r.mu.Unlock()
}
func (r *rec) String() string { return strings.Join(r.s, ",") }
func (r *rec) sorted() string {
	c := append([]string{}, r.s...)
	sort.Strings(c)
	return strings.Join(c, ",")
}

func catch(r *rec, f func()) {
	defer func() {
		if p := recover(); p != nil {
			r.add("panic:%v", p)
		}
	}()
	f()
}

var Programs = []Prog{
	{"buffered-fifo", true, func() string {
		c := make(chan int, 3)
		c <- 1
		c <- 2
		c <- 3
		return fmt.Sprint(<-c, <-c, <-c, len(c))
	}},
	{"buffered-full-blocks", true, func() string {
		var r rec
		c := make(chan int, 1)
		var wg sync.WaitGroup
		wg.Add(1)
		go func() { c <- 1; c <- 2; r.add("sent2"); wg.Done() }()
		r.add("got%d", <-c)
		r.add("got%d", <-c)
		wg.Wait()
		return r.sorted()
	}},
	{"len-of-channel", true, func() string {
		c := make(chan int, 2)
		a := len(c)
		c <- 1
		b := len(c)
		<-c
		return fmt.Sprint(a, b, len(c), cap(c))
	}},
	{"close-then-drain", true, func() string {
		c := make(chan int, 2)
		c <- 7
		close(c)
		v1, ok1 := <-c
		v2, ok2 := <-c
		return fmt.Sprint(v1, ok1, v2, ok2)
	}},
	{"send-after-close-panics", true, func() string {
		var r rec
		c := make(chan int, 1)
		close(c)
		catch(&r, func() { c <- 1 })
		return r.String()
	}},
	{"close-twice-panics", true, func() string {
		var r rec
		c := make(chan int)
		close(c)
		catch(&r, func() { close(c) })
		return r.String()
	}},
	{"close-nil-panics", true, func() string {
		var r rec
		var c chan int
		catch(&r, func() { close(c) })
		return r.String()
	}},
	{"unbuffered-rendezvous", true, func() string {
		c := make(chan int)
		done := make(chan int)
		go func() { c <- 5; done <- 1 }()
		v := <-c
		<-done
		return fmt.Sprint(v)
	}},
	{"two-senders-one-receiver", false, func() string {
		c := make(chan int)
		go func() { c <- 1 }()
		go func() { c <- 2 }()
		return fmt.Sprint(<-c, <-c)
	}},
	{"close-wakes-receiver", true, func() string {
		c := make(chan int)
		res := make(chan string, 1)
		go func() { v, ok := <-c; res <- fmt.Sprint(v, ok) }()
		close(c)
		return <-res
	}},
	{"close-detaches-parked-sender", true, func() string {
		// whether the sender is parked when the channel is closed or arrives afterwards, it panics, and a receive
		// made after the close sees a closed, empty channel - never the parked sender's value
		var r rec
		c := make(chan int)
		var wg sync.WaitGroup
		wg.Add(1)
		go func() { catch(&r, func() { c <- 1; r.add("sent") }); wg.Done() }()
		time.Sleep(2 * time.Millisecond)
		close(c)
		v, ok := <-c
		r.add("recv %v %v", v, ok)
		wg.Wait()
		return r.sorted()
	}},
	{"close-vs-sender", false, func() string {
		var r rec
		c := make(chan int)
		var wg sync.WaitGroup
		wg.Add(1)
		go func() { catch(&r, func() { c <- 1; r.add("sent") }); wg.Done() }()
		select {
		case v := <-c:
			r.add("got%d", v)
		default:
			close(c)
			r.add("closed")
		}
		wg.Wait()
		return r.sorted()
	}},
	{"nonblocking-send", true, func() string {
		c := make(chan int)
		got := make(chan int, 1)
		go func() { got <- <-c }()
		select {
		case c <- 1:
			return fmt.Sprint("sent", <-got)
		default:
			return "default"
		}
	}},
	{"nonblocking-recv", false, func() string {
		c := make(chan int)
		var wg sync.WaitGroup
		wg.Add(1)
		go func() {
			select {
			case c <- 1:
			case <-time.After(20 * time.Millisecond):
			}
			wg.Done()
		}()
		out := "default"
		select {
		case v := <-c:
			out = fmt.Sprint("got", v)
		default:
		}
		if out == "default" {
			// release the sender
			select {
			case <-c:
			case <-time.After(40 * time.Millisecond):
			}
		}
		wg.Wait()
		return out
	}},
	{"select-default-only-when-idle", true, func() string {
		c := make(chan int, 1)
		c <- 9
		select {
		case v := <-c:
			return fmt.Sprint("got", v)
		default:
			return "default"
		}
	}},
	{"select-two-ready", true, func() string {
		a, b := make(chan int, 1), make(chan int, 1)
		a <- 1
		b <- 2
		select {
		case v := <-a:
			return fmt.Sprint("a", v)
		case v := <-b:
			return fmt.Sprint("b", v)
		}
	}},
	{"select-send-and-recv", true, func() string {
		in, out := make(chan int, 1), make(chan int, 1)
		in <- 1
		select {
		case v := <-in:
			return fmt.Sprint("recv", v)
		case out <- 2:
			return "send"
		}
	}},
	{"select-nil-channel-never", true, func() string {
		var n chan int
		c := make(chan int, 1)
		c <- 3
		select {
		case v := <-n:
			return fmt.Sprint("nil", v)
		case v := <-c:
			return fmt.Sprint("c", v)
		}
	}},
	{"select-closed-channel", true, func() string {
		c := make(chan int)
		close(c)
		select {
		case v, ok := <-c:
			return fmt.Sprint(v, ok)
		case <-time.After(time.Minute): // (long: a stalled machine must not make the real side show "timeout")
			return "timeout"
		}
	}},
	{"select-woken-by-later-sender", true, func() string {
		a, b := make(chan int), make(chan int)
		go func() { b <- 4 }()
		select {
		case v := <-a:
			return fmt.Sprint("a", v)
		case v := <-b:
			return fmt.Sprint("b", v)
		}
	}},
	{"select-send-panics-on-closed", true, func() string {
		var r rec
		c := make(chan int, 1)
		close(c)
		catch(&r, func() {
			select {
			case c <- 1:
				r.add("sent")
			default:
				r.add("default")
			}
		})
		return r.String()
	}},
	{"range-until-close", true, func() string {
		c := make(chan int, 1)
		go func() {
			for i := 1; i <= 3; i++ {
				c <- i
			}
			close(c)
		}()
		s := 0
		n := 0
		for v := range c {
			s += v
			n++
		}
		return fmt.Sprint(n, s)
	}},
	{"pipeline-order", true, func() string {
		a, b := make(chan int), make(chan int, 2)
		go func() {
			for v := range a {
				b <- v * 10
			}
			close(b)
		}()
		go func() { a <- 1; a <- 2; a <- 3; close(a) }()
		var out []int
		for v := range b {
			out = append(out, v)
		}
		return fmt.Sprint(out)
	}},
	{"mutex-exclusion", true, func() string {
		var mu sync.Mutex
		n, inside, bad := 0, 0, 0
		var wg sync.WaitGroup
		for i := 0; i < 3; i++ {
			wg.Add(1)
			go func() {
				mu.Lock()
				inside++
				if inside > 1 {
					bad++
				}
				n++
				inside--
				mu.Unlock()
				wg.Done()
			}()
		}
		wg.Wait()
		return fmt.Sprint(n, bad)
	}},
	{"rwmutex-writer-excludes", true, func() string {
		var mu sync.RWMutex
		var wg sync.WaitGroup
		readers, writers, bad := int32(0), int32(0), int32(0)
		for i := 0; i < 2; i++ {
			wg.Add(1)
			go func() {
				mu.RLock()
				atomic.AddInt32(&readers, 1)
				if atomic.LoadInt32(&writers) > 0 {
					atomic.AddInt32(&bad, 1)
				}
				atomic.AddInt32(&readers, -1)
				mu.RUnlock()
				wg.Done()
			}()
		}
		wg.Add(1)
		go func() {
			mu.Lock()
			atomic.AddInt32(&writers, 1)
			if atomic.LoadInt32(&readers) > 0 {
				atomic.AddInt32(&bad, 1)
			}
			atomic.AddInt32(&writers, -1)
			mu.Unlock()
			wg.Done()
		}()
		wg.Wait()
		return fmt.Sprint(bad)
	}},
	{"rwmutex-readers-overlap", false, func() string {
		var mu sync.RWMutex
		var wg sync.WaitGroup
		cur, max := int32(0), int32(0)
		for i := 0; i < 2; i++ {
			wg.Add(1)
			go func() {
				mu.RLock()
				c := atomic.AddInt32(&cur, 1)
				for {
					m := atomic.LoadInt32(&max)
					if c <= m || atomic.CompareAndSwapInt32(&max, m, c) {
						break
					}
				}
				atomic.AddInt32(&cur, -1)
				mu.RUnlock()
				wg.Done()
			}()
		}
		wg.Wait()
		return fmt.Sprint(max)
	}},
	{"rwmutex-pending-writer-order", false, func() string {
		// a reader holds the lock; a writer and a second reader arrive in either order
		var mu sync.RWMutex
		var r rec
		var wg sync.WaitGroup
		mu.RLock()
		wg.Add(2)
		go func() { mu.Lock(); r.add("W"); mu.Unlock(); wg.Done() }()
		go func() { mu.RLock(); r.add("R"); mu.RUnlock(); wg.Done() }()
		mu.RUnlock()
		wg.Wait()
		return r.String()
	}},
	{"waitgroup-reuse", true, func() string {
		var wg sync.WaitGroup
		n := int32(0)
		for round := 0; round < 2; round++ {
			wg.Add(2)
			for i := 0; i < 2; i++ {
				go func() { atomic.AddInt32(&n, 1); wg.Done() }()
			}
			wg.Wait()
		}
		wg.Wait()
		return fmt.Sprint(n)
	}},
	{"waitgroup-negative-panics", true, func() string {
		var r rec
		var wg sync.WaitGroup
		catch(&r, func() { wg.Add(-1) })
		return r.String()
	}},
	{"atomic-store-load-visibility", false, func() string {
		var x, y int32
		var r1, r2 int32
		var wg sync.WaitGroup
		wg.Add(2)
		go func() { atomic.StoreInt32(&x, 1); r1 = atomic.LoadInt32(&y); wg.Done() }()
		go func() { atomic.StoreInt32(&y, 1); r2 = atomic.LoadInt32(&x); wg.Done() }()
		wg.Wait()
		return fmt.Sprint(r1, r2)
	}},
	{"rwmutex-try", true, func() string {
		var m sync.RWMutex
		a := fmt.Sprint(m.TryRLock(), m.TryRLock(), m.TryLock())
		m.RUnlock()
		m.RUnlock()
		b := fmt.Sprint(m.TryLock(), m.TryLock(), m.TryRLock())
		m.Unlock()
		return a + " " + b + " " + fmt.Sprint(m.TryLock())
	}},
	{"cond-signal-broadcast", true, func() string {
		var mu sync.Mutex
		c := sync.NewCond(&mu)
		ready, woken := 0, 0
		var wg sync.WaitGroup
		for i := 0; i < 3; i++ {
			wg.Add(1)
			go func() {
				mu.Lock()
				ready++
				for ready < 100 {
					c.Wait()
				}
				woken++
				mu.Unlock()
				wg.Done()
			}()
		}
		for {
			mu.Lock()
			if ready == 3 {
				ready = 100
				c.Signal()
				c.Broadcast()
				mu.Unlock()
				break
			}
			mu.Unlock()
			time.Sleep(time.Millisecond)
		}
		wg.Wait()
		return fmt.Sprint(woken)
	}},
	{"once-value", true, func() string {
		n := 0
		f := sync.OnceValue(func() int { n++; return 40 + n })
		return fmt.Sprint(f(), f(), n)
	}},
	{"atomic-value-panics", true, func() string {
		var r rec
		var v atomic.Value
		catch(&r, func() { v.Store(nil) })
		r.add("loaded %v", v.Load())
		v.Store(1)
		catch(&r, func() { v.Store("s") })
		catch(&r, func() { v.Swap(nil) })
		r.add("swapped %v", v.Swap(2))
		r.add("cas %v %v", v.CompareAndSwap(1, 3), v.CompareAndSwap(2, 3))
		r.add("loaded %v", v.Load())
		return r.String()
	}},
	{"atomic-cas-winner-unique", true, func() string {
		var flag, winners int32
		var wg sync.WaitGroup
		for i := 0; i < 3; i++ {
			wg.Add(1)
			go func() {
				if atomic.CompareAndSwapInt32(&flag, 0, 1) {
					atomic.AddInt32(&winners, 1)
				}
				wg.Done()
			}()
		}
		wg.Wait()
		return fmt.Sprint(winners)
	}},
	{"once", true, func() string {
		var once sync.Once
		n := int32(0)
		var wg sync.WaitGroup
		for i := 0; i < 3; i++ {
			wg.Add(1)
			go func() { once.Do(func() { atomic.AddInt32(&n, 1) }); wg.Done() }()
		}
		wg.Wait()
		return fmt.Sprint(n)
	}},
	{"timer-order", false, func() string {
		var r rec
		var wg sync.WaitGroup
		wg.Add(2)
		go func() { time.Sleep(2 * time.Millisecond); r.add("short"); wg.Done() }()
		go func() { time.Sleep(30 * time.Millisecond); r.add("long"); wg.Done() }()
		wg.Wait()
		return r.String()
	}},
	// time.Timer under the channel semantics of a `go 1.18` module (one buffer slot, Stop / Reset leave a
	// value that was already sent)
	{"timer-stale-after-stop", true, func() string {
		t := time.NewTimer(1 * time.Millisecond)
		time.Sleep(20 * time.Millisecond)
		stopped := t.Stop()
		select {
		case <-t.C:
			return fmt.Sprint(stopped, " stale")
		default:
			return fmt.Sprint(stopped, " empty")
		}
	}},
	{"timer-stopped-in-time", true, func() string {
		t := time.NewTimer(time.Hour)
		stopped := t.Stop()
		again := t.Stop()
		select {
		case <-t.C:
			return fmt.Sprint(stopped, again, " value")
		default:
			return fmt.Sprint(stopped, again, " empty")
		}
	}},
	{"timer-reset-keeps-stale-value", true, func() string {
		t := time.NewTimer(1 * time.Millisecond)
		time.Sleep(20 * time.Millisecond)
		was := t.Reset(time.Hour)
		select {
		case <-t.C:
			return fmt.Sprint(was, " stale")
		default:
			return fmt.Sprint(was, " empty")
		}
	}},
	{"timer-reuse-after-drain", true, func() string {
		t := time.NewTimer(1 * time.Millisecond)
		<-t.C
		was := t.Reset(1 * time.Millisecond)
		<-t.C
		select {
		case <-t.C:
			return fmt.Sprint(was, " extra")
		default:
			return fmt.Sprint(was, " drained")
		}
	}},
	{"timer-photo-finish", false, func() string {
		reply := make(chan int, 1)
		go func() { time.Sleep(2 * time.Millisecond); reply <- 1 }()
		t := time.NewTimer(2 * time.Millisecond)
		got := ""
		select {
		case <-reply:
			got = "reply"
		case <-t.C:
			got = "timeout"
		}
		stopped := t.Stop()
		select {
		case <-t.C:
			return fmt.Sprint(got, stopped, " stale")
		default:
			return fmt.Sprint(got, stopped, " empty")
		}
	}},
	{"ticker-ticks-then-stop", true, func() string {
		a := time.Now() // (before the ticker exists: a reading taken after NewTicker may be later than its start by any amount on a loaded machine)
		tk := time.NewTicker(3 * time.Millisecond)
		<-tk.C
		<-tk.C
		el := time.Since(a) >= 6*time.Millisecond
		tk.Stop()
		select {
		case <-tk.C:
			return fmt.Sprint(el, " tick after Stop")
		case <-time.After(20 * time.Millisecond):
			return fmt.Sprint(el, " quiet")
		}
	}},
	{"ticker-drops-unread-ticks", true, func() string {
		tk := time.NewTicker(time.Millisecond)
		time.Sleep(15 * time.Millisecond)
		tk.Stop()
		n := 0
		for {
			select {
			case <-tk.C:
				n++
				continue
			default:
			}
			break
		}
		return fmt.Sprint(n)
	}},
	{"ticker-reset", true, func() string {
		tk := time.NewTicker(time.Hour)
		tk.Reset(2 * time.Millisecond)
		<-tk.C
		tk.Stop()
		return "ticked"
	}},
	{"context-timeout", true, func() string {
		ctx, cancel := context.WithTimeout(context.Background(), 2*time.Millisecond)
		defer cancel()
		_, has := ctx.Deadline()
		select {
		case <-ctx.Done():
			return fmt.Sprint(ctx.Err(), has)
		case <-time.After(time.Minute):
			return "late"
		}
	}},
	{"context-cancel-propagates", true, func() string {
		parent, cancel := context.WithCancel(context.Background())
		child, cancel2 := context.WithTimeout(context.WithValue(parent, "k", 1), time.Hour)
		defer cancel2()
		before := child.Err()
		go cancel()
		<-child.Done()
		return fmt.Sprint(before, child.Err(), parent.Err(), child.Value("k"))
	}},
	{"context-already-expired", true, func() string {
		ctx, cancel := context.WithTimeout(context.Background(), -time.Second)
		defer cancel()
		select {
		case <-ctx.Done():
			return fmt.Sprint(ctx.Err())
		default:
			return "not done"
		}
	}},
	{"gosched-lets-the-other-run", true, func() string {
		var r rec
		var wg sync.WaitGroup
		wg.Add(1)
		go func() { r.add("other"); wg.Done() }()
		runtime.Gosched()
		r.add("caller")
		wg.Wait()
		return r.String()
	}},
	{"after-does-not-block-firing", true, func() string {
		t := time.After(1 * time.Millisecond)
		time.Sleep(5 * time.Millisecond)
		select {
		case <-t:
			return "fired"
		default:
			return "not-fired"
		}
	}},
	{"data-vs-timeout-data-present", false, func() string {
		c := make(chan int, 1)
		c <- 1
		select {
		case v := <-c:
			return fmt.Sprint("data", v)
		case <-time.After(time.Minute):
			return "timeout"
		}
	}},
	{"timeout-when-no-data", true, func() string {
		c := make(chan int)
		select {
		case v := <-c:
			return fmt.Sprint("data", v)
		case <-time.After(2 * time.Millisecond):
			return "timeout"
		}
	}},
	{"now-increasing", true, func() string {
		a := time.Now()
		b := time.Now()
		time.Sleep(time.Millisecond)
		c := time.Now()
		return fmt.Sprint(!b.Before(a), c.After(a), c.Sub(a) >= time.Millisecond)
	}},
	{"producer-consumer-unbuffered-with-done", true, func() string {
		data, done := make(chan int), make(chan struct{})
		var out []int
		go func() {
			for v := range data {
				out = append(out, v)
			}
			close(done)
		}()
		for i := 0; i < 3; i++ {
			data <- i
		}
		close(data)
		<-done
		return fmt.Sprint(out)
	}},
	{"handoff-through-buffered-token", true, func() string {
		tok := make(chan int, 1)
		var r rec
		var wg sync.WaitGroup
		for i := 0; i < 2; i++ {
			i := i
			wg.Add(1)
			go func() {
				select {
				case tok <- i:
					r.add("posted")
				default:
					r.add("dropped")
				}
				wg.Done()
			}()
		}
		wg.Wait()
		return r.sorted()
	}},
}
