// conform: binds the vsched runtime model to the real Go runtime (DESIGN §2.8).
package main

import (
	"fmt"
	"os"
	"runtime"
	"sort"
	"strings"
	"sync"

	"github.com/TeaEntityLab/fpGo/v2/zzverif/vsched"
	"verifharness/conformreal"
)

func main() {
	bad := 0
	realProgs := conformreal.Programs
	runs := 1500
	if os.Getenv("CONFORM_RUNS") != "" {
		fmt.Sscan(os.Getenv("CONFORM_RUNS"), &runs)
	}
	for i, p := range Programs {
		// (a) model: exhaustive exploration (pre-emption bound 6 is beyond what these programs can use; timers may fire early)
		outcomes := map[string]bool{}
		sc := &vsched.Scenario{Name: p.Name, Bound: 5, TimerDev: true,
			Body: func() { vsched.Event("outcome", p.Run()) },
			Check: func(r *vsched.Result) []vsched.Failure {
				o := ""
				for _, e := range r.Events {
					if e.Kind == "outcome" {
						o = e.Args[0].(string)
					}
				}
				if len(r.Panics) > 0 {
					o = "THREAD-PANIC:" + r.Panics[0].Value
				} else if o == "" {
					o = "NO-RETURN(blocked)"
				}
				outcomes[o] = true
				return nil
			}}
		st, _ := vsched.Explore(sc, vsched.Options{})
		// also without the state cache: the sets must agree
		nc := map[string]bool{}
		sc2 := *sc
		sc2.NoCache = true
		sc2.Bound = 3
		sc2.Check = func(r *vsched.Result) []vsched.Failure {
			for _, e := range r.Events {
				if e.Kind == "outcome" {
					nc[e.Args[0].(string)] = true
				}
			}
			return nil
		}
		vsched.Explore(&sc2, vsched.Options{})
		// (b) real runtime, free running
		real := map[string]bool{}
		for _, procs := range []int{1, 4} {
			runtime.GOMAXPROCS(procs)
			var mu sync.Mutex
			var wg sync.WaitGroup
			sem := make(chan struct{}, 8)
			for k := 0; k < runs; k++ {
				wg.Add(1)
				sem <- struct{}{}
				go func() {
					o := realProgs[i].Run()
					mu.Lock()
					real[o] = true
					mu.Unlock()
					<-sem
					wg.Done()
				}()
			}
			wg.Wait()
		}
		runtime.GOMAXPROCS(1)
		status := "ok"
		for o := range real {
			if !outcomes[o] {
				status = "MISSING-IN-MODEL"
			}
		}
		if p.Exact && len(real) != len(outcomes) && status == "ok" {
			status = "MODEL-HAS-EXTRA"
		}
		for o := range nc {
			if !outcomes[o] {
				status = "CACHE-LOST-OUTCOME"
			}
		}
		// MODEL-HAS-EXTRA is a note, not an error: the real side is a free-running sample (which outcomes it
		// shows depends on the machine and its load), so an outcome it did not show is no evidence against the
		// model; the error that matters is an outcome of the real runtime that the model cannot produce.
		if status == "MODEL-HAS-EXTRA" && !Deterministic[p.Name] {
			status = "ok(real-sample-narrower)"
		}
		if status != "ok" && status != "ok(real-sample-narrower)" {
			bad++
		}
		fmt.Printf("%-40s %-18s model=%v real=%v (execs %d, hb-states %d)\n", p.Name, status, keys(outcomes), keys(real), st.Execs, st.States)
	}
	if bad > 0 {
		fmt.Printf("ENGINE-ERROR: runtime model does not conform to the real runtime on %d program(s)\n", bad)
		os.Exit(2)
	}
	fmt.Printf("conformance: %d programs ok\n", len(Programs))
}

func keys(m map[string]bool) string {
	var s []string
	for k := range m {
		s = append(s, k)
	}
	sort.Strings(s)
	return "{" + strings.Join(s, " | ") + "}"
}
