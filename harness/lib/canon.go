package lib

import (
	"fmt"
	"reflect"
	"sort"
	"strings"
	"unsafe"
)

// Canon renders the complete (private included) state reachable from the given roots in a
// pointer-free normal form: pointers are numbered in discovery order, map keys sorted, funcs
// reduced to nil/non-nil, sync primitives skipped. Two object graphs with the same Canon string
// are isomorphic, so merged search states have the same futures.
func Canon(roots ...interface{}) string {
	c := &canon{ids: map[unsafe.Pointer]int{}}
	for i, r := range roots {
		if i > 0 {
			c.b.WriteString(" || ")
		}
		c.walk(reflect.ValueOf(r), 0)
	}
	return c.b.String()
}

type canon struct {
	b           strings.Builder
	ids         map[unsafe.Pointer]int
	plainSlices int // > 0: inside the sync.Pool shim, whose item list is a model artefact (only its contents count)
}

func access(v reflect.Value) reflect.Value {
	if v.CanInterface() || !v.CanAddr() {
		return v
	}
	return reflect.NewAt(v.Type(), unsafe.Pointer(v.UnsafeAddr())).Elem()
}

func skipType(t reflect.Type) bool {
	p := t.PkgPath()
	if strings.HasSuffix(p, "zzverif/sync") && t.Name() == "Pool" {
		return false // the shim pool's retained objects are part of the state
	}
	return p == "sync" || p == "sync/atomic" || strings.HasSuffix(p, "zzverif/sync") || strings.HasSuffix(p, "zzverif/atomic")
}

func (c *canon) walk(v reflect.Value, depth int) {
	if depth > 200 {
		c.b.WriteString("<deep>")
		return
	}
	if !v.IsValid() {
		c.b.WriteString("nil")
		return
	}
	t := v.Type()
	if skipType(t) {
		c.b.WriteString("~")
		return
	}
	switch v.Kind() {
	case reflect.Ptr:
		if v.IsNil() {
			c.b.WriteString("nil")
			return
		}
		p := unsafe.Pointer(v.Pointer())
		if id, ok := c.ids[p]; ok {
			fmt.Fprintf(&c.b, "^%d", id)
			return
		}
		id := len(c.ids)
		c.ids[p] = id
		fmt.Fprintf(&c.b, "&%d=", id)
		c.walk(v.Elem(), depth+1)
	case reflect.Interface:
		if v.IsNil() {
			c.b.WriteString("nil")
			return
		}
		e := v.Elem()
		fmt.Fprintf(&c.b, "(%s)", e.Type().String())
		if e.Kind() == reflect.Struct || e.Kind() == reflect.Array {
			// not addressable: copy into an addressable value to reach private fields
			cp := reflect.New(e.Type()).Elem()
			cp.Set(e)
			e = cp
		}
		c.walk(e, depth+1)
	case reflect.Struct:
		if strings.HasSuffix(t.PkgPath(), "zzverif/sync") && t.Name() == "Pool" {
			c.plainSlices++
			defer func() { c.plainSlices-- }()
		}
		c.b.WriteString("{")
		if !v.CanAddr() {
			cp := reflect.New(t).Elem()
			cp.Set(v)
			v = cp
		}
		for i := 0; i < v.NumField(); i++ {
			if i > 0 {
				c.b.WriteString(",")
			}
			c.b.WriteString(t.Field(i).Name)
			c.b.WriteString(":")
			c.walk(access(v.Field(i)), depth+1)
		}
		c.b.WriteString("}")
	case reflect.Slice:
		if v.IsNil() {
			c.b.WriteString("[]nil")
			return
		}
		// length, capacity and the identity of the backing array are part of the state: what a later
		// append or in-place edit does to OTHER slices depends on them
		if c.plainSlices > 0 {
			fmt.Fprintf(&c.b, "[%d:", v.Len())
		} else if v.Cap() > 0 {
			p := unsafe.Pointer(v.Pointer())
			id, ok := c.ids[p]
			if !ok {
				id = len(c.ids)
				c.ids[p] = id
			}
			fmt.Fprintf(&c.b, "[%d/%d@%d:", v.Len(), v.Cap(), id)
		} else {
			fmt.Fprintf(&c.b, "[%d/0:", v.Len())
		}
		for i := 0; i < v.Len(); i++ {
			if i > 0 {
				c.b.WriteString(",")
			}
			c.walk(access(v.Index(i)), depth+1)
		}
		c.b.WriteString("]")
	case reflect.Array:
		c.b.WriteString("[")
		for i := 0; i < v.Len(); i++ {
			if i > 0 {
				c.b.WriteString(",")
			}
			c.walk(access(v.Index(i)), depth+1)
		}
		c.b.WriteString("]")
	case reflect.Map:
		if v.IsNil() {
			c.b.WriteString("map nil")
			return
		}
		// keys are ordered by a rendering made on a scratch copy of the pointer numbering (so that the
		// numbering handed out below does not depend on the map's iteration order), then keys and values
		// are walked in that order
		type kv struct {
			k    string
			key  reflect.Value
			elem reflect.Value
		}
		var items []kv
		it := v.MapRange()
		for it.Next() {
			scratch := map[unsafe.Pointer]int{}
			for p, id := range c.ids {
				scratch[p] = id
			}
			kc := &canon{ids: scratch}
			kc.walk(it.Key(), depth+1)
			items = append(items, kv{kc.b.String(), it.Key(), it.Value()})
		}
		sort.Slice(items, func(i, j int) bool { return items[i].k < items[j].k })
		c.b.WriteString("map[")
		for i, it := range items {
			if i > 0 {
				c.b.WriteString(",")
			}
			c.walk(it.key, depth+1)
			c.b.WriteString("=>")
			c.walk(it.elem, depth+1)
		}
		c.b.WriteString("]")
	case reflect.Func:
		if v.IsNil() {
			c.b.WriteString("fn-nil")
		} else {
			c.b.WriteString("fn")
		}
	case reflect.Chan:
		if v.IsNil() {
			c.b.WriteString("chan-nil")
		} else {
			fmt.Fprintf(&c.b, "chan(len %d)", v.Len())
		}
	case reflect.UnsafePointer:
		c.b.WriteString("uptr")
	case reflect.String:
		fmt.Fprintf(&c.b, "%q", v.String())
	case reflect.Bool:
		fmt.Fprintf(&c.b, "%v", v.Bool())
	case reflect.Int, reflect.Int8, reflect.Int16, reflect.Int32, reflect.Int64:
		fmt.Fprintf(&c.b, "%d", v.Int())
	case reflect.Uint, reflect.Uint8, reflect.Uint16, reflect.Uint32, reflect.Uint64, reflect.Uintptr:
		fmt.Fprintf(&c.b, "%d", v.Uint())
	case reflect.Float32, reflect.Float64:
		fmt.Fprintf(&c.b, "%v", v.Float())
	case reflect.Complex64, reflect.Complex128:
		fmt.Fprintf(&c.b, "%v", v.Complex())
	default:
		fmt.Fprintf(&c.b, "<%s>", v.Kind())
	}
}

// Priv reads a (possibly unexported) field path of a struct (through pointers) and returns it as a
// reflect.Value that can be inspected. A missing field is an engine error (the working tree no
// longer has the state the oracle needs) — never a silent pass.
func Priv(obj interface{}, path ...string) reflect.Value {
	v := reflect.ValueOf(obj)
	for _, name := range path {
		for v.Kind() == reflect.Ptr || v.Kind() == reflect.Interface {
			if v.IsNil() {
				Engine("Priv: nil while reaching %q", name)
			}
			v = v.Elem()
		}
		if v.Kind() != reflect.Struct {
			Engine("Priv: %q: not a struct (%s)", name, v.Kind())
		}
		f := v.FieldByName(name)
		if !f.IsValid() {
			Engine("Priv: type %s has no field %q (the tree changed the state this oracle reads)", v.Type(), name)
		}
		v = access(f)
	}
	return v
}

// Catch runs f and returns the recovered panic value rendered as a string ("" if none).
func Catch(f func()) (p string) {
	defer func() {
		if r := recover(); r != nil {
			p = fmt.Sprintf("panic: %v", r)
			if p == "" {
				p = "panic"
			}
		}
	}()
	f()
	return ""
}
