// Package coll wraps the generic and the interface{} collection families of fpGo behind common
// interfaces (over int elements / string keys), so that one search / enumeration drives both and
// twin agreement is a direct comparison.
package coll

import (
	"fmt"
	"reflect"
	"sort"

	fpgo "github.com/TeaEntityLab/fpGo/v2"
)

// Stream is the common view of StreamDef[int] and StreamForInterfaceDef.
type Stream interface {
	Family() string
	ID() interface{} // pointer identity of the underlying object
	ToArray() []int
	Len() int
	Get(i int) int
	Contains(v int) bool
	Map(f func(int, int) int) Stream
	Filter(f func(int, int) bool) Stream
	Reject(f func(int, int) bool) Stream
	FilterNotNil() Stream
	Distinct() Stream
	Append(items ...int) Stream
	Concat(slices ...[]int) Stream
	ConcatStream(o Stream) Stream // Concat with the other stream's own slice (what `s.Concat(*t)` passes)
	Extend(others ...Stream) Stream
	Remove(i int) Stream
	RemoveItem(items ...int) Stream
	Reverse() Stream
	Sort(less func(a, b int) bool) Stream
	SortByIndex(less func(s Stream, i, j int) bool) Stream
	Minus(o Stream) Stream
	Intersection(o Stream) Stream
	Clone() Stream
	IsSubset(o Stream) bool
	IsSuperset(o Stream) bool
	Backing() (first *byte, capacity int) // identity of the backing array (nil when empty)
}

// ---- generic family ----

type GStream struct{ S *fpgo.StreamDef[int] }

func NewG(items []int) Stream {
	if items == nil {
		return GStream{fpgo.StreamFromArray[int](nil)}
	}
	return GStream{fpgo.StreamFromArray(append(make([]int, 0, len(items)), items...))}
}

func g(o Stream) *fpgo.StreamDef[int] {
	if o == nil {
		return nil
	}
	return o.(GStream).S
}

func (s GStream) Family() string      { return "generic" }
func (s GStream) ID() interface{}     { return s.S }
func (s GStream) ToArray() []int      { return s.S.ToArray() }
func (s GStream) Len() int            { return s.S.Len() }
func (s GStream) Get(i int) int       { return s.S.Get(i) }
func (s GStream) Contains(v int) bool { return s.S.Contains(v) }
func (s GStream) Map(f func(int, int) int) Stream {
	return GStream{s.S.Map(f)}
}
func (s GStream) Filter(f func(int, int) bool) Stream { return GStream{s.S.Filter(f)} }
func (s GStream) Reject(f func(int, int) bool) Stream { return GStream{s.S.Reject(f)} }
func (s GStream) FilterNotNil() Stream                { return GStream{s.S.FilterNotNil()} }
func (s GStream) Distinct() Stream                    { return GStream{s.S.Distinct()} }
func (s GStream) Append(items ...int) Stream          { return GStream{s.S.Append(items...)} }
func (s GStream) Concat(slices ...[]int) Stream       { return GStream{s.S.Concat(slices...)} }
func (s GStream) ConcatStream(o Stream) Stream        { return GStream{s.S.Concat([]int(*o.(GStream).S))} }
func (s GStream) Extend(others ...Stream) Stream {
	var a []*fpgo.StreamDef[int]
	for _, o := range others {
		a = append(a, g(o))
	}
	return GStream{s.S.Extend(a...)}
}
func (s GStream) Remove(i int) Stream            { return GStream{s.S.Remove(i)} }
func (s GStream) RemoveItem(items ...int) Stream { return GStream{s.S.RemoveItem(items...)} }
func (s GStream) Reverse() Stream                { return GStream{s.S.Reverse()} }
func (s GStream) Sort(less func(a, b int) bool) Stream {
	return GStream{s.S.Sort(less)}
}
func (s GStream) SortByIndex(less func(st Stream, i, j int) bool) Stream {
	return GStream{s.S.SortByIndex(func(i, j int) bool { return less(s, i, j) })}
}
func (s GStream) Minus(o Stream) Stream        { return GStream{s.S.Minus(g(o))} }
func (s GStream) Intersection(o Stream) Stream { return GStream{s.S.Intersection(g(o))} }
func (s GStream) Clone() Stream                { return GStream{s.S.Clone()} }
func (s GStream) IsSubset(o Stream) bool       { return s.S.IsSubset(g(o)) }
func (s GStream) IsSuperset(o Stream) bool     { return s.S.IsSuperset(g(o)) }
func (s GStream) Backing() (*byte, int) {
	sl := []int(*s.S)
	if cap(sl) == 0 {
		return nil, 0
	}
	return (*byte)(ptrOf(&sl[:1][0])), cap(sl)
}

// ---- interface{} family ----

type IStream struct{ S *fpgo.StreamForInterfaceDef }

func NewI(items []int) Stream {
	if items == nil {
		return IStream{fpgo.StreamForInterface.FromArray(nil)}
	}
	l := make([]interface{}, 0, len(items))
	for _, v := range items {
		l = append(l, v)
	}
	return IStream{fpgo.StreamForInterface.FromArray(l)}
}

func ifc(o Stream) *fpgo.StreamForInterfaceDef {
	if o == nil {
		return nil
	}
	return o.(IStream).S
}

func ints(l []interface{}) []int {
	if l == nil {
		return nil
	}
	out := make([]int, len(l))
	for i, v := range l {
		out[i] = v.(int)
	}
	return out
}

func ifaces(l []int) []interface{} {
	if l == nil {
		return nil
	}
	out := make([]interface{}, len(l))
	for i, v := range l {
		out[i] = v
	}
	return out
}

func (s IStream) Family() string      { return "interface{}" }
func (s IStream) ID() interface{}     { return s.S }
func (s IStream) ToArray() []int      { return ints(s.S.ToArray()) }
func (s IStream) Len() int            { return s.S.Len() }
func (s IStream) Get(i int) int       { return s.S.Get(i).(int) }
func (s IStream) Contains(v int) bool { return s.S.Contains(v) }
func (s IStream) Map(f func(int, int) int) Stream {
	return IStream{s.S.Map(func(v interface{}, i int) interface{} { return f(v.(int), i) })}
}
func (s IStream) Filter(f func(int, int) bool) Stream {
	return IStream{s.S.Filter(func(v interface{}, i int) bool { return f(v.(int), i) })}
}
func (s IStream) Reject(f func(int, int) bool) Stream {
	return IStream{s.S.Reject(func(v interface{}, i int) bool { return f(v.(int), i) })}
}
func (s IStream) FilterNotNil() Stream       { return IStream{s.S.FilterNotNil()} }
func (s IStream) Distinct() Stream           { return IStream{s.S.Distinct()} }
func (s IStream) Append(items ...int) Stream { return IStream{s.S.Append(ifaces(items)...)} }
func (s IStream) ConcatStream(o Stream) Stream {
	return IStream{s.S.Concat([]interface{}(*o.(IStream).S))}
}
func (s IStream) Concat(slices ...[]int) Stream {
	var a [][]interface{}
	for _, sl := range slices {
		a = append(a, ifaces(sl))
	}
	return IStream{s.S.Concat(a...)}
}
func (s IStream) Extend(others ...Stream) Stream {
	var a []*fpgo.StreamForInterfaceDef
	for _, o := range others {
		a = append(a, ifc(o))
	}
	return IStream{s.S.Extend(a...)}
}
func (s IStream) Remove(i int) Stream            { return IStream{s.S.Remove(i)} }
func (s IStream) RemoveItem(items ...int) Stream { return IStream{s.S.RemoveItem(ifaces(items)...)} }
func (s IStream) Reverse() Stream                { return IStream{s.S.Reverse()} }
func (s IStream) Sort(less func(a, b int) bool) Stream {
	return IStream{s.S.Sort(func(a, b interface{}) bool { return less(a.(int), b.(int)) })}
}
func (s IStream) SortByIndex(less func(st Stream, i, j int) bool) Stream {
	return IStream{s.S.SortByIndex(func(i, j int) bool { return less(s, i, j) })}
}
func (s IStream) Minus(o Stream) Stream        { return IStream{s.S.Minus(ifc(o))} }
func (s IStream) Intersection(o Stream) Stream { return IStream{s.S.Intersection(ifc(o))} }
func (s IStream) Clone() Stream                { return IStream{s.S.Clone()} }
func (s IStream) IsSubset(o Stream) bool       { return s.S.IsSubset(ifc(o)) }
func (s IStream) IsSuperset(o Stream) bool     { return s.S.IsSuperset(ifc(o)) }
func (s IStream) Backing() (*byte, int) {
	sl := []interface{}(*s.S)
	if cap(sl) == 0 {
		return nil, 0
	}
	return (*byte)(ptrOf(&sl[:1][0])), cap(sl)
}

// ---- sets (keys int, values int) ----

type Set interface {
	Family() string
	ID() interface{}
	AsMap() map[int]int // copy of the content (values of the interface{} family: nil -> 0)
	KeysSorted() []int
	Size() int
	ContainsKey(k int) bool
	Add(keys ...int) Set
	RemoveKeys(keys ...int) Set
	RemoveValues(vals ...int) Set
	MapKey(f func(int) int) Set
	MapValue(f func(int) int) Set
	Union(o Set) Set
	Intersection(o Set) Set
	Minus(o Set) Set
	Clone() Set
	IsSubsetByKey(o Set) bool
	IsSupersetByKey(o Set) bool
	SetKV(k, v int) // in-place mutator
	Get(k int) int
	MapID() uintptr // identity of the Go map that stores the elements (two handles may share one)
}

type GSet struct{ S *fpgo.MapSetDef[int, int] }

func NewGSet(m map[int]int) Set {
	if m == nil {
		return GSet{fpgo.SetFromMap[int, int](nil)}
	}
	c := map[int]int{}
	for k, v := range m {
		c[k] = v
	}
	return GSet{fpgo.SetFromMap(c)}
}

func gs(o Set) fpgo.SetDef[int, int] {
	if o == nil {
		return nil
	}
	return o.(GSet).S
}
func wrapG(s fpgo.SetDef[int, int]) Set { return GSet{s.AsMapSet()} }

func (s GSet) Family() string  { return "generic" }
func (s GSet) ID() interface{} { return s.S }
func (s GSet) MapID() uintptr {
	if s.S == nil || *s.S == nil {
		return 0
	}
	return reflect.ValueOf(*s.S).Pointer()
}
func (s GSet) AsMap() map[int]int {
	out := map[int]int{}
	for k, v := range s.S.AsMap() {
		out[k] = v
	}
	return out
}
func (s GSet) KeysSorted() []int            { k := s.S.Keys(); sort.Ints(k); return k }
func (s GSet) Size() int                    { return s.S.Size() }
func (s GSet) ContainsKey(k int) bool       { return s.S.ContainsKey(k) }
func (s GSet) Add(keys ...int) Set          { return wrapG(s.S.Add(keys...)) }
func (s GSet) RemoveKeys(keys ...int) Set   { return wrapG(s.S.RemoveKeys(keys...)) }
func (s GSet) RemoveValues(v ...int) Set    { return wrapG(s.S.RemoveValues(v...)) }
func (s GSet) MapKey(f func(int) int) Set   { return wrapG(s.S.MapKey(f)) }
func (s GSet) MapValue(f func(int) int) Set { return wrapG(s.S.MapValue(f)) }
func (s GSet) Union(o Set) Set              { return wrapG(s.S.Union(gs(o))) }
func (s GSet) Intersection(o Set) Set       { return wrapG(s.S.Intersection(gs(o))) }
func (s GSet) Minus(o Set) Set              { return wrapG(s.S.Minus(gs(o))) }
func (s GSet) Clone() Set                   { return wrapG(s.S.Clone()) }
func (s GSet) IsSubsetByKey(o Set) bool     { return s.S.IsSubsetByKey(gs(o)) }
func (s GSet) IsSupersetByKey(o Set) bool   { return s.S.IsSupersetByKey(gs(o)) }
func (s GSet) SetKV(k, v int)               { s.S.Set(k, v) }
func (s GSet) Get(k int) int                { return s.S.Get(k) }

type ISet struct{ S *fpgo.SetForInterfaceDef }

// NewISet builds the interface{} set with the same keys AND values (through Set, since
// SetForInterfaceFromMap keeps only the keys).
func NewISet(m map[int]int) Set {
	if m == nil {
		return ISet{fpgo.SetForInterfaceFromArray(nil)}
	}
	s := fpgo.SetForInterfaceFromArray(nil)
	for k, v := range m {
		s.Set(k, v)
	}
	return ISet{s}
}

func is(o Set) *fpgo.SetForInterfaceDef {
	if o == nil {
		return nil
	}
	return o.(ISet).S
}

func (s ISet) Family() string  { return "interface{}" }
func (s ISet) ID() interface{} { return s.S }
func (s ISet) MapID() uintptr {
	if s.S == nil || *s.S == nil {
		return 0
	}
	return reflect.ValueOf(*s.S).Pointer()
}
func (s ISet) AsMap() map[int]int {
	out := map[int]int{}
	for k, v := range *s.S {
		if iv, ok := v.(int); ok {
			out[k.(int)] = iv
		} else {
			out[k.(int)] = 0 // the interface{} family stores its own placeholder values (nil, bool) under added keys
		}
	}
	return out
}
func (s ISet) KeysSorted() []int          { k := ints(s.S.Keys()); sort.Ints(k); return k }
func (s ISet) Size() int                  { return s.S.Size() }
func (s ISet) ContainsKey(k int) bool     { return s.S.ContainsKey(k) }
func (s ISet) Add(keys ...int) Set        { return ISet{s.S.Add(ifaces(keys)...)} }
func (s ISet) RemoveKeys(keys ...int) Set { return ISet{s.S.RemoveKeys(ifaces(keys)...)} }
func (s ISet) RemoveValues(v ...int) Set  { return ISet{s.S.RemoveValues(ifaces(v)...)} }
func (s ISet) MapKey(f func(int) int) Set {
	return ISet{s.S.MapKey(func(k interface{}) interface{} { return f(k.(int)) })}
}
func (s ISet) MapValue(f func(int) int) Set {
	return ISet{s.S.MapValue(func(v interface{}) interface{} {
		if iv, ok := v.(int); ok {
			return f(iv)
		}
		return f(0)
	})}
}
func (s ISet) Union(o Set) Set            { return ISet{s.S.Union(is(o))} }
func (s ISet) Intersection(o Set) Set     { return ISet{s.S.Intersection(is(o))} }
func (s ISet) Minus(o Set) Set            { return ISet{s.S.Minus(is(o))} }
func (s ISet) Clone() Set                 { return ISet{s.S.Clone()} }
func (s ISet) IsSubsetByKey(o Set) bool   { return s.S.IsSubsetByKey(is(o)) }
func (s ISet) IsSupersetByKey(o Set) bool { return s.S.IsSupersetByKey(is(o)) }
func (s ISet) SetKV(k, v int)             { s.S.Set(k, v) }
func (s ISet) Get(k int) int {
	if iv, ok := s.S.Get(k).(int); ok {
		return iv
	}
	return 0
}

// ---- stream sets (keys string, streams of int) ----

type StreamSet interface {
	Family() string
	ID() interface{}
	Content() map[string][]int // nil slice: key present with a nil / absent stream
	Size() int
	Union(o StreamSet) StreamSet
	Intersection(o StreamSet) StreamSet
	MinusStreams(o StreamSet) StreamSet
	Minus(o StreamSet) StreamSet
	Clone() StreamSet
	IsSubsetByKey(o StreamSet) bool
	IsSupersetByKey(o StreamSet) bool
	StreamAt(k string) Stream // nil if none
	MapID() uintptr           // identity of the Go map behind the handle
}

type GSS struct {
	S *fpgo.StreamSetDef[string, int]
}

func NewGSS(m map[string][]int) StreamSet {
	mm := map[string]*fpgo.StreamDef[int]{}
	for k, v := range m {
		if v == nil {
			mm[k] = nil
		} else {
			mm[k] = fpgo.StreamFromArray(append(make([]int, 0, len(v)), v...))
		}
	}
	return GSS{fpgo.StreamSetFromMap(mm)}
}

// NewGSSChunked: like NewGSS, but the streams of the set are consecutive windows of ONE backing list (in key order, with
// three more cells behind the last): each stream has spare capacity that is its neighbour's data.
func NewGSSChunked(m map[string][]int) StreamSet {
	mm := map[string]*fpgo.StreamDef[int]{}
	back, offs := chunkLayout(m)
	for k, v := range m {
		if v == nil {
			mm[k] = nil
		} else {
			mm[k] = fpgo.StreamFromArray(back[offs[k] : offs[k]+len(v)])
		}
	}
	return GSS{fpgo.StreamSetFromMap(mm)}
}

func chunkLayout(m map[string][]int) ([]int, map[string]int) {
	var keys []string
	for k := range m {
		keys = append(keys, k)
	}
	sort.Strings(keys)
	var back []int
	offs := map[string]int{}
	for _, k := range keys {
		offs[k] = len(back)
		back = append(back, m[k]...)
	}
	back = append(back, -7, -7, -7)
	return back[:len(back):len(back)], offs
}

// NewISSChunked: the interface{} twin of NewGSSChunked.
func NewISSChunked(m map[string][]int) StreamSet {
	mm := map[interface{}]*fpgo.StreamForInterfaceDef{}
	back, offs := chunkLayout(m)
	bi := ifaces(back)
	for k, v := range m {
		if v == nil {
			mm[k] = nil
		} else {
			mm[k] = fpgo.StreamForInterface.FromArray(bi[offs[k] : offs[k]+len(v)])
		}
	}
	return ISS{fpgo.StreamSetForInterfaceFromMap(mm)}
}

func gss(o StreamSet) *fpgo.StreamSetDef[string, int] {
	if o == nil {
		return nil
	}
	return o.(GSS).S
}

func (s GSS) Family() string  { return "generic" }
func (s GSS) ID() interface{} { return s.S }
func (s GSS) MapID() uintptr {
	if s.S == nil || s.S.MapSetDef == nil {
		return 0
	}
	return reflect.ValueOf(s.S.MapSetDef).Pointer()
}
func (s GSS) Content() map[string][]int {
	out := map[string][]int{}
	for k, v := range s.S.MapSetDef {
		if v == nil {
			out[k] = nil
		} else {
			out[k] = append([]int{}, (*v)...)
		}
	}
	return out
}
func (s GSS) Size() int                          { return s.S.Size() }
func (s GSS) Union(o StreamSet) StreamSet        { return GSS{s.S.Union(gss(o))} }
func (s GSS) Intersection(o StreamSet) StreamSet { return GSS{s.S.Intersection(gss(o))} }
func (s GSS) MinusStreams(o StreamSet) StreamSet { return GSS{s.S.MinusStreams(gss(o))} }
func (s GSS) Minus(o StreamSet) StreamSet {
	var in fpgo.SetDef[string, *fpgo.StreamDef[int]]
	if o != nil {
		in = &gss(o).MapSetDef
	}
	r := s.S.Minus(in)
	return GSS{&fpgo.StreamSetDef[string, int]{MapSetDef: *r.AsMapSet()}}
}
func (s GSS) Clone() StreamSet { return GSS{s.S.Clone()} }
func (s GSS) IsSubsetByKey(o StreamSet) bool {
	return s.S.IsSubsetByKey(&gss(o).MapSetDef)
}
func (s GSS) IsSupersetByKey(o StreamSet) bool {
	return s.S.IsSupersetByKey(&gss(o).MapSetDef)
}
func (s GSS) StreamAt(k string) Stream {
	v := s.S.MapSetDef[k]
	if v == nil {
		return nil
	}
	return GStream{v}
}

type ISS struct {
	S *fpgo.StreamSetForInterfaceDef
}

func NewISS(m map[string][]int) StreamSet {
	mm := map[interface{}]*fpgo.StreamForInterfaceDef{}
	for k, v := range m {
		if v == nil {
			mm[k] = nil
		} else {
			mm[k] = fpgo.StreamForInterface.FromArray(ifaces(v))
		}
	}
	return ISS{fpgo.StreamSetForInterfaceFromMap(mm)}
}

func iss(o StreamSet) *fpgo.StreamSetForInterfaceDef {
	if o == nil {
		return nil
	}
	return o.(ISS).S
}

func (s ISS) Family() string  { return "interface{}" }
func (s ISS) ID() interface{} { return s.S }
func (s ISS) MapID() uintptr {
	if s.S == nil || s.S.SetForInterfaceDef == nil {
		return 0
	}
	return reflect.ValueOf(s.S.SetForInterfaceDef).Pointer()
}
func (s ISS) Content() map[string][]int {
	out := map[string][]int{}
	for k, v := range s.S.SetForInterfaceDef {
		st, _ := v.(*fpgo.StreamForInterfaceDef)
		if st == nil {
			out[k.(string)] = nil
		} else {
			c := ints([]interface{}(*st))
			if c == nil {
				c = []int{}
			}
			out[k.(string)] = c
		}
	}
	return out
}
func (s ISS) Size() int                          { return s.S.Size() }
func (s ISS) Union(o StreamSet) StreamSet        { return ISS{s.S.Union(iss(o))} }
func (s ISS) Intersection(o StreamSet) StreamSet { return ISS{s.S.Intersection(iss(o))} }
func (s ISS) MinusStreams(o StreamSet) StreamSet { return ISS{s.S.MinusStreams(iss(o))} }
func (s ISS) Minus(o StreamSet) StreamSet        { return ISS{s.S.Minus(iss(o))} }
func (s ISS) Clone() StreamSet                   { return ISS{s.S.Clone()} }
func (s ISS) IsSubsetByKey(o StreamSet) bool     { return s.S.IsSubsetByKey(iss(o)) }
func (s ISS) IsSupersetByKey(o StreamSet) bool   { return s.S.IsSupersetByKey(iss(o)) }
func (s ISS) StreamAt(k string) Stream {
	v, _ := s.S.SetForInterfaceDef[k].(*fpgo.StreamForInterfaceDef)
	if v == nil {
		return nil
	}
	return IStream{v}
}

// RenderSS renders a stream-set content deterministically.
func RenderSS(m map[string][]int) string {
	var ks []string
	for k := range m {
		ks = append(ks, k)
	}
	sort.Strings(ks)
	s := ""
	for _, k := range ks {
		if m[k] == nil {
			s += fmt.Sprintf("%s:nil ", k)
		} else {
			s += fmt.Sprintf("%s:%v ", k, m[k])
		}
	}
	return "{" + s + "}"
}
