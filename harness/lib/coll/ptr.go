package coll

import "unsafe"

func ptrOf[T any](p *T) unsafe.Pointer { return unsafe.Pointer(p) }
