package e1

import (
	"fmt"

	"github.com/TeaEntityLab/fpGo/v2/zzverif/vsched"
)

// Basic reports the clauses common to all scenarios: no thread panicked, no scenario-owned thread is
// parked forever (unless allowed), no cap/invariant failure.
func Basic(prop, family string, r *vsched.Result, allowParked func(p vsched.ParkedInfo) bool) []vsched.Failure {
	var fs []vsched.Failure
	for _, p := range r.Panics {
		fs = append(fs, vsched.Failure{Key: fmt.Sprintf("%s|%s|panic|%s|%s", prop, family, p.Site, short(p.Value)),
			Text: fmt.Sprintf("goroutine %s panicked at %s: %s (in real Go this kills the process)", p.Thread, p.Site, p.Value)})
	}
	// (an execution that was cut short - a panic, a step cap, a failed invariant - leaves threads parked
	// that are not stuck: only a run that ended by itself is examined for blocked threads)
	if len(r.Panics) == 0 && r.Cap == "" && r.InvFail == "" {
		for _, p := range r.Parked {
			if p.User && (allowParked == nil || !allowParked(p)) {
				fs = append(fs, vsched.Failure{Key: fmt.Sprintf("%s|%s|blocked-forever|%s|%s", prop, family, trimDigits(p.Thread), opKind(p.Op)),
					Text: fmt.Sprintf("thread %s is still blocked at %q when nothing can run any more", p.Thread, p.Op)})
			}
		}
	}
	if r.InvFail != "" {
		fs = append(fs, vsched.Failure{Key: fmt.Sprintf("%s|%s|invariant", prop, family), Text: r.InvFail})
	}
	return fs
}

func short(s string) string {
	if len(s) > 60 {
		return s[:60]
	}
	return s
}

func trimDigits(s string) string {
	for len(s) > 0 && s[len(s)-1] >= '0' && s[len(s)-1] <= '9' {
		s = s[:len(s)-1]
	}
	return s
}

func opKind(op string) string {
	for i, c := range op {
		if c == ' ' || c == '#' {
			return op[:i]
		}
	}
	return op
}

// Count events of a kind whose args (rendered) equal the given ones.
func Count(r *vsched.Result, kind string, args ...interface{}) int {
	n := 0
	want := fmt.Sprint(args...)
	for _, e := range r.Events {
		if e.Kind == kind && (len(args) == 0 || fmt.Sprint(e.Args...) == want) {
			n++
		}
	}
	return n
}

// Index of the first event of a kind with the given args; -1 if none.
func Index(r *vsched.Result, kind string, args ...interface{}) int {
	want := fmt.Sprint(args...)
	for i, e := range r.Events {
		if e.Kind == kind && (len(args) == 0 || fmt.Sprint(e.Args...) == want) {
			return i
		}
	}
	return -1
}

func Fail(key, format string, a ...interface{}) vsched.Failure {
	return vsched.Failure{Key: key, Text: fmt.Sprintf(format, a...)}
}
