// Package e1 drives engine E1 for a check: every scenario of the check's matrix is explored in its
// own worker process (GOMAXPROCS 1, 16 at a time), results are aggregated into the evidence file.
package e1

import (
	"encoding/json"
	"flag"
	"fmt"
	"os"
	"os/exec"
	"runtime"
	"sort"
	"strings"
	"sync"
	"time"

	"github.com/TeaEntityLab/fpGo/v2/zzverif/vsched"
	"verifharness/lib"
)

type childOut struct {
	Stats *vsched.Stats
	Found []vsched.Found
	Err   string
}

// Budget is the wall-clock budget of a tier (an internal deadline ends the run with exit 0 and
// exhaustive:false; it never produces a violation).
type Budget struct{ Quick, Thorough time.Duration }

// Sequential, when set, is run by the parent process before the schedule exploration: an exhaustive
// sequential enumeration on the same (instrumented) build whose violations and counts are added to
// the same report. It returns (states, transitions, samples).
var Sequential func(r *lib.Report, tier string) (int64, int64, []interface{})

// Main is the entry point of an E1 check binary.
func Main(prop string, scenarios func(tier string) []*vsched.Scenario, budget Budget, assumptions []string) {
	child := flag.Int("child", -1, "internal: explore scenario #n and print JSON")
	shard := flag.Int("shard", 0, "internal")
	shards := flag.Int("shards", 1, "internal")
	deadline := flag.Int64("deadline", 0, "internal: unix seconds")
	replay := flag.String("replay", "", "replay file")
	list := flag.Bool("list", false, "list scenarios")
	only := flag.String("only", "", "substring filter on scenario names")
	nocache := flag.Bool("nocache", os.Getenv("VERIF_NOCACHE") != "", "disable the happens-before state cache (self-check)")
	flag.Parse()
	tier := lib.Tier()
	scs := scenarios(tier)
	if *nocache {
		for _, s := range scs {
			s.NoCache = true
		}
	}
	if *list {
		for i, s := range scs {
			fmt.Println(i, s.Name, "bound", s.Bound)
		}
		return
	}
	if *replay != "" {
		doReplay(scs, *replay)
		return
	}
	if *child >= 0 {
		runChild(scs[*child], *shard, *shards, *deadline)
		return
	}
	r := lib.NewReport(prop)
	defer r.Guard()
	bud := budget.Quick
	if tier == "thorough" {
		bud = budget.Thorough
	}
	var seqStates, seqTrans int64
	var seqSamples []interface{}
	if Sequential != nil && *only == "" {
		seqStates, seqTrans, seqSamples = Sequential(r, tier)
	}
	dl := time.Now().Add(bud)
	type job struct{ idx, shard, shards int }
	var jobs []job
	for i, s := range scs {
		if *only != "" && !strings.Contains(s.Name, *only) {
			continue
		}
		jobs = append(jobs, job{i, 0, 1})
	}
	outs := make([]childOut, len(jobs))
	var wg sync.WaitGroup
	sem := make(chan struct{}, runtime.NumCPU())
	self, _ := os.Executable()
	for ji, j := range jobs {
		wg.Add(1)
		go func(ji int, j job) {
			defer wg.Done()
			sem <- struct{}{}
			defer func() { <-sem }()
			cmd := exec.Command(self, "-child", fmt.Sprint(j.idx), "-shard", fmt.Sprint(j.shard), "-shards", fmt.Sprint(j.shards), "-deadline", fmt.Sprint(dl.Unix()))
			cmd.Env = append(os.Environ(), "GOMAXPROCS=1", "GOMEMLIMIT=3GiB")
			cmd.Stderr = os.Stderr
			b, err := cmd.Output()
			if err != nil {
				outs[ji].Err = fmt.Sprintf("scenario %s: worker failed: %v\n%s", scs[j.idx].Name, err, tail(string(b), 2000))
				return
			}
			// the JSON is the last line
			lines := strings.Split(strings.TrimSpace(string(b)), "\n")
			if e := json.Unmarshal([]byte(lines[len(lines)-1]), &outs[ji]); e != nil {
				outs[ji].Err = fmt.Sprintf("scenario %s: bad worker output: %v", scs[j.idx].Name, e)
			}
		}(ji, j)
	}
	wg.Wait()
	var execs, steps, nodes, states, pruned int64
	maxDepth, maxThreads, outcomes := 0, 0, 0
	racy := map[string]bool{}
	pairs := map[string]bool{}
	var perScen []map[string]interface{}
	var samples []interface{}
	vacuous := []string{}
	smoke := []string{}
	for ji, o := range outs {
		if o.Err != "" {
			lib.Engine("%s", o.Err)
		}
		st := o.Stats
		execs += st.Execs
		steps += st.Steps
		nodes += st.Nodes
		states += st.States
		pruned += st.Pruned
		outcomes += st.Outcomes
		if st.MaxDepth > maxDepth {
			maxDepth = st.MaxDepth
		}
		if st.MaxThreads > maxThreads {
			maxThreads = st.MaxThreads
		}
		for _, f := range st.Racy {
			racy[f] = true
		}
		for _, f := range st.RacePairs {
			pairs[f] = true
		}
		ps := map[string]interface{}{"scenario": st.Scenario, "bound_kind": st.BoundKind, "bound_completed": st.BoundDone, "bound_asked": st.BoundAsked,
			"executions": st.Execs, "steps": st.Steps, "schedule_tree_nodes": st.Nodes, "max_choice_depth": st.MaxDepth, "threads": st.MaxThreads,
			"distinct_outcomes": st.Outcomes, "hb_states": st.States, "pruned_at_known_state": st.Pruned, "racy_fixpoint_passes": st.Passes, "wall_s": round2(st.WallS)}
		if st.Deadline {
			ps["deadline_hit"] = true
			r.NotExhaustive(fmt.Sprintf("%s: internal deadline reached; bound %d of %d completed", st.Scenario, st.BoundDone, st.BoundAsked))
		}
		for _, c := range st.Caps {
			if strings.HasPrefix(c, "default schedule only") {
				// a declared smoke scenario (one schedule of a very long execution): listed, not part of the exhaustive claim
				ps["smoke_run"] = c
				smoke = append(smoke, st.Scenario)
				continue
			}
			r.NotExhaustive(fmt.Sprintf("%s: %s", st.Scenario, c))
		}
		if st.Outcomes <= 1 && st.Execs > 1 {
			vacuous = append(vacuous, st.Scenario)
		}
		perScen = append(perScen, ps)
		if len(samples) < 4 && len(st.SampleSched) > 0 {
			samples = append(samples, map[string]interface{}{"scenario": st.Scenario, "schedule_choices": st.SampleSched[len(st.SampleSched)-1], "events": st.SampleEvents})
		}
		for _, f := range o.Found {
			r.Violation(f.Key, fmt.Sprintf("[%s, %d deviation(s)] %s", st.Scenario, f.Bound, f.Text), map[string]interface{}{
				"scenario": st.Scenario, "scenario_index": jobs[ji].idx, "choices": f.Choices, "deviations": f.Bound, "events": f.Events, "trace": f.Trace,
				"how": "./vcheck " + prop + " " + tier + " -replay <this file>"})
		}
	}
	if states == 0 {
		states = nodes
	}
	if Sequential != nil {
		r.Cov["sequential_part"] = map[string]interface{}{"states": seqStates, "transitions": seqTrans}
		states += seqStates
		steps += seqTrans
		execs += seqTrans
		samples = append(samples, seqSamples...)
	}
	r.Cov["states"] = states
	r.Cov["schedule_tree_nodes"] = nodes
	r.Cov["executions_cut_at_known_state"] = pruned
	r.Cov["transitions"] = steps
	r.Cov["traces_validated_against_impl"] = execs
	r.Cov["evaluations"] = execs
	r.Cov["distinct_nontrivial"] = outcomes
	r.Cov["rule"] = "states = distinct happens-before states at scheduling choice points (state-cache entries, summed over scenarios and bounds), schedule_tree_nodes = choice points reached through distinct prefixes, transitions = scheduling steps executed on the instrumented real code, traces = complete executions; distinct_nontrivial = distinct harness-visible outcomes (event log + terminal state) summed over scenarios"
	r.Cov["samples"] = samples
	r.Cov["scenarios"] = perScen
	r.Cov["max_threads"] = maxThreads
	r.Cov["max_choice_depth"] = maxDepth
	r.Cov["racy_fields_made_scheduling_points"] = keys(racy)
	r.Cov["race_pairs_seen"] = keys(pairs)
	r.Cov["vacuous_scenarios"] = vacuous
	r.Cov["smoke_scenarios_one_schedule_only"] = smoke
	r.Assume = append([]string{
		"sequentially consistent interleavings only (no weak-memory behaviours of racy code)",
		"runtime model of channels/select/mutex/waitgroup/atomics/timers (vsched), bound to the real runtime by the conformance battery",
		"slice/map elements and captured locals are not scheduling points unless the scenario yields there"}, assumptions...)
	r.Finish()
}

func round2(f float64) float64 { return float64(int(f*100)) / 100 }

func keys(m map[string]bool) []string {
	s := []string{}
	for k := range m {
		s = append(s, k)
	}
	sort.Strings(s)
	return s
}

func tail(s string, n int) string {
	if len(s) > n {
		return s[len(s)-n:]
	}
	return s
}

func runChild(sc *vsched.Scenario, shard, shards int, deadline int64) {
	opt := vsched.Options{Shard: shard, Shards: shards}
	if deadline > 0 {
		opt.Deadline = time.Unix(deadline, 0)
	}
	var out childOut
	func() {
		defer func() {
			if p := recover(); p != nil {
				out.Err = fmt.Sprintf("scenario %s: %v", sc.Name, p)
			}
		}()
		out.Stats, out.Found = vsched.Explore(sc, opt)
	}()
	b, _ := json.Marshal(out)
	fmt.Println(string(b))
}

func doReplay(scs []*vsched.Scenario, path string) {
	b, err := os.ReadFile(path)
	if err != nil {
		lib.Engine("replay: %v", err)
	}
	var f struct {
		Replay struct {
			Scenario string  `json:"scenario"`
			Choices  []int32 `json:"choices"`
		} `json:"replay"`
	}
	if err := json.Unmarshal(b, &f); err != nil {
		lib.Engine("replay: %v", err)
	}
	for _, s := range scs {
		if s.Name == f.Replay.Scenario {
			res, fails, trace := vsched.Replay(s, f.Replay.Choices)
			for _, l := range trace {
				fmt.Println(l)
			}
			for _, p := range res.Panics {
				fmt.Printf("PANIC in %s at %s: %s\n", p.Thread, p.Site, p.Value)
			}
			for _, p := range res.Parked {
				fmt.Printf("PARKED %s at %s\n", p.Thread, p.Op)
			}
			for _, fl := range fails {
				fmt.Printf("FAILURE %s: %s\n", fl.Key, fl.Text)
			}
			if len(fails) > 0 {
				os.Exit(1)
			}
			return
		}
	}
	lib.Engine("replay: scenario %q not in this tier's matrix (try the other tier)", f.Replay.Scenario)
}
