// Package lin judges one finite call/return history of a queue or stack for linearizability:
// porcupine v1.3.0 is the judge, a brute-force permutation search cross-validates it (histories
// here have at most 8 operations). A disagreement between the two is an engine error.
package lin

import (
	"fmt"

	"github.com/anishathalye/porcupine"
)

// Op is one completed operation. Kind: "add" (enqueue/push of Arg) or "rem" (dequeue/pop).
// For "rem": Val is the value returned, Empty reports the empty error.
type Op struct {
	Client int
	Kind   string
	Arg    int
	Val    int
	Empty  bool
	Full   bool // "add" refused because the bounded container is full
	Call   int64
	Ret    int64
}

func (o Op) String() string {
	if o.Kind == "add" && o.Full {
		return fmt.Sprintf("c%d:add(%d)->full@[%d,%d]", o.Client, o.Arg, o.Call, o.Ret)
	}
	if o.Kind == "add" {
		return fmt.Sprintf("c%d:add(%d)@[%d,%d]", o.Client, o.Arg, o.Call, o.Ret)
	}
	if o.Empty {
		return fmt.Sprintf("c%d:rem->empty@[%d,%d]", o.Client, o.Call, o.Ret)
	}
	return fmt.Sprintf("c%d:rem->%d@[%d,%d]", o.Client, o.Val, o.Call, o.Ret)
}

// Cap bounds the sequential container (0: unbounded): an add on a container holding Cap items is refused.
var Cap int

// Poison (0: none) is a value the sequential container rejects: adding it is refused (Full) and stores nothing.
var Poison int

func step(lifo bool, st []int, o Op) (bool, []int) {
	switch o.Kind {
	case "add":
		if Poison != 0 && o.Arg == Poison {
			return o.Full, st
		}
		if Cap > 0 && len(st) >= Cap {
			return o.Full, st
		}
		if o.Full {
			return false, st
		}
		return true, append(append([]int{}, st...), o.Arg)
	case "rem":
		if len(st) == 0 {
			return o.Empty, st
		}
		if o.Empty {
			return false, st
		}
		if lifo {
			return st[len(st)-1] == o.Val, st[:len(st)-1]
		}
		return st[0] == o.Val, st[1:]
	}
	return false, st
}

func model(lifo bool, initial []int) porcupine.Model {
	return porcupine.Model{
		Init: func() interface{} { return encode(initial) },
		Step: func(s, in, out interface{}) (bool, interface{}) {
			ok, ns := step(lifo, decode(s.(string)), in.(Op))
			return ok, encode(ns)
		},
		Equal: func(a, b interface{}) bool { return a.(string) == b.(string) },
	}
}

func encode(v []int) string {
	s := ""
	for _, x := range v {
		s += fmt.Sprintf("%d,", x)
	}
	return s
}

func decode(s string) []int {
	var v []int
	cur, has := 0, false
	neg := false
	for _, c := range s {
		switch {
		case c == '-':
			neg = true
		case c >= '0' && c <= '9':
			cur = cur*10 + int(c-'0')
			has = true
		case c == ',':
			if has {
				if neg {
					cur = -cur
				}
				v = append(v, cur)
			}
			cur, has, neg = 0, false, false
		}
	}
	return v
}

// Linearizable reports whether the history is linearizable w.r.t. a FIFO (lifo=false) or LIFO
// sequential container starting with the given content.
func Linearizable(lifo bool, initial []int, h []Op) bool {
	m := model(lifo, initial)
	var ops []porcupine.Operation
	for _, o := range h {
		ops = append(ops, porcupine.Operation{ClientId: o.Client, Input: o, Call: o.Call, Output: nil, Return: o.Ret})
	}
	p := porcupine.CheckOperations(m, ops)
	if len(h) <= 8 {
		b := brute(lifo, initial, h)
		if b != p {
			panic(fmt.Sprintf("ENGINE: porcupine (%v) and brute force (%v) disagree on %v", p, b, h))
		}
	}
	return p
}

func brute(lifo bool, initial []int, h []Op) bool {
	n := len(h)
	used := make([]bool, n)
	var rec func(st []int, done int) bool
	rec = func(st []int, done int) bool {
		if done == n {
			return true
		}
		for i := 0; i < n; i++ {
			if used[i] {
				continue
			}
			// i may come next only if no unused op returned strictly before i was called
			ok := true
			for j := 0; j < n; j++ {
				if j != i && !used[j] && h[j].Ret < h[i].Call {
					ok = false
					break
				}
			}
			if !ok {
				continue
			}
			if good, ns := step(lifo, st, h[i]); good {
				used[i] = true
				if rec(ns, done+1) {
					return true
				}
				used[i] = false
			}
		}
		return false
	}
	return rec(append([]int{}, initial...), 0)
}
