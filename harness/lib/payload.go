package lib

import (
	"errors"
	"fmt"
	"math"
	"reflect"
	"time"
)

// Payload values: what a container, mailbox, publisher or pipeline carries is opaque to it. The checks
// therefore do not only push small ints through: this table has one value per "kind that code might be
// tempted to treat specially" - nil, a typed nil pointer, zero values, negative zero, two distinct pointers
// to equal values, a value that is an error, a named type with a String method, a struct with a pointer
// field. All are comparable (usable as map keys) so that a panic on them is the library's, not Go's.

type Tagged struct {
	N int
	P *int
}

var (
	five1, five2 = 5, 5
	P1, P2       = &five1, &five2 // distinct pointers, equal pointees
	ErrPayload   = errors.New("payload that is an error")
)

// Payloads returns the table (a fresh slice; the pointer values are shared singletons).
func Payloads() []interface{} {
	return []interface{}{
		1, 0, "", "a", nil, (*int)(nil), P1, P2, math.Copysign(0, -1), 0.0, false, struct{}{}, ErrPayload, time.March,
		Tagged{1, P1}, Tagged{1, P2}, int64(math.MaxInt64), uint8(0),
	}
}

// Show renders a payload value so that everything a consumer could tell apart is visible: dynamic type,
// value, pointer identity, the sign of a zero.
func Show(v interface{}) string {
	if v == nil {
		return "untyped-nil"
	}
	rv := reflect.ValueOf(v)
	switch rv.Kind() {
	case reflect.Ptr:
		if rv.IsNil() {
			return fmt.Sprintf("%T(nil)", v)
		}
		return fmt.Sprintf("%T@%s", v, ptrName(v))
	case reflect.Float64, reflect.Float32:
		f := rv.Float()
		if f == 0 && math.Signbit(f) {
			return fmt.Sprintf("%T(-0)", v)
		}
		return fmt.Sprintf("%T(%v)", v, f)
	case reflect.Struct:
		if t, ok := v.(Tagged); ok {
			if t.P == nil {
				return fmt.Sprintf("Tagged{%d,nil}", t.N)
			}
			return fmt.Sprintf("Tagged{%d,%s}", t.N, ptrName(t.P))
		}
	}
	return fmt.Sprintf("%T(%#v)", v, v)
}

// ptrName names the pointers of the table; any other pointer is "a different pointer" (addresses are not
// printed: they differ from run to run).
func ptrName(v interface{}) string {
	switch v {
	case interface{}(P1):
		return "P1"
	case interface{}(P2):
		return "P2"
	case interface{}(ErrPayload):
		return "ErrPayload"
	}
	rv := reflect.ValueOf(v)
	if rv.Kind() == reflect.Ptr && !rv.IsNil() && rv.Elem().CanInterface() {
		return fmt.Sprintf("some-other-pointer(to %v)", rv.Elem().Interface())
	}
	return "some-other-pointer"
}
