// Package lib: shared plumbing of the checkers — evidence files, known findings, replays, exit codes.
package lib

import (
	"crypto/sha1"
	"encoding/json"
	"fmt"
	"os"
	"path/filepath"
	"runtime"
	"runtime/debug"
	"sort"
	"strconv"
	"strings"
	"sync/atomic"
	"time"
)

// Finding is one entry of /verif/known_findings.json (committed; never written at run time).
type Finding struct {
	Property string `json:"property"`
	Status   string `json:"status"` // "known" | "fixed"
	Key      string `json:"key"`
	What     string `json:"what"`
	Commit   string `json:"commit,omitempty"`
}

type violation struct {
	Key    string
	What   string
	Replay interface{}
	Count  int
}

// Report collects what one check run covered and found.
type Report struct {
	Prop   string
	Tier   string
	Seed   int
	Dir    string // /verif
	start  time.Time
	viols  map[string]*violation
	order  []string
	Cov    map[string]interface{}
	Assume []string
	known  map[string]Finding
	nonEx  []string // reasons the run was not exhaustive (caps)
}

// VerifDir returns the framework root (VERIF_DIR, default /verif).
func VerifDir() string {
	if d := os.Getenv("VERIF_DIR"); d != "" {
		return d
	}
	return "/verif"
}

// Tier returns quick|thorough from VERIF_TIER (default quick).
func Tier() string {
	if t := os.Getenv("VERIF_TIER"); t == "thorough" {
		return "thorough"
	}
	return "quick"
}

func NewReport(prop string) *Report {
	r := &Report{Prop: prop, Tier: Tier(), Dir: VerifDir(), start: time.Now(),
		viols: map[string]*violation{}, Cov: map[string]interface{}{}, known: map[string]Finding{}}
	if s := os.Getenv("VERIF_SEED"); s != "" {
		r.Seed, _ = strconv.Atoi(s)
	}
	b, err := os.ReadFile(filepath.Join(r.Dir, "known_findings.json"))
	if err == nil {
		var fs []Finding
		if err := json.Unmarshal(b, &fs); err != nil {
			Engine("known_findings.json unreadable: %v", err)
		}
		for _, f := range fs {
			if f.Property == prop && f.Status == "known" {
				r.known[f.Key] = f
			}
		}
	}
	return r
}

// Guard is deferred by a checker's main right after NewReport. A panic that reaches main was raised either by
// the library (a call made outside a Catch: the same calls do not panic on the unchanged tree) - that is
// reported as a violation, with what was found before it - or by the checker's own code, which stays an
// engine error (exit 2).
func (r *Report) Guard() {
	p := recover()
	if p == nil {
		return
	}
	stack := string(debug.Stack())
	// the frames below the last "panic(" line, runtime frames skipped: where the panic was raised
	origin := ""
	if i := strings.LastIndex(stack, "\npanic("); i >= 0 {
		lines := strings.Split(stack[i+1:], "\n")
		for k := 2; k+1 < len(lines); k += 2 {
			fn := lines[k]
			if strings.HasPrefix(fn, "runtime.") || strings.HasPrefix(fn, "runtime/") || strings.HasPrefix(fn, "reflect.") || strings.HasPrefix(fn, "sort.") || strings.HasPrefix(fn, "strconv.") {
				continue
			}
			origin = fn
			break
		}
	}
	if !strings.Contains(origin, "TeaEntityLab/fpGo") {
		fmt.Printf("ENGINE-ERROR: the checker panicked: %v\n%s\n", p, stack)
		os.Exit(2)
	}
	r.Violation(r.Prop+"|uncaught-panic", fmt.Sprintf("the library panicked in a call the checker makes unguarded (it does not panic on the unchanged tree): %v, raised in %s", p, origin), map[string]interface{}{"stack": stack})
	r.NotExhaustive("the run ended at a panic of the library")
	r.Finish()
}

// Engine reports an engine error (exit 2): never a VIOLATION.
func Engine(format string, a ...interface{}) {
	fmt.Printf("ENGINE-ERROR: "+format+"\n", a...)
	os.Exit(2)
}

// Violation records a property violation under a finding key; only the first (simplest) case per
// key keeps its replay.
func (r *Report) Violation(key, what string, replay interface{}) {
	v := r.viols[key]
	if v == nil {
		v = &violation{Key: key, What: what, Replay: replay}
		r.viols[key] = v
		r.order = append(r.order, key)
	}
	v.Count++
}

func (r *Report) NViolations() int { return len(r.viols) }

// NotExhaustive records that a cap was hit.
func (r *Report) NotExhaustive(why string) { r.nonEx = append(r.nonEx, why) }

// Finish writes evidence, prints KNOWN-FINDING / VIOLATION lines and exits.
func (r *Report) Finish() {
	newV := 0
	var lines []string
	sort.Strings(r.order)
	var keysSeen []string
	for _, k := range r.order {
		v := r.viols[k]
		keysSeen = append(keysSeen, fmt.Sprintf("%s (x%d)", k, v.Count))
		if f, ok := r.known[k]; ok {
			lines = append(lines, fmt.Sprintf("KNOWN-FINDING: property=%s %s [%s] (%d cases)", r.Prop, f.What, k, v.Count))
			continue
		}
		newV++
		h := sha1.Sum([]byte(k))
		dir := filepath.Join(r.Dir, "replays", r.Prop)
		os.MkdirAll(dir, 0o755)
		path := filepath.Join(dir, fmt.Sprintf("%x.json", h[:6]))
		b, _ := json.MarshalIndent(map[string]interface{}{"property": r.Prop, "key": k, "what": v.What, "cases_with_this_key": v.Count, "replay": v.Replay}, "", " ")
		os.WriteFile(path, b, 0o644)
		lines = append(lines, fmt.Sprintf("VIOLATION property=%s replay=%s key=%s :: %s", r.Prop, path, k, oneLine(v.What)))
	}
	cov := r.Cov
	if _, ok := cov["exhaustive"]; !ok {
		cov["exhaustive"] = len(r.nonEx) == 0
	}
	if len(r.nonEx) > 0 {
		cov["exhaustive"] = false
		cov["caps_hit"] = r.nonEx
	}
	cov["finding_keys_seen"] = keysSeen
	ev := map[string]interface{}{
		"property_id": r.Prop, "tier": r.Tier, "seed": r.Seed, "level": "model_checking",
		"coverage": cov, "assumptions": r.Assume,
		"wall_s":     float64(int(time.Since(r.start).Seconds()*100)) / 100,
		"violations": newV,
	}
	if r.Assume == nil {
		ev["assumptions"] = []string{}
	}
	b, err := json.MarshalIndent(ev, "", " ")
	if err != nil {
		Engine("evidence marshal: %v", err)
	}
	os.MkdirAll(filepath.Join(r.Dir, "evidence"), 0o755)
	if err := os.WriteFile(filepath.Join(r.Dir, "evidence", r.Prop+".json"), b, 0o644); err != nil {
		Engine("evidence write: %v", err)
	}
	for _, l := range lines {
		fmt.Println(l)
	}
	fmt.Printf("%s tier=%s states=%v transitions=%v exhaustive=%v violations=%d known=%d wall=%.1fs\n", r.Prop, r.Tier,
		cov["states"], cov["transitions"], cov["exhaustive"], newV, len(r.viols)-newV, time.Since(r.start).Seconds())
	if newV > 0 {
		os.Exit(1)
	}
	os.Exit(0)
}

func oneLine(s string) string {
	s = strings.ReplaceAll(s, "\n", " | ")
	if len(s) > 300 {
		s = s[:300] + "…"
	}
	return s
}

// Samples keeps the first n distinct sample values offered.
type Samples struct {
	N    int
	List []interface{}
}

func (s *Samples) Add(v interface{}) {
	if len(s.List) < s.N {
		s.List = append(s.List, v)
	}
}

// Heartbeat / hang detection: a transition on the real code that does not return within HangAfter
// (wall clock, generous: single transitions take microseconds) is reported as a "hang" violation
// with the case description; the process then has to stop (a spinning goroutine cannot be killed),
// so the run is marked non-exhaustive.
var (
	hbCount   uint64
	hbDesc    atomic.Value
	HangAfter = 30 * time.Second
)

type descBox struct{ v interface{} }

// Beat marks progress and records what is about to run.
func Beat(desc interface{}) {
	hbDesc.Store(&descBox{desc})
	atomic.AddUint64(&hbCount, 1)
}

// WatchHangs starts the watchdog; onHang receives the description stored by the last Beat and must
// not return normally (it should record the violation and call Finish).
func WatchHangs(onHang func(desc interface{})) {
	go func() {
		last := atomic.LoadUint64(&hbCount)
		lastT := time.Now()
		for {
			time.Sleep(500 * time.Millisecond)
			cur := atomic.LoadUint64(&hbCount)
			if cur != last {
				last, lastT = cur, time.Now()
				continue
			}
			runaway := false
			if time.Since(lastT) > 2*time.Second {
				// an operation that has not returned for seconds AND holds gigabytes: a loop that allocates without end
				// (reported as a hang before the machine runs out of memory)
				var ms runtime.MemStats
				runtime.ReadMemStats(&ms)
				runaway = ms.HeapAlloc > 4<<30
			}
			if runaway || time.Since(lastT) > HangAfter {
				var d interface{}
				if b, ok := hbDesc.Load().(*descBox); ok {
					d = b.v
				}
				onHang(d)
				os.Exit(2)
			}
		}
	}()
}
