// Package scenlib: scenario building blocks shared by several E1 checks (instrumented like the
// scenarios themselves).
package scenlib

import (
	"runtime"
	"fmt"
	"time"

	fpgo "github.com/TeaEntityLab/fpGo/v2"
	"github.com/TeaEntityLab/fpGo/v2/worker"
	"github.com/TeaEntityLab/fpGo/v2/zzverif/vsched"
)

// PoolCfg is one worker-pool configuration of the C09/C15 matrices.
type PoolCfg struct {
	Cap, Buf            int // job queue: channel capacity, overflow maximum
	Max, StandBy, Batch int
	Jam                 time.Duration // workerJamDuration; 0: one hour (never reached within a run)
	KeepQueue           bool          // SetIsJobQueueClosedWhenClose(false): Close leaves the job queue open
	Via                 string        // "": individual setters; "settings": NewDefaultWorkerPool(q, &settings copied from a template pool); "set-settings": SetDefaultWorkerPoolSettings + SetJobQueue
}

func (c PoolCfg) String() string {
	s := fmt.Sprintf("q%d+%d/max%d/standby%d/batch%d", c.Cap, c.Buf, c.Max, c.StandBy, c.Batch)
	if c.Jam > 0 {
		s += fmt.Sprintf("/jam%v", c.Jam)
	}
	if c.Via != "" {
		s += "/via-" + c.Via
	}
	if c.KeepQueue {
		s += "/queue-left-open"
	}
	return s
}

// NewPool builds a pool whose settings are all in place before its spawn loop is first woken
// (stand-by 0 and an empty queue make the intermediate setters post no wake-up). Idle timers
// (expiry, jam) are 1 h: longer than any run, so that final quiescence is a terminal state.
func NewPool(c PoolCfg, panicHandler func(interface{})) *worker.DefaultWorkerPool {
	q := fpgo.NewBufferedChannelQueue[func()](c.Cap, c.Buf, 100)
	p := worker.NewDefaultWorkerPool(q, nil)
	p.SetSpawnWorkerDuration(1 * time.Millisecond)
	p.SetPanicHandler(panicHandler)
	p.SetWorkerSizeStandBy(0)
	p.SetWorkerBatchSize(c.Batch)
	p.SetWorkerSizeMaximum(c.Max)
	p.SetWorkerExpiryDuration(time.Hour)
	p.SetWorkerJamDuration(time.Hour)
	if c.Jam > 0 {
		p.SetWorkerJamDuration(c.Jam)
	}
	p.SetScheduleRetryInterval(2 * time.Millisecond)
	switch c.Via {
	case "settings":
		// p is only a template (stand-by 0, never used): its settings struct configures the real pool
		st := p.DefaultWorkerPoolSettings
		p = worker.NewDefaultWorkerPool(fpgo.NewBufferedChannelQueue[func()](c.Cap, c.Buf, 100), &st)
	case "set-settings":
		st := p.DefaultWorkerPoolSettings
		p = worker.NewDefaultWorkerPool(fpgo.NewBufferedChannelQueue[func()](1, 0, 100), nil)
		p.SetWorkerSizeStandBy(0)
		p.SetJobQueue(fpgo.NewBufferedChannelQueue[func()](c.Cap, c.Buf, 100)) // before first use
		p.SetDefaultWorkerPoolSettings(st)
	}
	if c.KeepQueue {
		p.SetIsJobQueueClosedWhenClose(false)
	}
	p.SetWorkerSizeStandBy(c.StandBy)
	return p
}

// Gauge counts jobs executing at the same instant.
type Gauge struct{ Cur, Max int }

// Job returns a job closure of the given kind: "plain" (start, yield, end), "slow" (three yields),
// "panic" (start, then panics with "boom-<id>").
func Job(id int, kind string, g *Gauge) func() {
	return func() {
		g.Cur++
		if g.Cur > g.Max {
			g.Max = g.Cur
		}
		vsched.Event("start", id)
		switch kind {
		case "panic":
			g.Cur--
			panic(fmt.Sprintf("boom-%d", id))
		case "panic-nilptr": // panics with a typed nil pointer (e.g. panic(err) where err is a nil *MyError)
			g.Cur--
			panic((*Gauge)(nil))
		case "goexit": // ends its goroutine without returning and without a panic (runtime.Goexit: what testing.T.FailNow does)
			vsched.Event("end", id)
			g.Cur--
			runtime.Goexit()
		case "timed-panic": // takes 5 virtual ms, then panics
			time.Sleep(5 * time.Millisecond)
			g.Cur--
			panic(fmt.Sprintf("boom-%d", id))
		case "timed": // takes 5 virtual ms
			time.Sleep(5 * time.Millisecond)
		case "slow":
			vsched.Yield()
			vsched.Yield()
			vsched.Yield()
		default:
			vsched.Yield()
		}
		vsched.Event("end", id)
		g.Cur--
	}
}

// SchedErr names the result of a Schedule* call.
func SchedErr(err error) string {
	switch err {
	case nil:
		return "accepted"
	case worker.ErrWorkerPoolJobQueueIsFull:
		return "full"
	case worker.ErrWorkerPoolIsClosed:
		return "closed"
	case worker.ErrWorkerPoolScheduleTimeout:
		return "timeout"
	case fpgo.ErrQueueIsClosed:
		return "queue-closed"
	}
	return "other:" + err.Error()
}
