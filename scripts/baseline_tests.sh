#!/bin/bash
# Runs the 37 stable baseline tests of fpGo in the tree given as $1 (default /repo).
# Exit 0 iff all of them pass. Flaky / always-failing tests of BASELINE.json are skipped by name.
set -u
DIR="${1:-/repo}"
export GOFLAGS=-mod=mod GOPROXY=off GOSUMDB=off GOTOOLCHAIN=local
ROOT='^(TestActorAsk|TestActorCommon|TestCast|TestChannelQueue|TestClone|TestCompType|TestCompose|TestCorDoNotation|TestCorYield|TestCurry|TestFPFunctions|TestFilter|TestFilterForInterface|TestFlatMap|TestFromArrayMapReduce|TestFromArrayMapReduceForInterface|TestIsPresent|TestLet|TestMonadIO|TestOr|TestPatternMatching|TestPublisher|TestSetForInterfaceSetOperation|TestSetSetOperation|TestSort|TestSortDescriptor|TestSortForInterface|TestStreamForInterfaceSetOperation|TestStreamSetForInterfaceSetOperation|TestStreamSetOperation|TestStreamSetSetOperation|TestType|TestVariadic)$'
rc=0
( cd "$DIR" && go build ./... ) || { echo "BUILD FAILED"; exit 1; }
( cd "$DIR" && go test -vet=off -count=1 -timeout 10m -run "$ROOT" . ) || rc=1
( cd "$DIR" && go test -vet=off -count=1 -timeout 10m -run '^(TestSimpleAPI|TestSimpleAPIMultipart)$' ./network ) || rc=1
( cd "$DIR" && go test -vet=off -count=1 -timeout 10m -run '^(TestScheduleWithTimeout|TestWorkerPool)$' ./worker ) || rc=1
# also make sure the remaining test files still compile
( cd "$DIR" && go vet ./... >/dev/null 2>&1 ); true
if [ $rc = 0 ]; then echo "BASELINE: all 37 stable tests pass"; else echo "BASELINE: FAILED"; fi
exit $rc
