#!/bin/bash
# cache_selfcheck.sh <ID> [only-filter] : explores the quick matrix of an E1 check with and without the
# happens-before state cache and requires the same number of distinct outcomes per scenario.
ID="$1"; ONLY="${2:-}"
V="$(cd "$(dirname "$0")/.." && pwd)"
T=$(mktemp -d /tmp/selfcheck-XXXX); trap 'rm -rf $T' EXIT
mkdir -p $T/a $T/b; cp "$V/known_findings.json" $T/a; cp "$V/known_findings.json" $T/b
VERIF_DIR=$T/a VERIF_TAG=sc-a "$V/vcheck" $ID quick ${ONLY:+-only "$ONLY"} >/dev/null
VERIF_NOCACHE=1 VERIF_DIR=$T/b VERIF_TAG=sc-b "$V/vcheck" $ID quick ${ONLY:+-only "$ONLY"} >/dev/null
python3 - $T <<'PY'
import json,sys
t=sys.argv[1]
a=json.load(open(t+'/a/evidence/'+[f for f in __import__('os').listdir(t+'/a/evidence')][0]))
b=json.load(open(t+'/b/evidence/'+[f for f in __import__('os').listdir(t+'/b/evidence')][0]))
bad=0
bs={s['scenario']:s for s in b['coverage']['scenarios']}
for s in a['coverage']['scenarios']:
    o=bs[s['scenario']]
    same = s['distinct_outcomes']==o['distinct_outcomes'] or o.get('deadline_hit') or s['bound_completed']!=o['bound_completed']
    flag = '' if same else '  <<<<< MISMATCH'
    if not same: bad+=1
    print('%-55s cache: %7d execs %4d outcomes | nocache: %9d execs %4d outcomes%s%s'%(s['scenario'],s['executions'],s['distinct_outcomes'],o['executions'],o['distinct_outcomes'],' (deadline)' if o.get('deadline_hit') else '',flag))
print('MISMATCHES:',bad)
sys.exit(1 if bad else 0)
PY
