#!/bin/bash
# confirm_seed.sh <src-dir with patch.diff, zz_demo_test.go, DEMO_PKG, notes.md> <seed-id e.g. C07-a> <property>
# Confirms in a scratch worktree of /repo HEAD: patch applies, baseline suite passes with it,
# demonstration fails with it and passes without it. On success stores /verif/seeded/<seed-id>/.
set -u
SRC="$1"; SID="$2"; PROP="$3"
V="$(cd "$(dirname "$0")/.." && pwd)"
export GOFLAGS=-mod=mod GOPROXY=off GOSUMDB=off GOTOOLCHAIN=local
WT="/tmp/seedwt-$SID"
git -C /repo worktree remove --force "$WT" >/dev/null 2>&1; rm -rf "$WT"
git -C /repo worktree add -f --detach "$WT" HEAD >/dev/null 2>&1 || { echo "$SID: cannot create worktree"; exit 2; }
trap 'git -C /repo worktree remove --force "$WT" >/dev/null 2>&1; rm -rf "$WT"' EXIT
PKG=$(cat "$SRC/DEMO_PKG" 2>/dev/null | tr -d ' \n'); PKG=${PKG:-.}
run_demo() { ( cd "$WT" && cp "$SRC/zz_demo_test.go" "$PKG/zz_demo_test.go" && go test -vet=off -count=1 -timeout 5m -run 'TestDemo' "./$PKG" >"$1" 2>&1; rc=$?; rm -f "$PKG/zz_demo_test.go"; exit $rc ); }
# 1. demo passes without the change (3 runs)
for i in 1 2 3; do run_demo /tmp/seed-$SID.clean.log || { echo "$SID: REJECT demo fails on clean tree"; tail -5 /tmp/seed-$SID.clean.log; exit 1; }; done
# 2. apply
( cd "$WT" && git apply --3way "$SRC/patch.diff" 2>/tmp/seed-$SID.apply.log || git apply "$SRC/patch.diff" 2>>/tmp/seed-$SID.apply.log ) || { echo "$SID: REJECT patch does not apply to HEAD"; cat /tmp/seed-$SID.apply.log; exit 1; }
( cd "$WT" && git reset -q )
# 3. suite passes with the change (2 runs)
# (worker.TestWorkerPool is timing-sensitive and fails now and then on the pristine tree under load: 2 passes out of at most 5 attempts are required)
ok=0; for i in 1 2 3 4 5; do "$V/scripts/baseline_tests.sh" "$WT" >/tmp/seed-$SID.suite.log 2>&1 && ok=$((ok+1)); [ $ok -ge 2 ] && break; done
[ $ok -ge 2 ] || { echo "$SID: REJECT suite fails with change"; tail -5 /tmp/seed-$SID.suite.log; exit 1; }
# 4. demo fails with the change (3 runs, all must fail)
for i in 1 2 3; do if run_demo /tmp/seed-$SID.mut.log; then echo "$SID: REJECT demo passed with change (run $i)"; exit 1; fi; done
mkdir -p "$V/seeded/$SID"
( cd "$WT" && git diff ) > "$V/seeded/$SID/patch.diff"
cp "$SRC/zz_demo_test.go" "$V/seeded/$SID/"; echo "$PKG" > "$V/seeded/$SID/DEMO_PKG"; cp "$SRC/notes.md" "$V/seeded/$SID/notes.md" 2>/dev/null
python3 - "$V/seeded/$SID" "$PROP" "$SID" <<'PY'
import json,sys,subprocess
d,prop,sid=sys.argv[1:4]
head=subprocess.check_output(['git','-C','/repo','rev-parse','--short','HEAD']).decode().strip()
notes=open(d+'/notes.md').read() if __import__('os').path.exists(d+'/notes.md') else ''
json.dump({"seed":sid,"property":prop,"base_commit":head,"origin":"independent sub-agent given only the property text and a scratch worktree",
 "needs_to_manifest":"see notes.md","confirmed":["patch applies to base_commit","scripts/baseline_tests.sh passes with the change (2 runs)","demonstration fails with the change (3/3 runs)","demonstration passes without the change (3/3 runs)"],
 "detected_by":None},open(d+'/meta.json','w'),indent=1)
PY
echo "$SID: CONFIRMED"
