#!/usr/bin/env python3
"""Generates /verif/MANIFEST.json from the table below (one entry per claimed property)."""
import json, os
V = os.path.dirname(os.path.dirname(os.path.abspath(__file__)))
props = [json.loads(l) for l in open(os.path.join(V, 'properties.jsonl'))]

E2 = "explicit-state BFS over operation histories of the real object, canonical private-state de-duplication, reference model"
E3 = "exhaustive enumeration of a finite input alphabet on the real functions against a reference definition"
E1 = "stateless schedule exploration of the real code (source-instrumented, controlled scheduler), deviation-bounded DFS"

checks = {
 # id: (engine, technique, level text, level note, design ref)
 "C06": ("E2", E2,
   "Every history over the 15-operation deque/pool alphabet is executed on a fresh real LinkedListQueue and compared step by step with an ideal deque; the search runs until no new canonical state (complete node graph incl. the objects retained by sync.Pool + model) appears, i.e. the reachable state space for <=3 (quick) / <=5 (thorough) stored items is closed - under each of three sync.Pool policies (hands back nothing / last put / first put; the library is built with its sync import redirected to a shim). Plus the burst family fill n, drain n, fill n, drain n+1 (tail- and head-wise) for EVERY n up to 600 (thorough 1500), which crosses any free-list / pool-size threshold below that bound.",
   "Bound on stored items for the closed search, bound on n for bursts; values are opaque to the container (renaming argument); sync.Pool behaviour enumerated as three deterministic policies.", "DESIGN.md §3, §5 C06"),
 "C12": ("E1", E1,
   "All schedules (pre-emption bound 2 quick / 3 thorough) of 1-4 senders x 1-2 messages on Handler.NewByCh / Actor.NewByOptions with capacities 0-2, Close followed by further submissions, and spawn trees (from the driver, from inside an effect, under a closed parent) are executed on the instrumented real code; the enter/leave log must show exactly-once, non-overlapping, per-sender-ordered processing.",
   "Bounded threads/messages/pre-emptions; SC interleavings; vsched runtime model.", "DESIGN.md §2, §5 C12"),
 "C13": ("E1", E1,
   "All schedules (pre-emption bound 2/3, early timer firing as a deviation) of 1-3 concurrent askers using AskOnce / AskChannel / AskOnceWithTimeout against an actor that replies at once, after a yield, 20 virtual ms late, or never, each followed by a second ask; every asker must receive the answer computed from its own payload or a clean (zero, ErrActorAskTimeout), no goroutine may panic or stay blocked, later asks must be served.",
   "Bounded askers/pre-emptions; virtual time; SC interleavings; vsched runtime model.", "DESIGN.md §2, §5 C13"),
 "C08": ("E1", E1,
   "All schedules (pre-emption bound 2 quick / 4 thorough, 3 for three clients) of 2-3 client threads x 1-3 operations on a ConcurrentQueue / ConcurrentStack wrapping (i) a hostile non-thread-safe probe container that yields inside every method and detects overlapping calls and (ii) the real LinkedListQueue with race-directed scheduling points on its fields; every complete call/return history (plus a final sequential drain) must be linearizable w.r.t. a FIFO/LIFO model (porcupine, cross-checked by brute force), with no overlap, panic or blocked thread.",
   "Bounded clients/operations/pre-emptions; SC interleavings; vsched runtime model; porcupine v1.3.0 as history judge.", "DESIGN.md §2, §5 C08"),
 "C16": ("E1", E1,
   "All schedules (pre-emption bound 2, 1 for the larger lists; happens-before state cache) of PMap over lists of length 0-3 (thorough 0-4) x FixedPool in {no option,-1,0,1,2,len,len+1} x ordered/RandomOrder with a data-dependent-duration f that yields inside: result equals Map(f,list) (or a permutation), f applied exactly once per element, at most min(FixedPool,len) applications in flight, none after return, every execution terminates.",
   "Bounded list length/pre-emptions; SC interleavings; vsched runtime model.", "DESIGN.md §2, §5 C16"),
 "C15": ("E1", E1,
   "All schedules (pre-emption bound 2/3, delay bound 1/2 for the 8-9 thread coroutine scenarios; early timer firing as a deviation) of one closing thread against 1-3 users of the same object: Handler.Post, Actor.Send (also Close from inside the effect), BufferedChannelQueue Offer/Put/Take/TakeWithTimeout/Poll/GetChannel-receive/Count with the loader mid-pass, coroutine YieldFrom / YieldRef reply against a finishing coroutine (incl. more pending requests than the request buffer), WorkerPool Schedule with idle and busy workers. No goroutine may panic, the pool panic handler must stay silent, nothing may block forever, calls begun after Close returned must report it or be dropped.",
   "Bounded users/pre-emptions; SC interleavings; vsched runtime model; virtual time.", "DESIGN.md §2, §5 C15"),
 "C09": ("E1", E1,
   "All schedules (pre-emption bound 1 for single-submitter scripts, delay bound 2/3 for two submitters; early timer firing as a deviation; happens-before state cache) of a DefaultWorkerPool over a BufferedChannelQueue for 3-6 configurations (queue 1-2+0-2, max 1-2, stand-by 0-2, batch 0-1) x 8-10 submission scripts mixing plain, slow and panicking jobs through Schedule / ScheduleWithTimeout / Invoke, optionally closing the pool at the end: per job run count <= 1 and == 1 at final quiescence when accepted and the pool is open, rejected jobs never run, running gauge <= workerSizeMaximum, panic handler exactly once per panicking job and for nothing else, documented error codes.",
   "Bounded jobs/submitters/deviations; idle timers 1 h (longer than the run); virtual time with a 300 ms horizon; SC interleavings; vsched runtime model.", "DESIGN.md §2, §5 C09"),
 "C07": ("E1", E1,
   "All schedules (pre-emption bound 1-2, delay bound 2-3 for the two-producer/two-consumer scenarios; early timer firing as a deviation; happens-before state cache) of producers (Offer/Put of tagged values), consumers (Poll / TakeWithTimeout / receive on GetChannel) and the queue's own loader and free-node goroutines over every (channelCapacity, bufferSizeMaximum) in {0,1,2}^2, followed by a drain (repeated Poll with pauses, or one blocking Take per outstanding item); plus the ChannelQueue wrappers on capacities 0-2. Invariant at every scheduling step with the queue lock free: channel length + overflow <= capacity + maximum. At the end: delivered multiset = accepted multiset (capacity >= 1), per-producer order per consumer, no invented/duplicated value, ErrQueueIsFull / ErrQueueIsEmpty only when the overflow was at its maximum / the channel was empty at some step of the call, Offer/Poll never blocked, Count() = 0.",
   "Bounded producers/consumers/values/deviations; virtual time with a 400 ms horizon; SC interleavings; vsched runtime model; private queue state read by reflection for the capacity clause.", "DESIGN.md §2, §5 C07"),
 "C14": ("E1", E1,
   "All schedules (pre-emption bound 2/3 for 1-2 callers, delay bound 2-3 for 3-8 callers; happens-before state cache) of a target coroutine with generator shape fixed / echo / accumulate serving 1-8 caller coroutines x 1-7 YieldFrom requests (including 7 sequential requests and 7-8 simultaneously pending ones, more than the channel buffer of 5), started before or after the callers; StartWithVal alone and racing with a caller that asks as soon as IsStarted reports true; DoNotation and YieldFromIO(Just / New). Oracle: the i-th request taken by the target returns that request's x to YieldRef and the i-th yielded value to exactly the caller that made it, per-caller order, nothing lost / duplicated / invented, lifecycle flags.",
   "Bounded callers/requests/deviations; SC interleavings; vsched runtime model.", "DESIGN.md §2, §5 C14"),
 "C10": ("E1", "exhaustive enumeration of re-entrant operation histories on the real Publisher (all callback-behaviour vectors x all histories up to a depth) plus " + E1,
   "Re-entrant part: every history over {Subscribe(i), Unsubscribe(i), Publish} up to depth 4 (thorough 5) x every vector of callback behaviours (nothing / unsubscribe self / next / previous / subscribe a new one / nested publish) for 3 subscribers, plus Map chains of 1-3 hops, executed on the real Publisher and checked call by call (nested calls included) against the delivery rule. Concurrent part: all schedules (pre-emption bound 2/3) of 1-2 publishing goroutines against a goroutine that subscribes / unsubscribes, callbacks yielding, with and without SubscribeOn(handler): registered-before-and-through => exactly once, unsubscribed-before-begin => never, otherwise at most once; with a handler never on the publishing goroutine.",
   "Bounded subscribers/history depth/pre-emptions; SC interleavings; vsched runtime model.", "DESIGN.md §3, §2, §5 C10"),
 "C11": ("E1", "exhaustive enumeration of all MonadIO compositions up to a depth (one shared expression DAG) against a reference interpreter, plus " + E1,
   "Composition part: all expressions over {Just, New(e_i), m.FlatMap(f_j)} up to depth 4 (thorough 6) are built as one DAG with shared sub-expressions (3 effects whose value differs per evaluation, 3 continuations, one returning a nested composition); nothing may run while building; every expression is then evaluated by Eval (twice), Subscribe with OnNext and Subscribe without OnNext and compared (effect log, value, OnNext count) with a reference interpreter; the three monad laws are checked as equality of (effect log, value). Handler part: all schedules (pre-emption bound 2/3) of every nil/non-nil ObserveOn x SubscribeOn combination with 1-3 subscriptions of the same MonadIO and buffered handler mailboxes: effect on h1's goroutine, OnNext on h2's, once each, each OnNext receiving the value of its own evaluation.",
   "Bounded expression depth / subscriptions / pre-emptions; SC interleavings; vsched runtime model.", "DESIGN.md §4, §2, §5 C11"),
 "C20": ("E1", "exhaustive enumeration of function lists, regroupings, adapter arities, Trampoline step functions, ordered pattern subsets x probe values against reference evaluators, plus " + E1,
   "Sequential part: all function lists of length 1-4 (thorough 5) over 5 non-commuting tagged functions and all lists of length up to 6 over 2, each handed as ONE shared slice to Compose, Pipe, their regroupings at every split point and the interface{} twins, applied twice, with the caller's slice re-inspected; every Curry*/MakeVariadic* arity with distinguishable arguments; Trampoline for all (done at k, error at k) step functions; sequential CurryDef; NewCompData over all argument tuples up to length 3 of a 6-value alphabet; every ordered subset of {Kind(Int), Kind(String), SumType, Equal, Regex, Otherwise} (1957 lists) x 20-24 probe values (numbers, strings, nil, typed nil pointers, structs, pointers to structs and to nil pointers, slices, maps, CompData of matching / other type) against a first-match reference evaluator (panic iff nothing accepts). Concurrent part: all schedules (pre-emption bound 2/3) of 2-4 goroutines calling CurryDef.Call with a function that yields inside and marks done at 1-3 arguments.",
   "Bounded list lengths / alphabets / pre-emptions; SC interleavings; vsched runtime model.", "DESIGN.md §4, §2, §5 C20"),
 "C01": ("E3", E3,
   "The complete product of a 57-value alphabet (at least one value per reflect.Kind: every int/uint/float width incl. NaN/Inf/-0, strings, structs, nil and non-nil slices / maps / funcs / chans, pointers, pointer chains with a nil inside, typed nil pointers, untyped nil, nil error, nested Maybe up to depth 3, None, Just(None)) x both constructors x every MaybeDef observer, the concrete-only conversions, three fallbacks, four FlatMap functions (pairwise for associativity), ToMaybe, Clone; plus 21 concrete instantiations of JustGenerics[T]. Oracle: absent(v) computed from the definition; every observer must agree with it; FlatMap(f) observes as f(v); ToMaybe flattens exactly one level; Clone is an equal Maybe with a distinct pointer target; nothing panics.",
   "Finite value alphabet (one representative per kind and per shortcut in the code).", "DESIGN.md §4, §5 C01"),
 "C02": ("E3", E3,
   "Every value of bool, int8, uint8, int16, uint16 (131 586 values) plus a boundary lattice for the 32/64-bit integer types, uintptr, float32 and float64 (every bound of the 8 integer types and every power of two up to 2^64, each +-1, +-2, +7/+42, and as floats +-0.49/0.5/0.51/1.5 with both neighbours; NaN, +-Inf, -0, subnormals, MaxFloat32/64) and 70 decimal / malformed strings, x all 16 conversion methods and ToBool, judged by exact big.Int / big.Float arithmetic: a nil error implies the mathematically same (correctly rounded) value, a value that fits must convert, unsupported kinds give ErrConversionUnsupported. Thorough additionally sweeps all 2^32 float32 bit patterns x the 12 integer targets (5.2e10 conversions).",
   "Lattice instead of full enumeration for the 32/64-bit sources (the code is piecewise with constant guards; every bound and power of two is a lattice point); values within 0.5 of a bound may convert or fail.", "DESIGN.md §4, §5 C02"),
 "C03": ("E3", E3,
   "Every list over 3 symbols up to length 4 (thorough 5) plus nil, for int, string and struct elements, each allocated with spare capacity filled with a sentinel; every count / size in [-3, len+3]; predicate family {true, false, even, ==1, index<2, nil}; all pairs of lists up to length 3 for the binary helpers (with a second call on the same input to expose shared backing arrays); all 27 partial maps {0,1,2}->{0,1} and all pairs of them; all lists for Min/Max/MinMax; all (lower, higher, hop) in [-3,4]^3 for Range. Each of the ~45 helpers is compared with a reference definition written from its doc comment; inputs must be byte-for-byte unchanged (including the spare capacity), results must not contain the sentinel, nothing may panic.",
   "Finite alphabets; documented-undefined corners (non-positive counts, empty operands of IsEqual/IsEqualMap/IsDistinct) only checked for no-panic / inputs unchanged / contiguous sub-sequence.", "DESIGN.md §4, §5 C03"),
 "C04": ("E2", E2,
   "Breadth-first search over all programs up to depth 3 (thorough 4) whose steps apply any of 25 stream operations (13 set operations, 5 stream-set operations + the nested in-place Remove) to any live collection of a growing pool with any live collection as argument (indices -1/0/1/2/100 for Remove), for both families; after every step every live collection is re-observed (ToArray / Keys / contents, Len, Get, Contains, ToArray detached) and must equal its model; the documented in-place mutators update the model object in place; states are de-duplicated on contents + object identity + backing-array sharing + spare capacity of the whole pool.",
   "Bounded program depth and pool; constructors adopt their argument; interface{} sets compared by key (that family stores its own placeholder values).", "DESIGN.md §3, §5 C04"),
 "C05": ("E3", E3,
   "All pairs of lists over {0,1,2} up to length 3 (thorough 4) incl. nil and empty, all triples up to length 2 (thorough 3), for the slice functions (Union, Intersection, Minus, Difference, IsSubset, IsSuperset, Distinct and the ForInterface twins) and for Stream (Intersection, Minus, Distinct, Extend+Distinct, IsSubset, IsSuperset, and two unions from one derived operand); all pairs of key sets for MapSet; all pairs of key->stream maps over 2 keys x {absent, nil, [], [1], [1 2], [2 2]} for StreamSet (Union, Intersection, MinusStreams, Minus, IsSubsetByKey, IsSupersetByKey). Non-empty operands: membership characterisation, no duplicates, first-operand order, A = (A-B) u (A n B), subset <=> empty difference. All operands: generic and interface{} twin return the same answer, nothing panics, operands unchanged.",
   "Finite alphabets; sets compared by key.", "DESIGN.md §4, §5 C05"),
 "C17": ("E3", E3,
   "11 constructors (the 8 named ones and the 3 generic ones) x 7 templates with 0-4 placeholders x all 32 subsets of {x,y,z,w,unused} as PathParam (values 1, \"v\", \"a b\", 3.5; also a nil PathParam) x 3 default headers, plus 7 injected faults / body shapes (serializer, transport, body-read, deserializer, deserializer returning nil, unserialisable body, nil body) over a stub RoundTripper whose response body honours the request context; every returned MonadIO is evaluated twice. Oracle: nothing sent before Eval; exactly one request per Eval with the constructor's method, BaseURL + \"/\" + substituted template, a copy of DefaultHeader plus the declared Content-Type (shared map unchanged even when the transport mutates the request header), the serializer's output as body (multipart bodies re-parsed); target filled; faults surface as Err, never a panic.",
   "Stub transport instead of sockets; brace-free placeholder values (substitution order irrelevant); the planned map-order seam was not built.", "DESIGN.md §4, §5 C17"),
 "C18": ("E2", E2,
   "Breadth-first search over all histories up to depth 4 (thorough 5) of 15 operations (AddInterceptor of one / two / a failing interceptor, RemoveInterceptor, ClearInterceptor, SetHTTPClient with another client, the same client again, a copy of the current client; Get, Post, SimpleAPI Get) applied to either of two SimpleHTTP instances that were built from ONE caller-owned interceptor slice with spare capacity; every history ends with a probe request on each instance. Per request the shared call log must equal the registered interceptors in order followed by exactly one transport call, cut at the first failing interceptor whose error is surfaced; header changes must reach the transport; a SimpleHTTP that has become its own underlying transport is reported as recursion. States are de-duplicated on the canonical private state of both objects plus the model lists.",
   "Bounded history depth; stub transports; one http.Client per instance; which stub transport is used after switching clients is not demanded.", "DESIGN.md §3, §5 C18"),
 "C19": ("E3", E3,
   "All record lists up to length 4 (thorough 5) over 6 (key, second key) symbols with unique tags, and all run-compositions of long two-key lists (21/22 elements into <=5/4 runs, 65/66/130 into <=3, 257 into <=2: merge path and size thresholds of the stable sort) x comparators {<, >, by second key, <=} x Sort, SortSlice, Stream.Sort, Stream.SortByIndex (comparator indexing the caller's slice), both stream families, SortOrdered/Ascending/Descending: permutation by tag, no inversion w.r.t. the comparator, stability for strict comparators. Descriptors: 13 key selections (1-3 keys; transformer- and field-name based; ComparableOrdered and ComparableString) x all direction vectors x all row lists up to length 3 (thorough 4) plus 300 long row lists x ToSortedList, SortedListBySortDescriptors (input untouched) and in-place Sort: permutation and lexicographic order by the key list.",
   "Finite alphabets; ties of descriptor sorts unconstrained.", "DESIGN.md §4, §5 C19"),
}

# extensions made after the second round of independently produced breaking changes (appended to the level text)
addenda = {
 "C06": " A few deep bursts (n = 1025, 1100, 2049, 4097, 5000; thorough also 8193, 10000) cross any size threshold below them.",
 "C07": " Stranded-item clause: after the producers are done the drain keeps polling while Count() > 0 (bounded rounds), so an item that is counted but can never be obtained is reported.",
 "C08": " Scripts include every removal entry point (Poll, Take, Pop) on an empty or emptied container against an insertion or another removal.",
 "C09": " Jammed-pool scenarios: workerJamDuration 3 ms, all workers inside jobs of 5 virtual ms when a late submission wakes the spawn loop.",
 "C11": " Constructor isolation: two MonadIOs from the same constructor and argument (MonadIO.Just(nil), Just(7), MonadIOJustGenerics, MonadIO.New); handlers set on one must not route the other.",
 "C13": " Caller-supplied reply channels (AskNewByOptionsGenerics, capacity 0 and 1). Timeout series: one asker issuing 2-4 AskOnceWithTimeout calls with actor latencies now / exactly the timeout / late / never, under three sync.Pool policies and with time.Timer modelled with the channel semantics of a go 1.18 module (a fired value survives Stop/Reset); ErrActorAskTimeout is legal only once the timeout has elapsed on the virtual clock.",
 "C15": " Pool close also with SetIsJobQueueClosedWhenClose(false); after Close returned Schedule, ScheduleWithTimeout, Invoke and InvokeWithTimeout are each tried: all must report the close and none of their jobs may run.",
 "C16": " One PMapOption value reused for two calls (empty list, then two elements): the bound of the second call is still the option's.",
 "C19": " All descriptor builders are derived before use, every stack from the single builder value of its prefix (a builder is a value); field-name descriptors also on a second struct type with the same field names at other positions and on pointers to rows.",
 "C20": " Equality patterns over {7, a pointer, a struct with a pointer field, a struct, a string, nil} x probes including a different pointer to an equal value: the test is Go's ==.",
 "C01": " Kind() / IsKind(k) for every reflect.Kind and IsPtr are compared with reflect on the stored value.",
 "C02": " Strings include signed, padded and spaced forms.",
 "C10": " Relay chains (a subscriber that publishes to a second Publisher) are included.",
 "C18": " Two instances may share one http.Client (s2.SetHTTPClient(s1's client)): the request then passes the chain of the instance it was made through and the chains it wraps, each exactly once, then one transport.",
}
for k, v in addenda.items():
    e = checks[k]
    checks[k] = (e[0], e[1], e[2] + v, e[3], e[4])

# extensions after the API-coverage audit and the third round
addenda3 = {'C04': ' The state key of the set search carries which handles share one Go map; a constructor pass applies every stream / set / stream-set constructor (incl. the converting FromArray* ones) to every list up to length 3.',
 'C05': ' Long operands (17-300 elements: distinct, reversed, with repeats) are paired with each other and with the short lists for the slice and Stream operations; the map helpers (Keys, Values, Merge, DuplicateMap, IntersectionMapByKey, MinusMapByKey, IsSubset/IsSupersetMapByKey, SliceToMap, Exists) and their ForInterface twins over all pairs of partial maps.',
 'C07': ' Queues configured through their setters; the overflow limit lowered at run time below what is buffered (the queue must not grow while above the limit).',
 'C08': ' A bounded wrapped container (2 slots, refuses instead of blocking) with insertions that find it full; the sequential model has the same capacity.',
 'C09': ' Pools configured through a settings struct / SetDefaultWorkerPoolSettings + SetJobQueue; the panic handler replaced while a worker exists; closed pools whose job queue stays open.',
 'C10': ' Values are published on every stage of a Map chain.',
 'C11': " Re-configuration (SubscribeOn(nil) / another handler) while a subscription's effect is running: a subscription is routed by the handlers in force when Subscribe was called.", 'C12': ' Two mailboxes from each of the six Handler / Actor constructors whose work depends on each other (would deadlock if they shared a goroutine or channel).',
 'C13': ' Method-style constructors Ask.New / Ask.NewByOptions on the utility instance and on a constructed (factory) instance.',
 'C14': ' Cor.New (interface{} coroutine) as target with callers from NewAndStart.',
 'C18': ' Every HTTP verb plus DoNewRequest / DoNewRequestWithBodyOptions / DoRequest is probed after every history with the method seen by the transport; a second world whose shared constructor slice holds three interceptors; three default-constructed instances (NewSimpleHTTP, NewSimpleAPI) used with the clients the constructors made, http.DefaultTransport stubbed for the duration.',
 'C19': ' ThenWith(descriptor objects) and SortBySortDescriptors are further API variants of every stack.',
 'C20': ' One adapter instance of every MakeVariadic* / CurryParam* family applied twice with the first result re-inspected; MatchCompType(Ref); CurryNew.'}
for k, v in addenda3.items():
    e = checks[k]
    checks[k] = (e[0], e[1], e[2] + v, e[3], e[4])

# extensions after the fourth round
addenda4 = {'C01': ' The whole enumeration is evaluated twice in one process (answers must not depend on earlier evaluations).',
 'C02': ' A second pass evaluates every string and lattice value again with targets and sources in the opposite order.',
 'C03': ' Long lists (17-130 elements) and the extreme values of int as counts; three passes under the three sync.Pool policies of the shim (library built with its sync import redirected), with poisoned calls between them (callbacks that panic at their k-th invocation, unhashable values behind interface{}) each followed by a fixed probe battery.',
 'C05': ' Three passes under the three sync.Pool policies of the shim with poisoned calls (unhashable elements) each followed by a fixed probe battery; every result set is written to before the next operands are evaluated.',
 'C07': ' Bursts, drain and idle periods with a one-hook node pool under retaining sync.Pool policies.',
 'C10': ' Callback behaviours include unsubscribing a handle that is not registered before unsubscribing itself.',
 'C12': ' Spawn continues on an open actor below closed ancestors.',
 'C13': ' Timeouts of zero and below; one Ask object used for three AskChannel requests in a row.',
 'C15': ' The job in flight at Close may end with its own panic afterwards.',
 'C16': ' Three consecutive calls with different functions under retaining sync.Pool policies.',
 'C17': ' Built with the sync import of the root and network packages redirected to the shim: an interceptor that evaluates another JSON call between serialization and transmission, same MonadIO evaluated twice, under the three sync.Pool policies.',
 'C19': ' Two function-local record types that print alike with the same field names at different positions.',
 'C20': ' An invalid regex pattern in the equality family with every probe evaluated twice; a first Call that spreads one caller-owned slice with spare capacity into two curries.'}
for k, v in addenda4.items():
    e = checks[k]
    checks[k] = (e[0], e[1], e[2] + v, e[3], e[4])

# extensions after the fifth round
addenda5 = {'C01': ' Values include typed nil pointers whose type has a nil-tolerant String method; every clone is kept and re-inspected after all later clones.',
 'C07': ' Every sequence of three bursts with 1-3 values in the overflow buffer, each drained before the next, under two sync.Pool policies.',
 'C08': ' Sequential part on the same build: every history over {Offer, Put, Poll, Take, Push, Pop} up to depth 7 (thorough 9) on a ConcurrentQueue and a ConcurrentStack sharing one LinkedListQueue against an ideal deque, and fill/drain bursts up to 1200 values, under the three sync.Pool policies.',
 'C17': ' A deserializer that keeps the byte slice it is given: the bytes of earlier responses are re-inspected after later requests.',
 'C18': ' An operation that replaces the Transport of the current client and hands the same client to SetHTTPClient again; an interceptor that makes a request through the same instance (the inner request passes the whole chain).'}
for k, v in addenda5.items():
    e = checks[k]
    checks[k] = (e[0], e[1], e[2] + v, e[3], e[4])

# extensions after the sixth round
addenda6 = {'C01': ' Pointers to interface values (holding a value, holding nil, errors).',
 'C04': ' Sort with a comparator that does not distinguish all elements (stable order expected), also over the long roots.',
 'C09': ' Batch sizes MaxInt and MaxInt-1 on an on-demand pool.',
 'C13': ' Timeouts from 24 days to the largest Duration with an actor that answers at once.',
 'C20': ' Kind(Ptr) among the pattern kinds.'}
for k, v in addenda6.items():
    e = checks[k]
    checks[k] = (e[0], e[1], e[2] + v, e[3], e[4])

# extensions after the seventh round
addenda7 = {'C03': ' The whole suite also for *int, float64 (with -0 and +Inf) and a struct with a pointer field; Range for float64 / float32 / int8 / uint8 with fractional bounds and hops.',
 'C04': ' The payload table (nil, typed nil pointers, zero values, equal-but-distinct pointers, an error value) through the interface{} stream operations that look at values (FilterNotNil, Distinct, Contains, RemoveItem) and nil / distinct pointers through StreamDef[*int].',
 'C05': ' The set laws judged on symbols for other element types: float64 (one element written +0 and -0), pointers to equal structs, structs whose printed forms collide, *int, strings differing in case, structs with pointer fields.',
 'C06': ' Every history to depth 5 over {Offer, Unshift, Poll, Pop, Peek} storing the payload table (interface{}) and value tables of float64, *int, string, bool and a struct with a pointer field: removals return exactly the stored value (identity, sign of zero).',
 'C07': ' Payload scenarios: nil and typed nil pointers, equal neighbours, zero values and equal structs with distinct pointers through the overflow buffer of a BufferedChannelQueue[interface{}].',
 'C08': ' The payload table through every removal entry point of the wrappers.',
 'C09': ' A job that panics with a typed nil pointer.',
 'C10': ' The payload table published on Publisher[interface{}] / [*int], received directly, through Map(identity) and through a Map to nil.',
 'C11': ' Just(v) for the payload table and for a MonadIO as a value: Eval, Subscribe and FlatMap see exactly v.',
 'C12': ' The payload table as messages of an Actor[interface{}]; zero-valued messages queued in a buffered Actor[int] that is then closed.',
 'C13': ' The payload table as replies (incl. a value that is an error).',
 'C14': ' The payload table as requests, answers and the StartWithVal value of a Cor[interface{}] (identity preserved).',
 'C15': ' TakeWithTimeout with a zero and a negative timeout on a closed queue.',
 'C16': ' nil-containing []interface{} and []*int lists; one default-schedule smoke run over 3 000 elements (70 000 in the thorough tier).',
 'C17': ' Path parameters of named types with String methods, durations and booleans; zero-valued and empty JSON bodies.',
 'C18': ' The interceptors of the world are created in one loop (closures of one function literal).',
 'C19': ' int64 keys of the largest magnitudes; rows of mixed dynamic struct types behind interface{} sorted by field name.',
 'C20': ' Regex patterns whose match is empty.'}
for k, v in addenda7.items():
    e = checks[k]
    checks[k] = (e[0], e[1], e[2] + v, e[3], e[4])
addenda8 = {'C02': ' Decimal strings with an explicit sign and with leading zeros for every lattice value.',
 'C04': ' A Sort whose comparator reads the receiver while it runs, and a Sort whose comparator panics half-way (the caller recovers): nothing is disturbed by a failed operation either.',
 'C10': ' Callback behaviours that act on the first value of a top-level Publish (after a nested Publish has come and gone); every history also with the subscribers 1 and 2 Map hops behind the publisher the values enter at.',
 'C11': ' Subscriptions without OnNext for every combination of handlers: neither the outer effect, the FlatMap function nor the inner effect runs, on any goroutine.',
 'C12': ' An actor that also answers Asks: an Ask that times out (reply late or never) between ordinary messages.',
 'C16': ' Pool sizes len+7, MaxInt32, MaxInt and MinInt in both order modes (a goroutine explosion ends the execution with a failure: vsched.MaxThreads).',
 'C18': ' Requests whose context is cancelled, expired (TimeoutMillisecond: 1) or given up by an interceptor half-way, for all interceptor vectors of length 0..3 over {plain, cancelling, failing} x 5 entry points; interceptor variables that are nil at registration and assigned (or re-assigned, or removed) before the request.',
 'C19': ' Transformers that have no key for some records (nil): two records without a key tie on it and later descriptors decide; all lists up to the length bound over 12 symbols x 7 stacks x all directions.',
 'C20': ' Every sequence of up to 4 CurryDef.Calls over the argument tuples (), (1), (2,3) x 5 MarkDone thresholds; pattern lists [p], [p,q], [q,p] over all pairs of pattern kinds where the effect of p panics or runs a nested MatchFor that nothing accepts: exactly the first accepting effect is applied and its failure reaches the caller.'}
for k, v in addenda8.items():
    e = checks[k]
    checks[k] = (e[0], e[1], e[2] + v, e[3], e[4])
addenda9 = {'C03': ' Flatten / Concat called with a spread list of lists [a nil b nil a], twice: the caller\'s outer list is an input too.',
 'C04': ' pairPass: every program of two operations without state de-duplication followed by one revealing step (Set, the interface{} Remove, SortByIndex) on either result - sharing with something outside the pool (a package-level object) cannot be part of a state key.',
 'C05': ' The results are worked on (SortByIndex, Remove) and the same questions asked of the same operands again.',
 'C08': ' A wrapped container that panics on one value (the caller recovers): the wrapper stays usable; sequential histories to depth 8 with the wrapped queue\'s node pool trimmed in between.',
 'C10': ' With SubscribeOn(h) all deliveries come from one goroutine, one at a time (two concurrent first publishers on a fresh handler).',
 'C15': ' Every queue scenario ends with all entry points called once more after the racing call has returned (a lock left behind by the loser of the race).',
 'C16': ' A default-schedule sweep over every (length <= 12, pool <= length+2) pair in both order modes (declared smoke run).',
 'C17': ' JSON bodies that are nil slices / maps / pointers to zero structs; one MonadIO evaluated three times with a serializer returning a one-shot reader.',
 'C20': ' Pattern lists over Kind(Slice/Map/Func/Chan), SumType and Otherwise with nil and empty containers as probes; NewCompData with nil containers.'}
for k, v in addenda9.items():
    e = checks[k]
    checks[k] = (e[0], e[1], e[2] + v, e[3], e[4])
addenda10 = {'C03': ' Every length 4-40 over three symbols; lists of 8, 9, 10, 16, 17, 33 distinct values followed by themselves / their last value / their mirror image.',
 'C04': ' The stream search also from mid-sized roots (9 distinct values, 16 with duplicates).',
 'C05': ' Operands of every length 5-16, all distinct and with repeats.',
 'C10': ' A size sweep: 1-70 subscriptions (publish, remove every third, publish, add three, publish).',
 'C12': ' A closed Handler reached through MonadIO.ObserveOn / SubscribeOn and Publisher.SubscribeOn drops the work; the Ask of the ask-mix scenarios is the sender\'s second submission (per-sender order), also with timeouts 0 and -1 ms.',
 'C13': ' Reply returns to the code that called it (what follows it in the effect runs); a reply made late by a helper goroutine; timeouts <= 0 against an actor that never replies.',
 'C14': ' YieldFromIO of an IO observed on a Handler whose effect itself performs a YieldFrom.',
 'C16': ' The shape sweep covers every (length <= 33, pool <= length+2) pair.',
 'C17': ' An empty but non-nil DefaultHeader.',
 'C18': ' The world\'s APIs carry a DefaultHeader and every history ends with APIMakeGet / APIMakePostJSONBody / APIMakeGet probes; 0-40 interceptors registered one by one or in one call (request, remove every third, request, add three, request).',
 'C19': ' Every length 5-40 (run-compositions into <= 3 parts and three fixed key patterns); a builder made with ThenWith(list...) from a caller-owned slice that is refilled afterwards.',
 'C20': ' Product types of every arity 1-12 with a value of another kind at each single position (NewCompData and a SumType pattern).'}
for k, v in addenda10.items():
    e = checks[k]
    checks[k] = (e[0], e[1], e[2] + v, e[3], e[4])
addenda11 = {'C03': ' Drop(0, l) and DropLast(0, l) return l.',
 'C04': ' A result may be the receiver itself but not an argument (result-is-the-argument).',
 'C07': ' Several goroutines Poll at once on 0, 1 and 2 queued values (ChannelQueue and BufferedChannelQueue): nobody blocks, every value goes to one of them.',
 'C08': ' A ConcurrentQueue over a BufferedChannelQueue: three values put, three taken in order.',
 'C09': ' A panic handler that schedules a follow-up job on its own pool and waits until it has started; ScheduleWithTimeout with timeouts 0, 1 ns, 2 ns and negative on a full queue.',
 'C11': ' Handlers set and then reset to nil (ObserveOn(nil) / SubscribeOn(nil)).',
 'C12': ' An actor that closes itself from its effect while other senders are submitting.',
 'C14': ' Targets started only after 2, 6 and 7 requests are queued; YieldFromIO of IOs carrying the payload table (nil, typed nil, zero values), with and without an observe handler.',
 'C16': ' A re-entrant f (nested PMap): 2x1 exhaustively; thorough tier: 1100 outer goroutines, default schedule (declared smoke run).',
 'C17': ' A stub transport that rewrites and appends header values in place; an empty response body (the deserializer is still called, its error surfaced).'}
for k, v in addenda11.items():
    e = checks[k]
    checks[k] = (e[0], e[1], e[2] + v, e[3], e[4])
addenda12 = {'C07': ' Longer node-pool trim scenarios: eight bursts of 4-9 values, the queue keeping 1 or 2 node hooks, both pool policies.',
 'C08': ' Two takers on an empty queue, with and without a producer.',
 'C09': ' An on-demand pool (stand-by 0) whose only worker dies of a panic while a ScheduleWithTimeout caller is between two attempts.',
 'C16': ' Results of an interface type, some of them the nil interface.',
 'C17': ' A deserializer that returns a value of another type (or a typed nil) together with its error.',
 'C18': ' A second search over a world of three instances and the client-wiring operations (one client adopted by all three, re-adopted, left).',
 'C19': ' String keys of which one is the head of another, and the empty key, as first key and as tie-breaker.',
 'C20': ' Sum types whose products talk about structs, the empty product; Compose / Pipe over stages that change the number of values (drop all, count, double).'}
for k, v in addenda12.items():
    e = checks[k]
    checks[k] = (e[0], e[1], e[2] + v, e[3], e[4])
addenda13 = {'C02': ' Values of defined numeric types (time.Duration, named int32 / float64 / uint8 types; negative, huge, NaN) are unsupported sources.',
 'C03': ' The groups returned by SplitEvery are written into and the input re-read.',
 'C04': ' Concat with another stream\'s own slice (as user code passes it), not a copy.',
 'C07': ' An unbuffered ChannelQueue whose producer is parked in Put: a Poll gets the value.',
 'C08': ' A ConcurrentQueue / ConcurrentStack wrapped a second time, callers on both handles.',
 'C09': ' InvokeWithTimeout with a real and a zero timeout on a full queue; SetCallee right after Invoke while the invocation is queued.',
 'C17': ' A response that announces more bytes than arrive (the connection drops after a complete document).',
 'C19': ' SortOrdered* over float lists with +0 and -0: the zeroes keep their input order in both directions.',
 'C20': ' A Trampoline step that returns an error together with done.'}
for k, v in addenda13.items():
    e = checks[k]
    checks[k] = (e[0], e[1], e[2] + v, e[3], e[4])
addenda14 = {'C03': ' Size ladder (2^k-1..2^k+2 up to 4097 distinct values) for the duplicate-removing helpers; Range on int8..int64 with spans wider than the type.',
 'C05': ' Size ladder (to 1195 elements, thorough 4778) as pairs and triples with a value repeated in one later operand and missing in another; stream sets whose streams are windows of one backing list.',
 'C06': ' The container\'s clock reads are answered by the checker (sync-only instrumentation): "idle for 2 s / 1 h" are operations of the alphabet, the idle period is part of the state key.',
 'C07': ' A receiver on GetChannel() after 100 ms / 5 s / 10 min without consumption; bursts of 300-1025 values with 100/300/1000 node hooks and trims between bursts (bound 0, long executions).',
 'C08': ' Remover against adder after a backlog of 70 and 1 ms / 3 s / 10 min of idleness.',
 'C09': ' Jobs that end their goroutine with runtime.Goexit (one and three in a row) on pools of at most one / two workers.',
 'C10': ' 1..140 and 255..1025 subscriptions with one removing itself during a delivery; a subscriber keeping the SubscribeOn handler busy for 300 ms / 3 s / 10 min.',
 'C11': ' FlatMap chains of every depth to 40 and around the powers of two to 4098, left- and right-nested, non-commuting steps; effects / OnNext keeping their handlers busy for 300 ms / 3 s / 10 min.',
 'C12': ' Mailboxes idle for 3 s / 10 min before all senders start at once; handler backlogs of 300 / 600 / 1100 functions behind a blocked one.',
 'C13': ' Four requests sharing one caller-supplied buffered reply channel (capacity 1, 2) with a late collector.',
 'C14': ' Targets that start 3 s / 10 min after the callers queued; targets that served N requests (N around 2^8, 2^15, 2^16, and 70000) before three callers arrive at once.',
 'C15': ' Close during one loader pass over 70 / 300 / 1100 values.',
 'C17': ' Response bodies of 2^k-1..2^k+1 bytes to 4 MiB (thorough 32 MiB), announced and not; evaluation 1.1 timeout periods after the call was described (real clock, one re-try at 5 s).',
 'C19': ' Sort size ladder to 4097 (thorough 32769) with stability oracle.',
 'C20': ' Equality patterns holding arrays / structs with arrays; 1100 (thorough 70000) distinct regex patterns in one process, three passes.'}
for k, v in addenda14.items():
    e = checks[k]
    checks[k] = (e[0], e[1], e[2] + v, e[3], e[4])

not_yet = "check not built yet in this round (see DESIGN.md §9 build order); no claim made"

m = {
 "version": 1,
 "setup_cmd": "./setup.sh",
 "hooks": {
   "guard": "verif",
   "enable": "none needed: checks instrument a scratch copy of /repo's working tree at check time (DESIGN.md §2.1, §7); the tag 'verif' is reserved for hooks should one become necessary",
   "baseline_off_cmd": "scripts/baseline_tests.sh /repo",
   "source_commits": [],
   "add_only": True,
 },
 "engines": [
   {"name": "E1", "path": "engine/ tools/instr/", "serves_properties": [], "kind_free_text": E1},
   {"name": "E2", "path": "harness/", "serves_properties": [], "kind_free_text": E2},
   {"name": "E3", "path": "harness/", "serves_properties": [], "kind_free_text": E3},
 ],
 "checks": [],
 "not_applicable": [],
 "notes": "All checks: ./vcheck <ID> <tier>; replays under replays/<ID>/; known findings in known_findings.json.",
}
for p in props:
    i = p["id"]
    if i in checks:
        eng, tech, text, note, ref = checks[i]
        m["checks"].append({
          "property_id": i,
          "quick_cmd": "./vcheck %s quick" % i,
          "thorough_cmd": "./vcheck %s thorough" % i,
          "evidence_file": "evidence/%s.json" % i,
          "replay_cmd_template": "cat {path}",
          "engine": eng,
          "level_claimed": {"category": "model_checking", "text": text, "design_ref": ref},
          "level_note": note,
          "technique": tech,
        })
        for e in m["engines"]:
            if e["name"] == eng: e["serves_properties"].append(i)
    else:
        m["not_applicable"].append({"property_id": i, "reason": not_yet})
json.dump(m, open(os.path.join(V, "MANIFEST.json"), "w"), indent=1)
print("checks:", [c["property_id"] for c in m["checks"]])
