#!/bin/bash
# prepare_round.sh <round-dir e.g. /tmp/mut9> <file with the round's extra paragraph>
# Sets up one mutation round: a detached scratch worktree of /repo per property (outside /repo and /verif), the
# test-suite runner, and one prompt file per property made of the template, the property text and the
# round's extra paragraph. The sub-agents get nothing else (nothing from /verif).
set -eu
D="$1"; EXTRA="$2"
V="$(cd "$(dirname "$0")/.." && pwd)"
mkdir -p "$D"
cp "$V/scripts/baseline_tests.sh" "$D/runtests.sh"; chmod +x "$D/runtests.sh"
python3 - "$D" "$EXTRA" "$V" <<'PY'
import json, sys
D, extra, V = sys.argv[1], open(sys.argv[2]).read().strip(), sys.argv[3]
tmpl = open(V + '/scripts/mutation_agent_prompt.tmpl').read().replace('/tmp/mut/', D + '/')
for line in open(V + '/properties.jsonl'):
    p = json.loads(line)
    text = "%s: %s\n\n%s\n\nQuantified over: %s" % (p['id'], p['title'], p['statement'], p['quantifier']['text'])
    s = tmpl.replace('@ID@', p['id']).replace('@PROP@', text)
    s = s.replace('Do not edit existing *_test.go files.', extra + '\n\nDo not edit existing *_test.go files.')
    open('%s/%s.prompt.txt' % (D, p['id']), 'w').write(s)
PY
for i in $(seq -w 1 20); do
  mkdir -p "$D/C$i/out/a" "$D/C$i/out/b"
  git -C /repo worktree add --detach "$D/C$i/wt" HEAD >/dev/null 2>&1
done
git -C /repo worktree list | wc -l
