#!/bin/bash
# process_round.sh <round-dir e.g. /tmp/mut5> <suffix for out/a> <suffix for out/b>
# Confirms every agent-produced change of a round (scripts/confirm_seed.sh), runs the property's quick check against the
# confirmed ones (scripts/run_on_seed.sh) and prints the misses.
set -u
D="$1"; SA="$2"; SB="$3"
V="$(cd "$(dirname "$0")/.." && pwd)"
cd "$V"
for i in $(seq -w 1 20); do
  [ -f "$D/C$i/out/a/patch.diff" ] && echo "$D/C$i/out/a C$i-$SA C$i"
  [ -f "$D/C$i/out/b/patch.diff" ] && echo "$D/C$i/out/b C$i-$SB C$i"
done > /tmp/round.list
xargs -P 4 -L 1 scripts/confirm_seed.sh < /tmp/round.list 2>&1 | grep -v '^$' | sort > /tmp/round.confirm.log
echo "confirmed: $(grep -c CONFIRMED /tmp/round.confirm.log)"; grep -v CONFIRMED /tmp/round.confirm.log
ls seeded | grep -- "-[$SA$SB]\$" | xargs -P 6 -I{} scripts/run_on_seed.sh {} 2>&1 | cut -c1-220 | sort > /tmp/round.seeds.log
echo "detected: $(grep -c DETECTED /tmp/round.seeds.log)"; grep -v DETECTED /tmp/round.seeds.log
