#!/bin/bash
# run_on_seed.sh <seed-id> [tier] [check-id]  — applies seeded/<seed-id>/patch.diff to a scratch copy of /repo and
# runs the property's check against it (evidence/replays go to a scratch VERIF_DIR, not to /verif).
# Prints DETECTED / MISSED and updates seeded/<seed-id>/meta.json.
set -u
SID="$1"; TIER="${2:-quick}"
V="$(cd "$(dirname "$0")/.." && pwd)"
PROP="${3:-${SID%%-*}}"
T="/tmp/seedrun-$SID-$PROP"
rm -rf "$T"; mkdir -p "$T/verif"
rsync -a --exclude .git /repo/ "$T/repo/"
( cd "$T/repo" && patch -p1 -s --no-backup-if-mismatch < "$V/seeded/$SID/patch.diff" ) || { echo "$SID: patch does not apply to current /repo"; rm -rf "$T"; exit 2; }
cp "$V/known_findings.json" "$T/verif/"
VERIF_REPO="$T/repo" VERIF_DIR="$T/verif" VERIF_TAG="seed-$SID" "$V/vcheck" "$PROP" "$TIER" > "$T/out.log" 2>&1
rc=$?
if [ $rc = 1 ] && grep -q "^VIOLATION property=$PROP" "$T/out.log"; then
  echo "$SID: DETECTED by $PROP/$TIER: $(grep -m1 '^VIOLATION' "$T/out.log" | sed 's/replay=[^ ]* //' | cut -c1-260)"
  res=detected
elif [ $rc = 0 ]; then
  echo "$SID: MISSED by $PROP/$TIER ($(tail -1 "$T/out.log" | cut -c1-200))"; res=missed
else
  echo "$SID: ENGINE rc=$rc: $(tail -3 "$T/out.log" | cut -c1-300)"; res=engine-error
fi
python3 - "$V/seeded/$SID/meta.json" "$PROP" "$TIER" "$res" "$(grep '^VIOLATION' "$T/out.log" | sed 's/replay=[^ ]* //' | cut -c1-300 | head -3)" <<'PY'
import json,sys
p,prop,tier,res,lines=sys.argv[1:6]
m=json.load(open(p))
d=m.get('check_runs') or {}
d[prop+'/'+tier]={"result":res,"violations":lines.split('\n') if lines else []}
m['check_runs']=d
m['detected_by']=sorted(k for k,v in d.items() if v['result']=='detected') or None
json.dump(m,open(p,'w'),indent=1)
PY
rm -rf "$T"
[ "$res" = detected ]
