#!/bin/bash
# validates MANIFEST.json and all evidence files against the schemas
cd "$(dirname "$0")/.."
python3-vt - <<'PY'
import json,jsonschema,glob
jsonschema.validate(json.load(open('MANIFEST.json')),json.load(open('/root/.vp/MANIFEST.schema.json')))
s=json.load(open('/root/.vp/EVIDENCE.schema.json'))
for f in sorted(glob.glob('evidence/*.json')):
    jsonschema.validate(json.load(open(f)),s)
    e=json.load(open(f)); c=e['coverage']
    print(f, 'ok', e['tier'], 'states',c.get('states'),'trans',c.get('transitions'),'exh',c.get('exhaustive'),'viol',e.get('violations'))
    if e['tier']=='quick' and c.get('exhaustive') is not True:
        print('WARNING:', f, 'quick tier did not complete its space (exhaustive is', c.get('exhaustive'), ')')
print('valid')
PY
