#!/bin/bash
# Run once after a fresh restore, offline: builds the framework tools and warms the Go build cache.
set -e
cd "$(dirname "$0")"
export GOFLAGS=-mod=mod GOPROXY=off GOSUMDB=off GOTOOLCHAIN=local
mkdir -p bin evidence replays
if [ -d tools/instr ]; then ( cd tools/instr && go build -o ../../bin/instr . ); fi
# warm the build cache: one build of each checker against the current tree
for d in harness/checks/*/; do id=$(basename "$d" | tr a-z A-Z); VERIF_WARM=1 ./vcheck "$id" quick >/dev/null 2>&1 || true; done
echo setup done
