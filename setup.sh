#!/bin/bash
# Run once after a fresh restore, offline: builds the framework tools and warms the Go build cache.
set -e
cd "$(dirname "$0")"
export GOFLAGS=-mod=mod GOPROXY=off GOSUMDB=off GOTOOLCHAIN=local
mkdir -p bin evidence replays
if [ -d tools/instr ]; then ( cd tools/instr && go build -o ../../bin/instr . ); fi
# warm the build cache: one build of each checker against the current tree
# runtime-model conformance battery (exit 2 on mismatch)
VERIF_DIR=/tmp/verif-setup-$$ ./vcheck conform quick > bin/conform.log 2>&1 || { cat bin/conform.log; echo "setup: conformance battery FAILED"; exit 2; }
tail -1 bin/conform.log
rm -rf /tmp/verif-setup-$$
# warm the Go build cache: build (not run) every checker once against the current tree
for d in harness/checks/*/; do id=$(basename "$d"); [ "$id" = conform ] && continue; VERIF_BUILD_ONLY=1 ./vcheck "$(echo $id | tr a-z A-Z)" quick >/dev/null 2>&1 || echo "setup: warning: $id did not build"; done
echo setup done
