module verif/tools/instr

go 1.18
