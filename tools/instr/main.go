// instr rewrites Go packages so that every synchronisation operation goes through the controlled
// scheduler zzverif/vsched (engine E1). It works on a scratch copy; /repo is never written.
//
//	instr -root <module root> -pkgs ".,worker"        (library packages, relative to root)
//	instr -scen <dir>                                 (scenario package of a check; run with cwd in its module)
//
// Unsupported constructs make it exit 2 with file:line — never a silent pass.
package main

import (
	"bytes"
	"flag"
	"fmt"
	"go/ast"
	"go/importer"
	"go/parser"
	"go/printer"
	"go/token"
	"go/types"
	"os"
	"path/filepath"
	"reflect"
	"sort"
	"strconv"
	"strings"
)

const vschedPath = "github.com/TeaEntityLab/fpGo/v2/zzverif/vsched"
const vsyncPath = "github.com/TeaEntityLab/fpGo/v2/zzverif/sync"
const vatomicPath = "github.com/TeaEntityLab/fpGo/v2/zzverif/atomic"
const vcontextPath = "github.com/TeaEntityLab/fpGo/v2/zzverif/context"

var timeFuncs = map[string]bool{"Sleep": true, "After": true, "Now": true, "Since": true, "Until": true, "NewTimer": true,
	"NewTicker": true, "AfterFunc": true, "Tick": true, "Timer": true, "Ticker": true}

func die(fset *token.FileSet, pos token.Pos, format string, a ...interface{}) {
	fmt.Fprintf(os.Stderr, "instr: %s: %s\n", fset.Position(pos), fmt.Sprintf(format, a...))
	os.Exit(2)
}

func main() {
	root := flag.String("root", "", "module root of the library copy")
	pkgs := flag.String("pkgs", "", "comma separated package dirs relative to root")
	scen := flag.String("scen", "", "scenario package directory")
	onlySync := flag.Bool("only-sync", false, "rewrite only the sync / sync/atomic imports (no scheduling points)")
	flag.Parse()
	if *root != "" {
		for _, p := range strings.Split(*pkgs, ",") {
			dir := filepath.Join(*root, p)
			if _, err := os.Stat(dir); err != nil {
				continue
			}
			instrumentDir(dir, *onlySync)
		}
	}
	if *scen != "" {
		instrumentDir(*scen, false)
	}
}

func instrumentDir(dir string, onlySync bool) {
	abs, _ := filepath.Abs(dir)
	if err := os.Chdir(abs); err != nil {
		fmt.Fprintln(os.Stderr, "instr:", err)
		os.Exit(2)
	}
	fset := token.NewFileSet()
	ents, _ := os.ReadDir(abs)
	var files []*ast.File
	var names []string
	for _, e := range ents {
		n := e.Name()
		if e.IsDir() || !strings.HasSuffix(n, ".go") || strings.HasSuffix(n, "_test.go") || strings.HasPrefix(n, "zz_noinstr") {
			continue
		}
		f, err := parser.ParseFile(fset, filepath.Join(abs, n), nil, parser.SkipObjectResolution)
		if err != nil {
			fmt.Fprintln(os.Stderr, "instr: parse:", err)
			os.Exit(2)
		}
		files = append(files, f)
		names = append(names, n)
	}
	if len(files) == 0 {
		return
	}
	info := &types.Info{Types: map[ast.Expr]types.TypeAndValue{}, Uses: map[*ast.Ident]types.Object{}, Defs: map[*ast.Ident]types.Object{},
		Selections: map[*ast.SelectorExpr]*types.Selection{}}
	conf := types.Config{Importer: importer.ForCompiler(fset, "source", nil), Error: func(err error) {}}
	var firstErr error
	conf.Error = func(err error) {
		if firstErr == nil {
			firstErr = err
		}
	}
	pkg, _ := conf.Check(files[0].Name.Name, fset, files, info)
	if firstErr != nil {
		fmt.Fprintln(os.Stderr, "instr: type-check:", firstErr)
		os.Exit(2)
	}
	for i, f := range files {
		r := &rw{fset: fset, info: info, pkg: pkg, file: f, tag: sanitize(pkg.Name() + "_" + strings.TrimSuffix(names[i], ".go")), onlySync: onlySync}
		r.run()
		var buf bytes.Buffer
		f.Comments = nil
		if err := printer.Fprint(&buf, fset, f); err != nil {
			fmt.Fprintln(os.Stderr, "instr: print:", err)
			os.Exit(2)
		}
		if err := os.WriteFile(filepath.Join(abs, names[i]), buf.Bytes(), 0o644); err != nil {
			fmt.Fprintln(os.Stderr, "instr:", err)
			os.Exit(2)
		}
		fmt.Printf("instr: %s/%s: %d field sites, %d sync rewrites\n", dir, names[i], len(r.sites), r.nsync)
	}
}

func sanitize(s string) string {
	var b strings.Builder
	for _, c := range s {
		if c == '_' || (c >= 'a' && c <= 'z') || (c >= 'A' && c <= 'Z') || (c >= '0' && c <= '9') {
			b.WriteRune(c)
		} else {
			b.WriteRune('_')
		}
	}
	return b.String()
}

type site struct{ pos, field string }

type rw struct {
	fset     *token.FileSet
	info     *types.Info
	pkg      *types.Package
	file     *ast.File
	tag      string
	sites    []site
	nsync    int
	tmp      int
	need     bool
	recv2    map[ast.Expr]bool
	onlySync bool
}

type ctx struct {
	parent ast.Node
	lhs    bool // the expression designates memory that is written
	addr   bool // operand of & (no access)
}

func (r *rw) run() {
	r.recv2 = map[ast.Expr]bool{}
	timeName, runtimeName := "", ""
	for _, im := range r.file.Imports {
		p, _ := strconv.Unquote(im.Path.Value)
		switch p {
		case "sync":
			im.Path.Value = strconv.Quote(vsyncPath)
			if im.Name == nil {
				im.Name = ast.NewIdent("sync")
			}
		case "sync/atomic":
			im.Path.Value = strconv.Quote(vatomicPath)
			if im.Name == nil {
				im.Name = ast.NewIdent("atomic")
			}
		case "context":
			// (scheduled code only: cancellation channels and deadlines the scheduler knows; the sync-only mode
			// keeps the real context package, whose timers run on the real clock like everything else there)
			if !r.onlySync {
				im.Path.Value = strconv.Quote(vcontextPath)
				if im.Name == nil {
					im.Name = ast.NewIdent("context")
				}
			}
		case "time":
			timeName = "time"
			if im.Name != nil {
				timeName = im.Name.Name
			}
		case "runtime":
			runtimeName = "runtime"
			if im.Name != nil {
				runtimeName = im.Name.Name
			}
		}
	}
	if r.onlySync {
		// ... and the clock reads: time.Now / Since / Until go through vsched, which answers with the real clock unless the
		// checker installed a manual one (vsched.ManualNow): elapsed time becomes an environment answer the checker decides
		if timeName == "" || timeName == "_" || timeName == "." {
			return
		}
		ast.Inspect(r.file, func(n ast.Node) bool {
			c, ok := n.(*ast.CallExpr)
			if !ok {
				return true
			}
			sel, ok := c.Fun.(*ast.SelectorExpr)
			if !ok {
				return true
			}
			id, ok := sel.X.(*ast.Ident)
			if !ok || id.Name != timeName || (sel.Sel.Name != "Now" && sel.Sel.Name != "Since" && sel.Sel.Name != "Until") {
				return true
			}
			if pn, ok := r.info.Uses[id].(*types.PkgName); !ok || pn.Imported().Path() != "time" {
				return true
			}
			c.Fun = vs(sel.Sel.Name)
			r.need = true
			return true
		})
		if !r.need {
			return
		}
	} else {
		for i, d := range r.file.Decls {
			r.file.Decls[i] = r.rewrite(d, ctx{parent: r.file}).(ast.Decl)
		}
	}
	if timeName != "" && timeName != "_" && timeName != "." {
		// keep the import used
		r.file.Decls = append(r.file.Decls, &ast.GenDecl{Tok: token.VAR, Specs: []ast.Spec{&ast.ValueSpec{Names: []*ast.Ident{ast.NewIdent("_")},
			Type: &ast.SelectorExpr{X: ast.NewIdent(timeName), Sel: ast.NewIdent("Duration")}}}})
	}
	if runtimeName != "" && runtimeName != "_" && runtimeName != "." {
		// keep the import used (runtime.Gosched calls were redirected)
		r.file.Decls = append(r.file.Decls, &ast.GenDecl{Tok: token.VAR, Specs: []ast.Spec{&ast.ValueSpec{Names: []*ast.Ident{ast.NewIdent("_")},
			Values: []ast.Expr{&ast.SelectorExpr{X: ast.NewIdent(runtimeName), Sel: ast.NewIdent("NumCPU")}}}}})
	}
	if len(r.sites) > 0 {
		// var _vsites_<tag> = vsched.RegisterSites([]vsched.Site{{Pos: "...", Field: "..."}, ...})
		var elts []ast.Expr
		for _, s := range r.sites {
			elts = append(elts, &ast.CompositeLit{Elts: []ast.Expr{
				&ast.KeyValueExpr{Key: ast.NewIdent("Pos"), Value: strLit(s.pos)},
				&ast.KeyValueExpr{Key: ast.NewIdent("Field"), Value: strLit(s.field)}}})
		}
		r.file.Decls = append(r.file.Decls, &ast.GenDecl{Tok: token.VAR, Specs: []ast.Spec{&ast.ValueSpec{
			Names:  []*ast.Ident{ast.NewIdent(r.sitesVar())},
			Values: []ast.Expr{call(vs("RegisterSites"), &ast.CompositeLit{Type: &ast.ArrayType{Elt: vs("Site")}, Elts: elts})}}}})
		r.need = true
	}
	for _, im := range r.file.Imports {
		if p, _ := strconv.Unquote(im.Path.Value); p == vschedPath && (im.Name == nil || im.Name.Name == "vsched") {
			r.need = false
		}
	}
	if r.need {
		spec := &ast.ImportSpec{Name: ast.NewIdent("vsched"), Path: &ast.BasicLit{Kind: token.STRING, Value: strconv.Quote(vschedPath)}}
		r.file.Imports = append(r.file.Imports, spec)
		decl := &ast.GenDecl{Tok: token.IMPORT, Specs: []ast.Spec{spec}}
		r.file.Decls = append([]ast.Decl{decl}, r.file.Decls...)
	}
}

func (r *rw) sitesVar() string { return "_vsites_" + r.tag }

func strLit(s string) *ast.BasicLit {
	return &ast.BasicLit{Kind: token.STRING, Value: strconv.Quote(s)}
}
func intLit(i int) *ast.BasicLit { return &ast.BasicLit{Kind: token.INT, Value: strconv.Itoa(i)} }
func vs(name string) ast.Expr {
	return &ast.SelectorExpr{X: ast.NewIdent("vsched"), Sel: ast.NewIdent(name)}
}
func call(fun ast.Expr, args ...ast.Expr) *ast.CallExpr {
	return &ast.CallExpr{Fun: fun, Args: args}
}
func method(x ast.Expr, name string, args ...ast.Expr) *ast.CallExpr {
	return call(&ast.SelectorExpr{X: x, Sel: ast.NewIdent(name)}, args...)
}

func (r *rw) fresh(prefix string) *ast.Ident {
	r.tmp++
	return ast.NewIdent(fmt.Sprintf("_v%s%d", prefix, r.tmp))
}

func unparen(e ast.Expr) ast.Expr {
	for {
		p, ok := e.(*ast.ParenExpr)
		if !ok {
			return e
		}
		e = p.X
	}
}

func (r *rw) chanType(e ast.Expr) *types.Chan {
	t := r.info.TypeOf(e)
	if t == nil {
		return nil
	}
	if tp, ok := t.(*types.TypeParam); ok {
		t = tp.Constraint()
	}
	c, _ := t.Underlying().(*types.Chan)
	return c
}

// chanWrap builds vsched.C / CR / CS (ch') for an already rewritten channel expression.
func (r *rw) chanWrap(orig ast.Expr, rewritten ast.Expr) ast.Expr {
	c := r.chanType(orig)
	r.need = true
	fn := "C"
	if c != nil {
		switch c.Dir() {
		case types.RecvOnly:
			fn = "CR"
		case types.SendOnly:
			fn = "CS"
		}
	}
	return call(vs(fn), rewritten)
}

func (r *rw) isBuiltin(fun ast.Expr, name string) bool {
	id, ok := unparen(fun).(*ast.Ident)
	if !ok || id.Name != name {
		return false
	}
	_, isB := r.info.Uses[id].(*types.Builtin)
	return isB
}

func isRecv(e ast.Expr) (*ast.UnaryExpr, bool) {
	u, ok := unparen(e).(*ast.UnaryExpr)
	if ok && u.Op == token.ARROW {
		return u, true
	}
	return nil, false
}

var nodeType = reflect.TypeOf((*ast.Node)(nil)).Elem()

// children rewrites all child nodes of n in place, deriving each child's context.
func (r *rw) children(n ast.Node, c ctx) {
	v := reflect.ValueOf(n)
	if v.Kind() != reflect.Ptr || v.IsNil() {
		return
	}
	s := v.Elem()
	if s.Kind() != reflect.Struct {
		return
	}
	t := s.Type()
	for i := 0; i < s.NumField(); i++ {
		f := s.Field(i)
		name := t.Field(i).Name
		if name == "Obj" || name == "Doc" || name == "Comment" || name == "Comments" || name == "Scope" || name == "Unresolved" || name == "Imports" {
			continue
		}
		cc := ctx{parent: n}
		switch nn := n.(type) {
		case *ast.AssignStmt:
			if name == "Lhs" && nn.Tok != token.DEFINE {
				cc.lhs = true
			}
		case *ast.IncDecStmt:
			cc.lhs = true
		case *ast.RangeStmt:
			if (name == "Key" || name == "Value") && nn.Tok == token.ASSIGN {
				cc.lhs = true
			}
		case *ast.IndexExpr:
			if name == "X" {
				cc.lhs = c.lhs
			}
		case *ast.ParenExpr:
			cc.lhs, cc.addr = c.lhs, c.addr
		case *ast.UnaryExpr:
			if nn.Op == token.AND {
				cc.addr = true
			}
		case *ast.CallExpr:
			if name == "Args" && r.isBuiltin(nn.Fun, "delete") {
				cc.lhs = true // delete(m, k): the map is written (only Args[0] matters; k is rarely a field)
			}
		}
		switch f.Kind() {
		case reflect.Interface, reflect.Ptr:
			if f.IsNil() || !f.Type().Implements(nodeType) {
				continue
			}
			child := f.Interface().(ast.Node)
			nc := r.rewrite(child, cc)
			if nc != child {
				f.Set(reflect.ValueOf(nc))
			}
		case reflect.Slice:
			if !f.Type().Elem().Implements(nodeType) {
				continue
			}
			for j := 0; j < f.Len(); j++ {
				e := f.Index(j)
				if e.IsNil() {
					continue
				}
				child := e.Interface().(ast.Node)
				c2 := cc
				if ce, ok := n.(*ast.CallExpr); ok && name == "Args" && j > 0 && r.isBuiltin(ce.Fun, "delete") {
					c2.lhs = false
				}
				nc := r.rewrite(child, c2)
				if nc != child {
					e.Set(reflect.ValueOf(nc))
				}
			}
		}
	}
}

func (r *rw) rewrite(n ast.Node, c ctx) ast.Node {
	switch n := n.(type) {
	case *ast.ImportSpec, *ast.BasicLit:
		return n
	case *ast.Ident:
		return n
	case *ast.LabeledStmt:
		switch inner := n.Stmt.(type) {
		case *ast.RangeStmt:
			if r.chanType(inner.X) != nil {
				pre, main := r.rangeChan(inner)
				return &ast.BlockStmt{List: append(pre, &ast.LabeledStmt{Label: n.Label, Stmt: main})}
			}
		case *ast.SelectStmt:
			pre, main := r.selectStmt(inner)
			return &ast.BlockStmt{List: append(pre, &ast.LabeledStmt{Label: n.Label, Stmt: main})}
		}
		r.children(n, c)
		return n
	case *ast.RangeStmt:
		if r.chanType(n.X) != nil {
			pre, main := r.rangeChan(n)
			return &ast.BlockStmt{List: append(pre, main)}
		}
		r.children(n, c)
		return n
	case *ast.SelectStmt:
		pre, main := r.selectStmt(n)
		return &ast.BlockStmt{List: append(pre, main)}
	case *ast.GoStmt:
		return r.goStmt(n)
	case *ast.SendStmt:
		orig := n.Chan
		r.children(n, c)
		r.nsync++
		return &ast.ExprStmt{X: method(r.chanWrap(orig, n.Chan), "Send", n.Value)}
	case *ast.AssignStmt:
		if len(n.Lhs) == 2 && len(n.Rhs) == 1 {
			if u, ok := isRecv(n.Rhs[0]); ok {
				r.recv2[u] = true
			}
		}
		r.children(n, c)
		return n
	case *ast.ValueSpec:
		if len(n.Names) == 2 && len(n.Values) == 1 {
			if u, ok := isRecv(n.Values[0]); ok {
				r.recv2[u] = true
			}
		}
		r.children(n, c)
		return n
	case *ast.UnaryExpr:
		if n.Op == token.ARROW {
			orig := n.X
			r.children(n, c)
			r.nsync++
			name := "Recv"
			if r.recv2[n] {
				name = "Recv2"
			}
			return method(r.chanWrap(orig, n.X), name)
		}
		r.children(n, c)
		return n
	case *ast.CallExpr:
		if len(n.Args) == 1 && r.chanType(n.Args[0]) != nil {
			for _, b := range []struct{ name, m string }{{"close", "Close"}, {"len", "Len"}} {
				if r.isBuiltin(n.Fun, b.name) {
					orig := n.Args[0]
					r.children(n, c)
					r.nsync++
					return method(r.chanWrap(orig, n.Args[0]), b.m)
				}
			}
		}
		r.children(n, c)
		return n
	case *ast.SelectorExpr:
		// time.X -> vsched.X
		if id, ok := n.X.(*ast.Ident); ok {
			if pn, ok := r.info.Uses[id].(*types.PkgName); ok {
				if pn.Imported().Path() == "time" && timeFuncs[n.Sel.Name] {
					r.need = true
					r.nsync++
					return &ast.SelectorExpr{X: ast.NewIdent("vsched"), Sel: n.Sel}
				}
				if pn.Imported().Path() == "runtime" && n.Sel.Name == "Gosched" {
					// a spin loop that yields with runtime.Gosched yields to the controlled scheduler
					r.need = true
					r.nsync++
					return &ast.SelectorExpr{X: ast.NewIdent("vsched"), Sel: ast.NewIdent("Gosched")}
				}
				return n
			}
		}
		sel := r.info.Selections[n]
		wrap := sel != nil && sel.Kind() == types.FieldVal && !c.addr && r.reached(n) && !r.coveredByParent(n, c)
		r.children(n, ctx{parent: n})
		if !wrap {
			return n
		}
		fn := "R"
		if c.lhs {
			fn = "W"
		}
		idx := len(r.sites)
		p := r.fset.Position(n.Sel.Pos())
		r.sites = append(r.sites, site{pos: fmt.Sprintf("%s:%d", filepath.Base(p.Filename), p.Line), field: fieldKey(sel)})
		r.need = true
		siteExpr := &ast.BinaryExpr{X: ast.NewIdent(r.sitesVar()), Op: token.ADD, Y: intLit(idx)}
		return &ast.ParenExpr{X: &ast.StarExpr{X: call(vs(fn), &ast.UnaryExpr{Op: token.AND, X: n}, siteExpr)}}
	case *ast.FuncLit, *ast.FuncDecl:
		r.children(n, c)
		return n
	}
	r.children(n, c)
	return n
}

func fieldKey(sel *types.Selection) string {
	t := sel.Recv()
	for {
		p, ok := t.(*types.Pointer)
		if !ok {
			break
		}
		t = p.Elem()
	}
	name := t.String()
	if nt, ok := t.(*types.Named); ok {
		name = nt.Obj().Name()
	}
	return name + "." + sel.Obj().Name()
}

// reached: the selected field lives in memory reached through at least one pointer indirection.
func (r *rw) reached(n *ast.SelectorExpr) bool {
	sel := r.info.Selections[n]
	if sel == nil || sel.Kind() != types.FieldVal {
		return false
	}
	if sel.Indirect() {
		return true
	}
	switch x := unparen(n.X).(type) {
	case *ast.SelectorExpr:
		return r.reached(x)
	case *ast.StarExpr:
		return true
	case *ast.IndexExpr:
		t := r.info.TypeOf(x.X)
		if t != nil {
			switch t.Underlying().(type) {
			case *types.Slice, *types.Pointer:
				return true
			}
		}
	}
	return false
}

// coveredByParent: the parent expression is itself an instrumented access of memory inside this
// field (a.b.c with b a struct value), or uses the field only as the receiver of a method of a
// struct-valued field (q.isClosed.Get(), q.lock.Lock(): the method's own atomics/locks are the
// synchronisation).
func (r *rw) coveredByParent(n *ast.SelectorExpr, c ctx) bool {
	p, ok := c.parent.(*ast.SelectorExpr)
	if !ok || unparen(p.X) != ast.Expr(n) {
		return false
	}
	psel := r.info.Selections[p]
	if psel == nil {
		return false
	}
	ft := r.info.Selections[n].Type()
	_, isPtr := ft.Underlying().(*types.Pointer)
	_, isIface := ft.Underlying().(*types.Interface)
	if isPtr || isIface {
		return false
	}
	if psel.Kind() == types.FieldVal {
		return !psel.Indirect()
	}
	_, isStruct := ft.Underlying().(*types.Struct)
	return isStruct // method on a struct-valued field
}

// rangeChan: for k := range ch { body }
func (r *rw) rangeChan(n *ast.RangeStmt) ([]ast.Stmt, ast.Stmt) {
	orig := n.X
	x := r.rewrite(n.X, ctx{parent: n}).(ast.Expr)
	body := r.rewrite(n.Body, ctx{parent: n}).(*ast.BlockStmt)
	cv := r.fresh("c")
	okv := r.fresh("ok")
	r.nsync++
	pre := []ast.Stmt{&ast.AssignStmt{Lhs: []ast.Expr{cv}, Tok: token.DEFINE, Rhs: []ast.Expr{x}}}
	recv := method(r.chanWrapT(orig, cv), "Recv2")
	var head []ast.Stmt
	brk := &ast.IfStmt{Cond: &ast.UnaryExpr{Op: token.NOT, X: okv}, Body: &ast.BlockStmt{List: []ast.Stmt{&ast.BranchStmt{Tok: token.BREAK}}}}
	switch {
	case n.Key == nil || isBlank(n.Key):
		head = []ast.Stmt{&ast.AssignStmt{Lhs: []ast.Expr{ast.NewIdent("_"), okv}, Tok: token.DEFINE, Rhs: []ast.Expr{recv}}, brk}
	case n.Tok == token.DEFINE:
		head = []ast.Stmt{&ast.AssignStmt{Lhs: []ast.Expr{n.Key, okv}, Tok: token.DEFINE, Rhs: []ast.Expr{recv}}, brk}
	default:
		tv := r.fresh("t")
		key := r.rewrite(n.Key, ctx{parent: n, lhs: true}).(ast.Expr)
		head = []ast.Stmt{&ast.AssignStmt{Lhs: []ast.Expr{tv, okv}, Tok: token.DEFINE, Rhs: []ast.Expr{recv}}, brk,
			&ast.AssignStmt{Lhs: []ast.Expr{key}, Tok: token.ASSIGN, Rhs: []ast.Expr{tv}}}
	}
	body.List = append(head, body.List...)
	return pre, &ast.ForStmt{Body: body}
}

// chanWrapT wraps an identifier holding the channel value (type taken from the original expr).
func (r *rw) chanWrapT(orig ast.Expr, id *ast.Ident) ast.Expr { return r.chanWrap(orig, id) }

func isBlank(e ast.Expr) bool {
	id, ok := e.(*ast.Ident)
	return ok && id.Name == "_"
}

func (r *rw) selectStmt(n *ast.SelectStmt) ([]ast.Stmt, ast.Stmt) {
	r.nsync++
	r.need = true
	var pre []ast.Stmt
	var kvars []ast.Expr
	var clauses []ast.Stmt
	hasDefault := false
	idx := 0
	for _, cl := range n.Body.List {
		cc := cl.(*ast.CommClause)
		var head []ast.Stmt
		var caseList []ast.Expr
		if cc.Comm == nil {
			hasDefault = true
		} else {
			kv := r.fresh("k")
			switch comm := cc.Comm.(type) {
			case *ast.SendStmt:
				origCh := comm.Chan
				ch := r.rewrite(comm.Chan, ctx{parent: comm}).(ast.Expr)
				val := r.rewrite(comm.Value, ctx{parent: comm}).(ast.Expr)
				pre = append(pre, &ast.AssignStmt{Lhs: []ast.Expr{kv}, Tok: token.DEFINE, Rhs: []ast.Expr{method(r.chanWrap(origCh, ch), "SendCase", val)}})
			case *ast.ExprStmt:
				u, ok := isRecv(comm.X)
				if !ok {
					die(r.fset, comm.Pos(), "unsupported select communication")
				}
				origCh := u.X
				ch := r.rewrite(u.X, ctx{parent: u}).(ast.Expr)
				pre = append(pre, &ast.AssignStmt{Lhs: []ast.Expr{kv}, Tok: token.DEFINE, Rhs: []ast.Expr{method(r.chanWrap(origCh, ch), "RecvCase")}})
			case *ast.AssignStmt:
				u, ok := isRecv(comm.Rhs[0])
				if !ok || len(comm.Rhs) != 1 {
					die(r.fset, comm.Pos(), "unsupported select communication")
				}
				origCh := u.X
				ch := r.rewrite(u.X, ctx{parent: u}).(ast.Expr)
				pre = append(pre, &ast.AssignStmt{Lhs: []ast.Expr{kv}, Tok: token.DEFINE, Rhs: []ast.Expr{method(r.chanWrap(origCh, ch), "RecvCase")}})
				tok := comm.Tok
				allBlank := true
				var lhs []ast.Expr
				for _, l := range comm.Lhs {
					if !isBlank(l) {
						allBlank = false
					}
					if tok == token.ASSIGN {
						l = r.rewrite(l, ctx{parent: comm, lhs: true}).(ast.Expr)
					}
					lhs = append(lhs, l)
				}
				if allBlank {
					tok = token.ASSIGN
				}
				rhs := []ast.Expr{&ast.SelectorExpr{X: kv, Sel: ast.NewIdent("Val")}}
				if len(lhs) == 2 {
					rhs = append(rhs, &ast.SelectorExpr{X: kv, Sel: ast.NewIdent("Ok")})
				}
				head = append(head, &ast.AssignStmt{Lhs: lhs, Tok: tok, Rhs: rhs})
			default:
				die(r.fset, cc.Pos(), "unsupported select communication")
			}
			kvars = append(kvars, kv)
			caseList = []ast.Expr{intLit(idx)}
			idx++
		}
		var body []ast.Stmt
		for _, s := range cc.Body {
			body = append(body, r.rewrite(s, ctx{parent: cc}).(ast.Stmt))
		}
		clauses = append(clauses, &ast.CaseClause{List: caseList, Body: append(head, body...)})
	}
	d := "false"
	if hasDefault {
		d = "true"
	} else {
		// keeps the statement terminating when every clause returns (as the select was)
		clauses = append(clauses, &ast.CaseClause{Body: []ast.Stmt{&ast.ExprStmt{X: call(ast.NewIdent("panic"), strLit("vsched: select without ready clause"))}}})
	}
	args := append([]ast.Expr{ast.NewIdent(d)}, kvars...)
	return pre, &ast.SwitchStmt{Tag: call(vs("Select"), args...), Body: &ast.BlockStmt{List: clauses}}
}

func (r *rw) goStmt(n *ast.GoStmt) ast.Stmt {
	r.nsync++
	r.need = true
	c := n.Call
	if lit, ok := c.Fun.(*ast.FuncLit); ok && len(c.Args) == 0 {
		fl := r.rewrite(lit, ctx{parent: c}).(ast.Expr)
		return &ast.ExprStmt{X: call(vs("Go"), fl)}
	}
	var pre []ast.Stmt
	fun := r.rewrite(c.Fun, ctx{parent: c}).(ast.Expr)
	switch unparen(c.Fun).(type) {
	case *ast.Ident, *ast.FuncLit, *ast.IndexExpr, *ast.IndexListExpr:
		// plain / generic function names are not evaluated into a temporary
	default:
		fv := r.fresh("f")
		pre = append(pre, &ast.AssignStmt{Lhs: []ast.Expr{fv}, Tok: token.DEFINE, Rhs: []ast.Expr{fun}})
		fun = fv
	}
	var args []ast.Expr
	for _, a := range c.Args {
		tv := r.info.Types[a]
		ra := r.rewrite(a, ctx{parent: c}).(ast.Expr)
		if tv.Value != nil || tv.IsNil() {
			args = append(args, ra) // constants have no evaluation-order issue
			continue
		}
		av := r.fresh("a")
		pre = append(pre, &ast.AssignStmt{Lhs: []ast.Expr{av}, Tok: token.DEFINE, Rhs: []ast.Expr{ra}})
		args = append(args, av)
	}
	inner := &ast.CallExpr{Fun: fun, Args: args, Ellipsis: c.Ellipsis}
	if c.Ellipsis != token.NoPos {
		inner.Ellipsis = 1
	}
	g := &ast.ExprStmt{X: call(vs("Go"), &ast.FuncLit{Type: &ast.FuncType{Params: &ast.FieldList{}}, Body: &ast.BlockStmt{List: []ast.Stmt{&ast.ExprStmt{X: inner}}}})}
	if len(pre) == 0 {
		return g
	}
	return &ast.BlockStmt{List: append(pre, g)}
}

var _ = sort.Strings
